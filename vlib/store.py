"""Enumeration of the shipped data store and helpers to run work in parallel."""
import copy
import json
import multiprocessing
import os
import time
import traceback

from . import impl, paths

DATA = os.path.join(paths.REPO, 'basis_set_exchange', 'data')

# names that exercise particular shapes; always part of the quick sample
STRATA = ['6-31g', '6-31g*', '6-311+g**', 'sto-3g', 'cc-pvdz', 'cc-pvtz', 'aug-cc-pvdz', 'def2-svp', 'def2-tzvp', 'lanl2dz',
          'def2-ecp', 'crenbl', 'ano-rcc', 'pob-tzvp', 'cc-pv5z', 'aug-cc-pvtz-rifit', 'sbkjc-vdz', 'stuttgart rsc 1997',
          '3-21g', 'ugbs', 'pcseg-1', 'sapporo-dzp', 'jorge-dzp', 'dgauss-a1-dftjfit', 'x2c-svpall', 'ahgbs-5',
          'sv (dunning-hay)', 'def2-universal-jkfit', 'sadlej pvtz', '6-31++g**', 'cc-pvdz-pp', 'aug-pcj-0_2006']


def metadata():
    with open(os.path.join(DATA, 'METADATA.json'), encoding='utf-8') as f:
        return json.load(f)


def all_pairs(md=None):
    md = md or metadata()
    out = []
    for k, v in md.items():
        for ver in v['versions']:
            out.append((k, ver))
    return out


def zero_length_files():
    """Data files that are empty in this checkout (reported as unreadable, never read as data)."""
    out = []
    for root, _, files in os.walk(DATA):
        for f in files:
            if f.endswith('.json'):
                p = os.path.join(root, f)
                if os.path.getsize(p) == 0:
                    out.append(os.path.relpath(p, DATA))
    return sorted(out)


def sample_names(rng, n, md=None):
    md = md or metadata()
    keys = sorted(md.keys())
    base = [k for k in STRATA if k in md]
    rest = [k for k in keys if k not in base]
    rng.shuffle(rest)
    return (base + rest)[:max(n, 1)] if n < len(base) else base + rest[:n - len(base)]


_cache = {}


def get_basis(name, version=None, **kw):
    """('ok', basis) or ('error', cls) from the implementation (no options: memoised internally, so copy)."""
    bse = impl.bse()
    return impl.call(bse.get_basis, name, version=version, **kw)


def restrict(basis, rng, nmax):
    """A copy of the basis with at most nmax elements (all data of the kept elements intact)."""
    b = copy.deepcopy(basis)
    ks = list(b['elements'].keys())
    if len(ks) > nmax:
        keep = set(rng.sample(ks, nmax))
        # keep elements with ECPs / fused shells with preference
        b['elements'] = {k: v for k, v in b['elements'].items() if k in keep}
        # what get_basis(elements=<the kept ones>) returns: the function types present in the kept elements
        types = set()
        for el in b['elements'].values():
            types.update(sh['function_type'] for sh in el.get('electron_shells', []))
            types.update(p['ecp_type'] for p in el.get('ecp_potentials', []))
        if 'function_types' in b:
            b['function_types'] = sorted(types)
    return b


# ------------------------------------------------------------------ parallel work
def _worker(args):
    prop, tier, seed, fn_mod, fn_name, chunk, idx, boost, deadline = args
    from . import check, model
    import importlib
    ctx = check.Ctx(prop, tier, seed * 1000 + idx)
    ctx.boost = boost
    try:
        try:
            ctx.model = model.Driver()
        except model.ModelUnavailable:
            ctx.model = None
        fn = getattr(importlib.import_module(fn_mod), fn_name)
        for k, item in enumerate(chunk):
            if time.time() > deadline:
                # wall budget of this stream used up: the remaining items are not explored (counted in the evidence)
                ctx.extra['items_skipped_after_wall_budget'] = len(chunk) - k
                break
            fn(ctx, item)
    except model.ModelUnavailable as e:
        ctx.extra['model_died'] = str(e)
    except Exception:
        ctx.extra['worker_crash'] = traceback.format_exc()[-1500:]
    log = []
    calls = 0
    if ctx.model is not None:
        log = ctx.model.log[:60]
        calls = ctx.model.calls
        ctx.model.close()
    return {'evaluations': ctx.evaluations, 'distinct': ctx.distinct, 'samples': ctx.samples, 'dist': ctx.dist,
            'disagreements': ctx.disagreements, 'violations': ctx.violations, 'known_hits': ctx.known_hits,
            'extra': ctx.extra, 'notes': ctx.notes, 'log': log, 'calls': calls}


def parallel(ctx, fn, items, nproc=None):
    """Run fn(subctx, item) for every item in worker processes (each with its own model driver) and merge."""
    items = list(items)
    if not items:
        return
    nproc = nproc or min(14, max(1, len(items)))
    import random as _random
    _random.Random(ctx.seed).shuffle(items)       # so that a wall-budget cut skips a random sample, not the end of the alphabet
    chunks = [items[i::nproc] for i in range(nproc)]
    # wall budget per stream: the chunks are interleaved (items[i::nproc]), so what is skipped when time is up is a
    # uniform tail of every worker's share, never a particular region of the input space
    wall = float(os.environ.get('VERIF_STREAM_WALL_S', '900' if ctx.tier == 'thorough' else '600'))
    deadline = time.time() + wall
    args = [(ctx.prop, ctx.tier, ctx.seed, fn.__module__, fn.__name__, ch, i, ctx.boost, deadline) for i, ch in enumerate(chunks) if ch]
    with multiprocessing.get_context('fork').Pool(len(args)) as pool:
        results = pool.map(_worker, args)
    for r in results:
        ctx.evaluations += r['evaluations']
        ctx.distinct |= r['distinct']
        for s in r['samples']:
            ctx.sample(s)
        ctx.dist.update(r['dist'])
        for d in r['disagreements']:
            if len(ctx.disagreements) < 50:
                ctx.disagreements.append(d)
            else:
                ctx.extra['disagreements_not_listed'] = ctx.extra.get('disagreements_not_listed', 0) + 1
        ctx.extra['disagreements_not_listed'] = ctx.extra.get('disagreements_not_listed', 0) + r['extra'].pop('disagreements_not_listed', 0)
        for v in r['violations']:
            if len(ctx.violations) < 20:
                ctx.violations.append(v)
        for k, h in r['known_hits'].items():
            if k in ctx.known_hits:
                ctx.known_hits[k]['count'] += h['count']
            else:
                ctx.known_hits[k] = h
        if 'worker_crash' in r['extra']:
            raise RuntimeError('worker crashed: ' + r['extra']['worker_crash'])
        if 'model_died' in r['extra']:
            from . import model
            raise model.ModelUnavailable(r['extra']['model_died'])
        for k, v in r['extra'].items():
            if isinstance(v, int):
                ctx.extra[k] = ctx.extra.get(k, 0) + v
        ctx.notes.extend(r['notes'])
        if ctx.model is not None:
            ctx.model.log.extend(r['log'][:max(0, ctx.model.keep - len(ctx.model.log))])
            ctx.model.calls += r['calls']
