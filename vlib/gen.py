"""Generators of valid basis dictionaries (DESIGN 2.5).  Everything derives from the rng passed in.

Main stream: linearly independent bases (no function twice in an element, no contraction inside the
span of the free primitives, no mixed fused shell).  Pathological shapes are separate, labelled streams.
"""
import copy
from fractions import Fraction

NOTATIONS = ['plain', 'exp_E', 'exp_e', 'lead_blank', 'short']


def fmt_num(rng, mant_digits, exp10, neg=False, notation=None):
    """A decimal string of the value  0.d1d2..dn * 10^exp10  in one of the store's notations (<= 15 digits)."""
    digs = ''.join(str(rng.randint(0, 9)) for _ in range(mant_digits - 1))
    digs = str(rng.randint(1, 9)) + digs  # leading digit non-zero -> value non-zero
    notation = notation or rng.choice(NOTATIONS)
    sign = '-' if neg else ''
    if notation == 'plain' or notation == 'lead_blank' or notation == 'short':
        # d.ddd * 10^(exp10-1) written positionally
        e = exp10 - 1
        if e >= 0:
            if e + 1 >= len(digs):
                s = digs + '0' * (e + 1 - len(digs)) + '.' + ('0' if notation != 'short' else '')
            else:
                s = digs[:e + 1] + '.' + digs[e + 1:]
        else:
            s = ('0.' if notation != 'short' else '.') + '0' * (-e - 1) + digs
        s = sign + s
        if notation == 'lead_blank':
            s = ' ' + s
        return s
    e = exp10 - 1
    ch = 'E' if notation == 'exp_E' else 'e'
    return '%s%s.%s%s%s%02d' % (sign, digs[0], digs[1:] or '0', ch, '+' if e >= 0 else '-', abs(e))


def renotate(rng, s):
    """The same value in another notation (used for shared exponents written differently)."""
    from decimal import Decimal
    d = Decimal(s.strip())
    c = rng.randrange(4)
    if c == 0:
        return s
    if c == 1:
        return ' ' + s.strip()
    if c == 2:
        # exact scientific notation (no rounding): d.ddddE+xx
        sign, digits, exp = d.as_tuple()
        ds = ''.join(str(x) for x in digits).lstrip('0') or '0'
        e = exp + len(ds) - 1
        return '%s%s.%sE%+03d' % ('-' if sign else '', ds[0], ds[1:] or '0', e)
    # append a zero to the mantissa
    t = s.strip()
    if 'e' in t.lower():
        i = t.lower().index('e')
        return t[:i] + '0' + t[i:]
    return t + '0'


def frac(s):
    from decimal import Decimal
    return Fraction(Decimal(s.strip()))


def rank(cols):
    """Rank of a list of columns of Fractions."""
    m = [list(c) for c in cols]
    r = 0
    nrow = len(m[0]) if m else 0
    for j in range(nrow):
        piv = None
        for i in range(r, len(m)):
            if m[i][j] != 0:
                piv = i
                break
        if piv is None:
            continue
        m[r], m[piv] = m[piv], m[r]
        for i in range(len(m)):
            if i != r and m[i][j] != 0:
                f = m[i][j] / m[r][j]
                m[i] = [a - f * b for a, b in zip(m[i], m[r])]
        r += 1
    return r


def gen_exponents(rng, n, hi=None):
    """n distinct exponents, decreasing, in assorted notations."""
    out = []
    vals = set()
    e10 = hi if hi is not None else rng.randint(1, 5)
    while len(out) < n:
        s = fmt_num(rng, rng.randint(2, 9), e10)
        v = frac(s)
        if v not in vals and v > 0:
            vals.add(v)
            out.append(s)
        if rng.random() < 0.6:
            e10 -= 1
    out.sort(key=lambda s: -frac(s))
    return out


def gen_coef(rng):
    return fmt_num(rng, rng.randint(2, 9), rng.randint(-3, 1), neg=rng.random() < 0.4)


ZERO_FORMS = ['0.0', '0.00000000', '0.0000000E+00', '0.000000', '-0.0', ' 0.0']


def gen_block(rng, l, nprim, ncontr, nfree, ftype, allow_unused=False):
    """One general-contraction shell: ncontr contracted columns + nfree free-primitive columns."""
    xs = gen_exponents(rng, nprim)
    cols = []
    for j in range(ncontr):
        # support: a window of at least two primitives including one non-free primitive
        lo = rng.randint(0, max(0, nprim - 2))
        hi = rng.randint(lo + 1, nprim - 1) if nprim > 1 else 0
        col = []
        for i in range(nprim):
            if lo <= i <= hi and (rng.random() < 0.85 or i in (lo, hi)):
                col.append(gen_coef(rng))
            else:
                col.append(rng.choice(ZERO_FORMS))
        cols.append(col)
    free_rows = sorted(rng.sample(range(nprim), min(nfree, nprim)))
    for r in free_rows:
        col = [rng.choice(ZERO_FORMS) for _ in range(nprim)]
        col[r] = rng.choice(['1.0', '1.00000000', '1.0000000E+00', gen_coef(rng)])
        cols.append(col)
    # the validator's rule: no primitive may be unused
    for i in range(0 if not allow_unused else nprim, nprim):
        if all(frac(col[i]) == 0 for col in cols):
            contracted = [c for c in cols[:ncontr]]
            if contracted and rng.random() < 0.7:
                rng.choice(contracted)[i] = gen_coef(rng)
            else:
                col = [rng.choice(ZERO_FORMS) for _ in range(nprim)]
                col[i] = rng.choice(['1.0', '1.00000000', gen_coef(rng)])
                cols.append(col)
    return {'function_type': ftype, 'region': '', 'angular_momentum': [l], 'exponents': xs, 'coefficients': cols}


def ftype_for(l, cart=False):
    if l <= 1:
        return 'gto'
    return 'gto_cartesian' if cart else 'gto_spherical'


def independent(shells_of_l):
    """True when the contracted functions of one momentum are linearly independent and no contraction with
    two or more primitives lies in the span of the free primitives (checked exactly)."""
    # collect the union of exponent values
    xs = []
    for sh in shells_of_l:
        for x in sh['exponents']:
            v = frac(x)
            if v not in xs:
                xs.append(v)
    cols = []
    free = set()
    for sh in shells_of_l:
        vs = [frac(x) for x in sh['exponents']]
        if len(set(vs)) != len(vs):
            return False
        for c in sh['coefficients']:
            col = [Fraction(0)] * len(xs)
            for v, cc in zip(vs, c):
                col[xs.index(v)] += frac(cc)
            nz = [i for i, a in enumerate(col) if a != 0]
            if not nz:
                return False
            if len(nz) == 1:
                if nz[0] in free:
                    return False
                free.add(nz[0])
            cols.append(col)
    if rank(cols) != len(cols):
        return False
    for col in cols:
        nz = [i for i, a in enumerate(col) if a != 0]
        if len(nz) > 1 and all(i in free for i in nz):
            return False
    return True


def gen_element_shells(rng, lmax=None, allow_fused=True, cart=False, shared=True, unused_prob=0.0):
    lmax = rng.choice([0, 1, 2, 2, 3, 4, 6, 9, 12]) if lmax is None else lmax
    shells = []
    fused_done = False
    for l in range(lmax + 1):
        if rng.random() < 0.12 and l not in (0, ) and l < lmax:
            continue  # momentum gap (allowed by the validator)
        for _attempt in range(20):
            mine = []
            style = rng.choice(['general', 'segmented', 'segmented', 'mixed'])
            ft = ftype_for(l, cart)
            if style == 'general':
                nprim = rng.randint(1, 8)
                ncontr = rng.randint(1, min(3, nprim)) if nprim > 1 else 0
                nfree = rng.randint(0, min(3, nprim))
                if ncontr + nfree == 0:
                    nfree = 1
                mine.append(gen_block(rng, l, nprim, ncontr, nfree, ft, rng.random() < unused_prob))
            else:
                nsh = rng.randint(1, 4)
                pool = []
                for k in range(nsh):
                    nprim = rng.randint(1, 6 if k == 0 else 3)
                    sh = gen_block(rng, l, nprim, 1 if nprim > 1 else 0, 0 if nprim > 1 else 1, ft)
                    if style == 'mixed' and nprim > 2 and rng.random() < 0.5:
                        sh = gen_block(rng, l, nprim, rng.randint(1, 2), rng.randint(0, 1), ft)
                    # share an exponent with an earlier shell, in another notation (6-311G style)
                    if shared and pool and rng.random() < 0.35:
                        donor = rng.choice(pool)
                        i = rng.randrange(len(sh['exponents']))
                        sh['exponents'][i] = renotate(rng, rng.choice(donor['exponents']))
                    pool.append(sh)
                    mine.append(sh)
            if independent(mine):
                shells.extend(mine)
                break
    if allow_fused and lmax >= 1 and rng.random() < 0.3:
        # an sp shell with its own exponents (both columns contracted, or both free)
        nprim = rng.randint(1, 4)
        xs = gen_exponents(rng, nprim, hi=rng.randint(-1, 1))
        if nprim == 1:
            cols = [['1.0'], ['1.0']]
        else:
            cols = [[gen_coef(rng) for _ in range(nprim)] for _ in range(2)]
        sp = {'function_type': 'gto', 'region': '', 'angular_momentum': [0, 1], 'exponents': xs, 'coefficients': cols}
        # must stay independent of the s and p shells
        ok = True
        for l, col in ((0, cols[0]), (1, cols[1])):
            probe = {'function_type': 'gto', 'region': '', 'angular_momentum': [l], 'exponents': xs, 'coefficients': [col]}
            if not independent([s for s in shells if s['angular_momentum'] == [l]] + [probe]):
                ok = False
        if ok:
            shells.insert(rng.randint(0, len(shells)), sp)
    if not shells:
        shells.append(gen_block(rng, 0, 2, 1, 0, 'gto'))
    return shells


def gen_ecp(rng, lmax=None, gaps=False):
    lmax = rng.randint(1, 4) if lmax is None else lmax
    ams = list(range(lmax + 1))
    if gaps and len(ams) > 2:
        ams.remove(rng.choice(ams[1:-1]))
    pots = []
    for l in ams:
        # mostly short potentials; sometimes one with nine to twelve terms (def2 iodine / xenon have ten)
        n = rng.randint(1, 4) if rng.random() < 0.85 else rng.randint(9, 12)
        pots.append({'ecp_type': 'scalar_ecp', 'angular_momentum': [l],
                     'r_exponents': [rng.choice([0, 1, 2]) for _ in range(n)],
                     'gaussian_exponents': [fmt_num(rng, rng.randint(2, 8), rng.randint(-1, 3)) for _ in range(n)],
                     'coefficients': [[gen_coef(rng) for _ in range(n)]]})
    # the library's own order: highest momentum first
    pots.insert(0, pots.pop())
    return pots, rng.choice([2, 10, 18, 28, 36, 46, 54, 60, 68, 78])


def whole_types(elements):
    t = set()
    for el in elements.values():
        for sh in el.get('electron_shells', []):
            t.add(sh['function_type'])
        for p in el.get('ecp_potentials', []):
            t.add(p['ecp_type'])
    return sorted(t)


def gen_basis(rng, nel=None, ecp_prob=0.25, ecp_only_prob=0.05, **kw):
    nel = nel or rng.randint(1, 3)
    zs = sorted(rng.sample(range(1, 119), nel))
    elements = {}
    for z in zs:
        el = {}
        r = rng.random()
        if r >= ecp_only_prob:
            el['electron_shells'] = gen_element_shells(rng, **kw)
        if r < ecp_only_prob or (z > 10 and rng.random() < ecp_prob):
            pots, ne = gen_ecp(rng)
            if ne < z:
                el['ecp_potentials'] = pots
                el['ecp_electrons'] = ne
            elif 'electron_shells' not in el:
                el['electron_shells'] = gen_element_shells(rng, **kw)
        el['references'] = [{'reference_description': 'generated', 'reference_keys': ['gen%d' % z]}]
        elements[str(z)] = el
    return {
        'molssi_bse_schema': {'schema_type': 'complete', 'schema_version': '0.1'},
        'revision_description': 'generated data', 'revision_date': '2026-01-01',
        'elements': elements, 'version': '1', 'function_types': whole_types(elements),
        'names': ['Gen-Basis'], 'tags': [], 'family': 'gen', 'description': 'generated basis', 'role': 'orbital',
        'auxiliaries': {}, 'name': 'Gen-Basis',
    }


# ---------------------------------------------------------------- labelled pathological streams
def patho_dup_function(rng):
    """the same contracted function in two shells (different notation)"""
    b = gen_basis(rng, nel=1, allow_fused=False)
    el = next(iter(b['elements'].values()))
    if 'electron_shells' not in el:
        return patho_dup_function(rng)
    sh = copy.deepcopy(rng.choice(el['electron_shells']))
    sh['coefficients'] = [sh['coefficients'][0]]
    sh['exponents'] = [renotate(rng, x) for x in sh['exponents']]
    el['electron_shells'].append(sh)
    return b


def patho_contraction_on_free(rng):
    """a two-primitive contraction supported only on free primitives"""
    b = gen_basis(rng, nel=1, allow_fused=False, lmax=1)
    el = next(iter(b['elements'].values()))
    el['electron_shells'] = [{'function_type': 'gto', 'region': '', 'angular_momentum': [0],
                              'exponents': ['10.0', '2.0', '0.5'],
                              'coefficients': [['0.3', '0.7', '0.0'], ['1.0', '0.0', '0.0'], ['0.0', '1.0', '0.0'],
                                               ['0.0', '0.0', '1.0']]}]
    b['function_types'] = whole_types(b['elements'])
    return b


def patho_mixed_fused(rng):
    """an sp shell with one free and one contracted column"""
    b = gen_basis(rng, nel=1, allow_fused=False, lmax=1)
    el = next(iter(b['elements'].values()))
    el.setdefault('electron_shells', []).append(
        {'function_type': 'gto', 'region': '', 'angular_momentum': [0, 1], 'exponents': ['0.71', '0.23'],
         'coefficients': [['1.0', '0.0'], ['0.4', '0.6']]})
    b['function_types'] = whole_types(b['elements'])
    return b


def patho_spd(rng):
    """an spd shell tagged gto_spherical (as STO-nG in the store)"""
    b = gen_basis(rng, nel=1, allow_fused=False, lmax=0)
    el = next(iter(b['elements'].values()))
    el.setdefault('electron_shells', []).append(
        {'function_type': 'gto_spherical', 'region': '', 'angular_momentum': [0, 1, 2], 'exponents': ['0.91', '0.33', '0.11'],
         'coefficients': [['0.1', '0.5', '0.6'], ['0.2', '0.4', '0.5'], ['0.3', '0.3', '0.7']]})
    b['function_types'] = whole_types(b['elements'])
    return b


def patho_spd_free_low(rng):
    """an spd shell whose s column is a free primitive (remove_free_primitives leaves a fused pd shell)"""
    b = gen_basis(rng, nel=1, allow_fused=False, lmax=0)
    el = next(iter(b['elements'].values()))
    el.setdefault('electron_shells', []).append(
        {'function_type': 'gto_spherical', 'region': '', 'angular_momentum': [0, 1, 2], 'exponents': ['10.0', '2.0', '0.5'],
         'coefficients': [['1.0', '0.0', '0.0'], ['0.3', '0.5', '0.2'], ['0.1', '0.2', '0.7']]})
    b['function_types'] = whole_types(b['elements'])
    return b


def patho_spd_free_high(rng):
    """an spd shell whose d column is a free primitive (remove_free_primitives leaves a fused sp shell, which carries no
    spherical / cartesian tag)"""
    b = gen_basis(rng, nel=1, allow_fused=False, lmax=0)
    el = next(iter(b['elements'].values()))
    el.setdefault('electron_shells', []).append(
        {'function_type': rng.choice(['gto_spherical', 'gto_cartesian']), 'region': '', 'angular_momentum': [0, 1, 2], 'exponents': ['10.0', '2.0', '0.5'],
         'coefficients': [['0.3', '0.5', '0.2'], ['0.1', '0.2', '0.7'], ['0.0', '0.0', '1.0']]})
    b['function_types'] = whole_types(b['elements'])
    return b


def patho_pd_fused(rng):
    """a fused shell that does not start at s (what remove_free_primitives leaves of an spd shell with a free s column)"""
    b = gen_basis(rng, nel=1, allow_fused=False, lmax=0)
    el = next(iter(b['elements'].values()))
    el.setdefault('electron_shells', []).append(
        {'function_type': 'gto_spherical', 'region': '', 'angular_momentum': [1, 2], 'exponents': ['10.0', '2.0', '0.5'],
         'coefficients': [['0.3', '0.5', '0.2'], ['0.1', '0.2', '0.7']]})
    b['function_types'] = whole_types(b['elements'])
    return b


def patho_equal_coefficients(rng):
    """a contraction whose non-zero coefficients are all equal, sharing its primitives with another contraction"""
    b = gen_basis(rng, nel=1, allow_fused=False, lmax=1)
    el = next(iter(b['elements'].values()))
    c = rng.choice(['0.5', '0.25', '1.0', '-0.3'])
    el['electron_shells'] = [{'function_type': 'gto', 'region': '', 'angular_momentum': [rng.choice([0, 1])],
                              'exponents': ['31.7', '8.2', '2.1', '0.6'],
                              'coefficients': [[c, c, '0.0', '0.0'], ['0.11', '0.37', '0.62', '0.0'], ['0.0', '0.0', '0.0', '1.0']]}]
    b['function_types'] = whole_types(b['elements'])
    return b


def patho_plain_then_fused_shared(rng):
    """a plain s shell followed by a fused sp shell that shares an exponent with it (the s and the p part are different functions)"""
    b = gen_basis(rng, nel=1, allow_fused=False, lmax=0)
    el = next(iter(b['elements'].values()))
    x = rng.choice(['3.25', '0.9'])
    el['electron_shells'] = [{'function_type': 'gto', 'region': '', 'angular_momentum': [0], 'exponents': ['19.5', x],
                              'coefficients': [['0.4', '0.7']]},
                             {'function_type': 'gto', 'region': '', 'angular_momentum': [0, 1], 'exponents': [renotate(rng, x), '0.27'],
                              'coefficients': [['-0.2', '1.1'], ['0.3', '0.8']]}]
    b['function_types'] = whole_types(b['elements'])
    return b


def patho_cancelling(rng):
    """a primitive whose coefficients over the contractions cancel exactly (cc-pV5Z Sc style) but are not zero"""
    b = gen_basis(rng, nel=1, allow_fused=False, lmax=1)
    el = next(iter(b['elements'].values()))
    el['electron_shells'] = [{'function_type': 'gto', 'region': '', 'angular_momentum': [0], 'exponents': ['41.0', '9.3', '2.2', '0.5'],
                              'coefficients': [['0.5', '0.2', '0.000002', '0.0'], ['-0.5', '0.1', '-0.000001', '0.3'],
                                               ['0.0', '0.7', '-0.000001', '0.9']]}]
    b['function_types'] = whole_types(b['elements'])
    return b


def patho_unsorted_fused(rng):
    """an sp shell whose exponents are not in decreasing order (SBKJC-VDZ Ce style)"""
    b = gen_basis(rng, nel=1, allow_fused=False, lmax=0)
    el = next(iter(b['elements'].values()))
    el.setdefault('electron_shells', []).append(
        {'function_type': 'gto', 'region': '', 'angular_momentum': [0, 1], 'exponents': ['0.31', '4.7', '1.2'],
         'coefficients': [['0.6', '0.1', '0.3'], ['0.2', '0.5', '0.4']]})
    b['function_types'] = whole_types(b['elements'])
    return b


def patho_respelled_shared(rng):
    """two shells of one momentum sharing a primitive spelled in two ways (6-311G Ga style: '401.0000' and '401.0')"""
    b = gen_basis(rng, nel=1, allow_fused=False, lmax=0)
    el = next(iter(b['elements'].values()))
    el['electron_shells'] = [{'function_type': 'gto', 'region': '', 'angular_momentum': [0], 'exponents': ['401.0000', '60.5', '12.25'],
                              'coefficients': [['0.02', '0.15', '0.9']]},
                             {'function_type': 'gto', 'region': '', 'angular_momentum': [0], 'exponents': ['401.0', '3.3'],
                              'coefficients': [['-0.01', '1.0']]}]
    b['function_types'] = whole_types(b['elements'])
    return b


def patho_p_only_primitive_in_sp(rng):
    """an sp shell with a primitive that contributes to p only (uncontract_spdf leaves it unused in the s part)"""
    b = gen_basis(rng, nel=1, allow_fused=False, lmax=0)
    el = next(iter(b['elements'].values()))
    el.setdefault('electron_shells', []).append(
        {'function_type': 'gto', 'region': '', 'angular_momentum': [0, 1], 'exponents': ['7.1', '1.9', '0.45'],
         'coefficients': [['0.3', '0.8', '0.0'], ['0.1', '0.4', '0.7']]})
    b['function_types'] = whole_types(b['elements'])
    return b


def patho_tiny_edge_coefficient(rng):
    """contractions whose first / last non-zero coefficient is tiny (cc-pVDZ-DK3 Ho style: 1e-17) - small, not zero"""
    b = gen_basis(rng, nel=1, allow_fused=False, lmax=1)
    el = next(iter(b['elements'].values()))
    el['electron_shells'] = [{'function_type': 'gto', 'region': '', 'angular_momentum': [0],
                              'exponents': ['5213.0', '781.4', '177.1', '49.52', '15.71', '5.3'],
                              'coefficients': [['1.5E-17', '0.0021', '0.0153', '0.0742', '0.2533', '3.1E-19'],
                                               ['0.0', '-2.2e-18', '-0.0034', '-0.0163', '-0.0801', '-1.0E-20'],
                                               ['0.0', '0.0', '0.0', '0.0', '0.0', '1.0']]}]
    b['function_types'] = whole_types(b['elements'])
    return b


def patho_fused_zero_member(rng):
    """an sp shell whose s member is all zero (a 'p-only' SP block): NOT valid for the validator, legal input for the
    re-contraction functions - the zero member is no function, the p member must stay a p function"""
    b = gen_basis(rng, nel=1, allow_fused=False, lmax=0)
    el = next(iter(b['elements'].values()))
    el.setdefault('electron_shells', []).append(
        {'function_type': 'gto', 'region': '', 'angular_momentum': [0, 1], 'exponents': ['7.1', '1.9', '0.45'],
         'coefficients': [['0.0', '0.0', '0.0'], ['0.1', '0.4', '0.7']]})
    b['function_types'] = whole_types(b['elements'])
    return b


def patho_block_general_shared_column(rng):
    """two generally contracted shells of one momentum on different exponents, each carrying its free primitive as a unit column
    that is string-identical in both (block-general contractions: the jgauss-* sets of the store)"""
    b = gen_basis(rng, nel=1, allow_fused=False, lmax=1)
    el = next(iter(b['elements'].values()))
    l = rng.choice([0, 1])
    unit = ['.0000000', '.0000000', '1.0000000']
    el['electron_shells'] = [{'function_type': 'gto', 'region': '', 'angular_momentum': [l], 'exponents': ['412.5', '62.1', '13.9'],
                              'coefficients': [['0.0191', '0.1343', '0.4743'], list(unit)]},
                             {'function_type': 'gto', 'region': '', 'angular_momentum': [l], 'exponents': ['5.27', '1.13', '0.31'],
                              'coefficients': [['-0.1102', '0.3915', '0.7421'], list(unit)]}]
    b['function_types'] = whole_types(b['elements'])
    return b


def patho_near_equal_exponents(rng):
    """two different primitives of one momentum whose exponents agree to nine or ten significant digits, used by different
    contractions (6ZaPa-NR chlorine: 2511.423070 and 2511.423068): they are two primitives, not one"""
    b = gen_basis(rng, nel=1, allow_fused=False, lmax=1)
    el = next(iter(b['elements'].values()))
    l = rng.choice([0, 1])
    a, c = rng.choice([('2511.423070', '2511.423068'), ('1053.265800', '1053.265795'), ('0.31415926535', '0.31415926536')])
    el['electron_shells'] = [{'function_type': 'gto', 'region': '', 'angular_momentum': [l], 'exponents': [a, '96.25', '7.5'],
                              'coefficients': [['0.0213', '0.3347', '0.7121']]},
                             {'function_type': 'gto', 'region': '', 'angular_momentum': [l], 'exponents': [c, '21.75', '1.125'],
                              'coefficients': [['-0.0107', '0.2919', '0.8034']]},
                             {'function_type': 'gto', 'region': '', 'angular_momentum': [l], 'exponents': ['0.0625'], 'coefficients': [['1.0']]}]
    b['function_types'] = whole_types(b['elements'])
    return b


def patho_uncontracted_block(rng):
    """a shell that is a block of uncontracted primitives written as a square coefficient matrix: one non-zero coefficient per
    column, coefficients that differ from column to column, primitives not in decreasing order, and (second form) the columns
    listed in another order than the primitives (the 2x2 form occurs in the jorge-6zp source)"""
    b = gen_basis(rng, nel=1, allow_fused=False, lmax=1)
    el = next(iter(b['elements'].values()))
    l = rng.choice([0, 1])
    z = '0.0'
    if rng.random() < 0.5:
        cs = [['0.7', z, z], [z, '0.9', z], [z, z, '1.1']]
    else:
        cs = [[z, z, '0.7'], ['0.9', z, z], [z, '1.1', z]]
    el['electron_shells'] = [{'function_type': 'gto', 'region': '', 'angular_momentum': [l], 'exponents': ['0.5', '12.0', '3.0'], 'coefficients': cs},
                             {'function_type': 'gto', 'region': '', 'angular_momentum': [l], 'exponents': ['55.5', '0.11'], 'coefficients': [['0.25', '0.85']]}]
    b['function_types'] = whole_types(b['elements'])
    return b


def patho_sp_zero_edges(rng):
    """an sp shell whose tightest and most diffuse primitives contribute to s only (what fusing an s and a p shell with different
    exponent sets gives); the element has no other p function, so the p primitives are exactly the inner three"""
    b = gen_basis(rng, nel=1, allow_fused=False, lmax=0)
    el = next(iter(b['elements'].values()))
    el['electron_shells'] = [{'function_type': 'gto', 'region': '', 'angular_momentum': [0], 'exponents': ['160.0', '24.0', '5.5'],
                              'coefficients': [['0.15', '0.55', '0.45']]},
                             {'function_type': 'gto', 'region': '', 'angular_momentum': [0, 1], 'exponents': ['11.0', '3.2', '0.9', '0.25', '0.08'],
                              'coefficients': [['-0.10', '0.20', '0.60', '0.40', '0.15'], ['0.0', '0.12', '0.45', '0.55', '0.0']]},
                             {'function_type': 'gto_spherical', 'region': '', 'angular_momentum': [2], 'exponents': ['0.8'], 'coefficients': [['1.0']]}]
    b['function_types'] = whole_types(b['elements'])
    return b


NOT_VALIDATOR_VALID = [patho_fused_zero_member]
PATHOLOGICAL = [patho_dup_function, patho_contraction_on_free, patho_mixed_fused, patho_spd, patho_spd_free_low, patho_spd_free_high, patho_pd_fused,
                patho_equal_coefficients, patho_plain_then_fused_shared, patho_cancelling, patho_unsorted_fused, patho_respelled_shared,
                patho_p_only_primitive_in_sp, patho_tiny_edge_coefficient,
                patho_block_general_shared_column, patho_near_equal_exponents,
                patho_uncontracted_block, patho_sp_zero_edges]
