"""The common check runner: build, prove, correspond, classify, write evidence."""
import collections
import fnmatch
import hashlib
import importlib
import json
import os
import random
import re
import sys
import time
import traceback

from . import paths, build, model

BASE_TRUSTED = [
    'Coq 8.16.1 kernel (coqc); vm_compute is used for finite sweeps and for the in-Coq cross-check of extraction; native_compute is not used',
    'no axiom is declared by the development (grep gate + Print Assumptions under every property theorem, recorded under coverage.theorems)',
    'translator /verif/translator (Python ast -> Gallina, fail-closed) for the tables in coq/Gen',
    'extraction: ExtrOcamlBasic + ExtrOcamlString only (bool/option/list/prod/sum/sumbool/unit -> OCaml natives, ascii -> char, string -> char list); Z, positive, N, nat stay extracted inductives; ocaml/driver.ml (25 lines of framing glue)',
    'correspondence harness /verif/vlib (generators, serialiser coq/Model/Wire.v <-> vlib/wire.py, canonicalisation rules of DESIGN 2.4)',
]


class Ctx:
    def __init__(self, prop, tier, seed):
        self.prop = prop
        self.tier = tier
        self.seed = seed
        self.rng = random.Random(seed)
        self.evaluations = 0
        self.distinct = set()
        self.samples = []
        self.dist = collections.Counter()
        self.disagreements = []
        self.violations = []
        self.known_hits = collections.OrderedDict()
        self.model = None
        self.boost = False      # the tie is broken: search harder
        self.notes = []
        self.rule = ''
        self.trusted = []
        self.assumptions = []
        self.extra = {}
        self.t0 = time.time()
        self.deadline = None

    # ---- budgets
    def budget(self, quick, thorough):
        if self.tier == 'thorough':
            return thorough
        return quick * 3 if self.boost else quick

    def thorough(self):
        return self.tier == 'thorough'

    # ---- accounting
    def case(self, key, nontrivial=True, kind=None):
        self.evaluations += 1
        if kind:
            self.dist[kind] += 1
        if nontrivial:
            h = hashlib.sha1(repr(key).encode('utf-8', 'replace')).digest()[:10]
            self.distinct.add(h)

    def sample(self, obj, limit=5):
        if len(self.samples) < limit:
            self.samples.append(_clip(obj))

    def note(self, msg):
        self.notes.append(msg)

    # ---- model vs implementation
    def compare(self, what, impl_res, model_res, inp, canon=None):
        """Both results are ('ok', v) / ('error', cls).  Records a disagreement and returns False when they differ."""
        a, b = _norm(impl_res), _norm(model_res)
        if canon and a[0] == 'ok' and b[0] == 'ok':
            a = ('ok', canon(a[1]))
            b = ('ok', canon(b[1]))
        if a == b:
            return True
        if len(self.disagreements) < 50:
            self.disagreements.append({'what': what, 'input': _clip(inp, 4000), 'implementation': _clip(a, 2000),
                                       'model': _clip(b, 2000)})
        else:
            self.extra['disagreements_not_listed'] = self.extra.get('disagreements_not_listed', 0) + 1
        return False

    def mcall(self, op, *args):
        if self.model is None:
            return None
        return self.model.call(op, *args)

    # ---- property oracle on the implementation
    def violation(self, site, fingerprint, what, replay):
        """The IMPLEMENTATION breaks the property text on a concrete input."""
        v = {'site': site, 'fingerprint': fingerprint, 'what': what, 'replay': replay}
        kf = match_known(self.prop, site, fingerprint)
        if kf is not None:
            key = kf['line']
            if key not in self.known_hits:
                self.known_hits[key] = {'entry': kf, 'count': 0, 'first': _clip(replay, 1500)}
            self.known_hits[key]['count'] += 1
            return
        if len(self.violations) < 20:
            self.violations.append(v)
        else:
            self.extra['violations_not_listed'] = self.extra.get('violations_not_listed', 0) + 1


def _norm(x):
    """tuples and lists are the same thing on the wire"""
    if isinstance(x, (list, tuple)):
        return [_norm(y) for y in x]
    if isinstance(x, dict):
        return {str(k): _norm(v) for k, v in x.items()}
    return x


def _clip(obj, n=1200):
    try:
        s = json.dumps(obj, default=str)
    except Exception:
        s = repr(obj)
    if len(s) <= n:
        try:
            return json.loads(s)
        except Exception:
            return s
    return s[:n] + '...(clipped)'


# ------------------------------------------------------------------ known findings
_KF_CACHE = None


def load_known():
    """KNOWN_FINDINGS.txt lines:
         known: property=C03 site=<site> fingerprint=<glob> :: <what fails>
         fixed: property=C19 <commit> <what failed>
       Only `known:` lines suppress anything.  Never written at run time."""
    global _KF_CACHE
    if _KF_CACHE is not None:
        return _KF_CACHE
    out = []
    path = os.path.join(paths.VERIF, 'KNOWN_FINDINGS.txt')
    if os.path.exists(path):
        with open(path, encoding='utf-8') as f:
            for line in f:
                line = line.rstrip('\n')
                if not line.startswith('known:'):
                    continue
                head, _, what = line[len('known:'):].partition('::')
                kv = dict(tok.split('=', 1) for tok in head.split() if '=' in tok)
                out.append({'property': kv.get('property'), 'site': kv.get('site'),
                            'fingerprint': kv.get('fingerprint', '*'), 'what': what.strip(), 'line': line})
    _KF_CACHE = out
    return out


def match_known(prop, site, fingerprint):
    for e in load_known():
        if e['property'] == prop and e['site'] == site and fnmatch.fnmatchcase(fingerprint, e['fingerprint']):
            return e
    return None


# ------------------------------------------------------------------ runner
def run_check(prop, tier, seed, replay=None):
    t_start = time.time()
    os.makedirs(paths.EVIDENCE, exist_ok=True)
    os.makedirs(paths.REPLAYS, exist_ok=True)
    ctx = Ctx(prop, tier, seed)
    broken = []       # reasons why the tie / proof no longer checks

    status = build.build()
    for g, msg in status.translate_errors.items():
        broken.append('translator: %s: %s' % (g, msg))
    if status.forbidden:
        broken.append('grep gate: forbidden construct in the development: ' + '; '.join(status.forbidden[:3]))
    thm = build.check_properties(prop)
    if not thm['ok']:
        err = _first_error(thm['output']) or _first_error(status.log) or thm['output'][-400:]
        if status.make_failed_files:
            # the property file fails because a file it depends on failed in the build: name that file and its error
            err = 'the build of %s failed: %s' % (', '.join(status.make_failed_files[:3]), _first_error(status.log) or err)
        broken.append('proof: coq/Properties/%s.v no longer checks: %s' % (prop, err))
    if tier == 'thorough' and thm['ok'] and os.environ.get('VERIF_NO_COQCHK') != '1':
        chk = build.coqchk(prop)
        ctx.extra['coqchk'] = {'ok': chk['ok'], 'axioms': chk['axioms'], 'unsafe': chk['unsafe'], 'wall_s': chk['wall'], 'summary': chk['summary']}
        if not chk['ok']:
            broken.append('proof: coqchk does not accept BSE.Properties.%s (rc %s): %s' % (prop, chk['rc'], chk['summary'][-300:]))
    if not status.model_ok:
        broken.append('model: the executable model could not be built/extracted: %s' %
                      (_first_error(status.log) or 'see coq/build.log'))
    else:
        try:
            ctx.model = model.Driver()
        except model.ModelUnavailable as e:
            broken.append('model: ' + str(e))
    ctx.boost = bool(broken)

    mod = importlib.import_module('vlib.props.' + prop.lower())
    crashed = None
    try:
        if replay:
            with open(replay) as f:
                rec = json.load(f)
            mod.replay(ctx, rec)
        else:
            _run_corpus(ctx, mod)
            mod.run(ctx)
    except model.ModelUnavailable as e:
        broken.append('model: ' + str(e))
    except Exception:
        crashed = traceback.format_exc()
        broken.append('harness crashed (treated as a broken tie): ' + crashed[-600:])

    # in-Coq cross-check of the extracted program
    cc = {'checked': 0, 'equal': 0}
    if ctx.model is not None:
        pairs = ctx.model.log
        ctx.model.close()
        n, eq, log = model.coq_crosscheck(pairs, 200 if tier == 'quick' else 400)
        cc = {'checked': n, 'equal': eq}
        if n and eq != n:
            broken.append('extraction cross-check: in-Coq vm_compute and the extracted program differ on %d of %d requests %s'
                          % (n - max(eq, 0), n, log[-300:]))
    if ctx.disagreements:
        broken.append('correspondence: model and implementation differ on %d input(s); first: %s' %
                      (len(ctx.disagreements) + ctx.extra.get('disagreements_not_listed', 0),
                       json.dumps(ctx.disagreements[0])[:600]))

    # ---- classify
    lines = []
    for key, hit in ctx.known_hits.items():
        lines.append('KNOWN-FINDING: property=%s %s (%d occurrence(s) this run)' % (prop, hit['entry']['what'], hit['count']))
    exit_code = 0
    nviol = 0
    for v in ctx.violations:
        nviol += 1
        h = hashlib.sha1(json.dumps([v['site'], v['fingerprint'], v['replay']], default=str, sort_keys=True)
                         .encode()).hexdigest()[:12]
        rp = os.path.join(paths.REPLAYS, '%s-%s.json' % (prop, h))
        with open(rp, 'w') as f:
            json.dump({'property': prop, 'kind': 'implementation-violates-property', 'site': v['site'],
                       'fingerprint': v['fingerprint'], 'what': v['what'], 'replay': v['replay'],
                       'seed': seed, 'tier': tier, 'broken_ties': broken}, f, indent=1, default=str)
        lines.append('VIOLATION property=%s replay=%s' % (prop, rp))
        exit_code = 1
    if broken and not ctx.violations:
        nviol += 1
        h = hashlib.sha1(json.dumps(broken).encode()).hexdigest()[:12]
        rp = os.path.join(paths.REPLAYS, '%s-tie-%s.json' % (prop, h))
        with open(rp, 'w') as f:
            json.dump({'property': prop, 'kind': 'no-longer-shown-to-hold',
                       'no_longer_checks': broken, 'disagreements': ctx.disagreements[:10],
                       'searched': {'evaluations': ctx.evaluations, 'distribution': dict(ctx.dist)},
                       'seed': seed, 'tier': tier}, f, indent=1, default=str)
        lines.append('VIOLATION property=%s replay=%s no-failing-input-found' % (prop, rp))
        exit_code = 1

    # ---- evidence
    theorems = [t for t in thm['theorems'] if t['kind'] == 'Theorem']
    examples = [t for t in thm['theorems'] if t['kind'] == 'Example']
    axioms = sorted({a for t in thm['theorems'] for a in (t['assumptions'] or [])})
    cov = {
        'obligations': len(theorems),
        'discharged': sum(1 for t in theorems if t['discharged']),
        'checker_cmd': 'cd /verif/coq && coq_makefile -f _CoqProject.full -o Makefile && make -k -j16 && ' +
                       thm['cmd'].split('&& ', 1)[-1] + '   (thorough also: coqchk -o -R . BSE BSE.Properties.%s)' % prop,
        'trusted_base': BASE_TRUSTED + ctx.trusted,
        'theorems': [{'name': t['name'], 'discharged': t['discharged'], 'assumptions': t['assumptions']} for t in theorems],
        'non_vacuity_examples': [t['name'] for t in examples if t['discharged']],
        'partial': [t['name'] for t in theorems if t['name'].endswith('_partial')],
        'refuted': [t['name'] for t in theorems if t['name'].endswith('_refuted')],
        'axioms_reported_by_Print_Assumptions': axioms,
        'evaluations': ctx.evaluations,
        'distinct_nontrivial': len(ctx.distinct),
        'rule': ctx.rule,
        'samples': ctx.samples or ['(no correspondence case was run)'],
        'input_distribution': dict(ctx.dist),
        'model_calls': ctx.model.calls if ctx.model else 0,
        'extraction_crosscheck': cc,
        'disagreements': len(ctx.disagreements) + ctx.extra.get('disagreements_not_listed', 0),
        'known_findings_seen': [{'what': h['entry']['what'], 'count': h['count'], 'first': h['first']}
                                for h in ctx.known_hits.values()],
        'broken_ties': broken,
        'build': status.summary(),
        'notes': ctx.notes,
        'exhaustive': False,
    }
    cov.update({k: v for k, v in ctx.extra.items()})
    if ctx.extra.get('coqchk'):
        cov['coqchk'] = ctx.extra['coqchk']
    ev = {'property_id': prop, 'tier': tier, 'seed': seed, 'level': 'proof', 'coverage': cov,
          'assumptions': ctx.assumptions, 'wall_s': round(time.time() - t_start, 2), 'violations': nviol}
    tmp = os.path.join(paths.EVIDENCE, prop + '.json.tmp')
    with open(tmp, 'w') as f:
        json.dump(ev, f, indent=1, default=str)
    os.replace(tmp, os.path.join(paths.EVIDENCE, prop + '.json'))

    for l in lines:
        print(l)
    print('%s %s: theorems %d/%d, evaluations %d (distinct non-trivial %d), disagreements %d, violations %d, known findings %d, %.1fs'
          % (prop, tier, cov['discharged'], cov['obligations'], ctx.evaluations, len(ctx.distinct),
             cov['disagreements'], nviol, len(ctx.known_hits), time.time() - t_start))
    for b in broken:
        print('  broken: ' + b[:500])
    sys.stdout.flush()
    return exit_code


def _first_error(log):
    m = re.search(r'(File "[^"]+", line \d+, characters [^\n]*\n(?:.*\n){0,12}?.*Error[^\n]*(?:\n[^\n]*){0,6})', log)
    if m:
        return re.sub(r'\s+', ' ', m.group(1))[:700]
    return None


def _run_corpus(ctx, mod):
    d = os.path.join(paths.CORPUS, ctx.prop)
    if not os.path.isdir(d) or not hasattr(mod, 'replay'):
        return
    for fn in sorted(os.listdir(d)):
        if fn.endswith('.json'):
            with open(os.path.join(d, fn)) as f:
                rec = json.load(f)
            mod.replay(ctx, rec)
            ctx.dist['corpus'] += 1
