"""Data directories: reading the chain of a store basis as raw JSON, and generating synthetic directories."""
import copy
import json
import os
import shutil
import tempfile

from . import gen
from .store import DATA


def load_json(path):
    """parsed JSON, or None for a zero-length / unparsable file (the model maps that to 'contains JSON errors')"""
    try:
        with open(path, encoding='utf-8') as f:
            return json.load(f)
    except (json.JSONDecodeError, UnicodeDecodeError):
        return None


def chain_files(data_dir, table_relpath):
    """raw JSON of every file the table -> element -> component chain of one table file names (plus its metadata file)"""
    out = {}

    def add(rel):
        p = os.path.join(data_dir, rel)
        if rel not in out and os.path.isfile(p):
            out[rel] = load_json(p)
        return out.get(rel)

    t = add(table_relpath)
    d, fn = os.path.split(table_relpath)
    add(os.path.join(d, fn.split('.')[0] + '.metadata.json'))
    if isinstance(t, dict):
        for ef in t.get('elements', {}).values():
            e = add(ef) if isinstance(ef, str) else None
            if isinstance(e, dict):
                for ed in e.get('elements', {}).values():
                    for c in ed.get('components', []) if isinstance(ed, dict) else []:
                        if isinstance(c, str):
                            add(c)
    return out


def whole_dir(data_dir):
    """every JSON file of a (small) directory, relative path -> parsed JSON"""
    out = {}
    for root, _, files in os.walk(data_dir):
        for f in files:
            if f.endswith('.json'):
                p = os.path.join(root, f)
                out[os.path.relpath(p, data_dir)] = load_json(p)
    return out


# ------------------------------------------------------------------ synthetic directories
def _schema(t):
    return {'schema_type': t, 'schema_version': '0.1'}


class GenDir:
    """A generated data directory on disk (self.path) with the description of what was put in it."""

    def __init__(self, rng, inconsistent=None, nbasis=None, with_index=True, repeat_shells=False):
        self.path = tempfile.mkdtemp(prefix='vdir')
        self.rng = rng
        self.files = {}
        self.bases = []          # (display names, basename, subdir, versions)
        self.used = {}           # element file / component file -> the elements some table takes from it
        self.inconsistent = inconsistent
        self.repeat_shells = repeat_shells     # a component may repeat a shell another component of the element already has
        self.refs = {'molssi_bse_schema': _schema('references')}
        self.token = str(rng.randrange(10**6))
        nbasis = nbasis or rng.randint(1, 3)
        fams = ['famA', 'famb'][:rng.randint(1, 2)]
        for i in range(nbasis):
            self._make_basis(i, rng.choice(fams).lower())
        if inconsistent:
            self._break(inconsistent)
        self.files['REFERENCES.json'] = self.refs
        for rel, js in self.files.items():
            p = os.path.join(self.path, rel)
            os.makedirs(os.path.dirname(p), exist_ok=True)
            with open(p, 'w', encoding='utf-8') as f:
                json.dump(js, f, indent=2, ensure_ascii=False)

    def _component(self, rel, zs, kind, refkeys):
        rng = self.rng
        els = {}
        for z in zs:
            el = {'references': list(refkeys)}
            if kind in ('orbital', 'both'):
                # lmax >= 2 so that every version of a basis has the same function types (gto + gto_spherical)
                el['electron_shells'] = gen.gen_element_shells(rng, lmax=rng.randint(2, 3), allow_fused=False)
            if kind in ('ecp', 'both'):
                pots, ne = gen.gen_ecp(rng)
                if getattr(self, '_spinorbit', False) and len(pots) >= 2:
                    # a spin-orbit potential after the scalar ones (the element then carries two ECP types)
                    so = copy.deepcopy(pots[1])
                    so['ecp_type'] = 'spinorbit_ecp'
                    pots.append(so)
                el['ecp_potentials'] = pots
                el['ecp_electrons'] = ne
            els[str(z)] = el
        self.files[rel] = {'molssi_bse_schema': _schema('component'), 'description': 'component ' + rel,
                           'data_source': 'generated', 'elements': els}
        for k in refkeys:
            # the same key names in every generated directory, with contents that differ from directory to directory; the
            # shape of an entry (entry type and which optional fields it has: address, number, editors, note, ...) is that of a
            # randomly chosen entry of the shipped reference file, one of each rare shape first
            self.refs.setdefault(k, self._reference(k))

    _shapes = None

    def _reference(self, k):
        if GenDir._shapes is None:
            real = load_json(os.path.join(DATA, 'REFERENCES.json'))
            ents = [v for kk, v in sorted(real.items()) if kk != 'molssi_bse_schema']
            rare = [e for e in ents if set(e) & {'address', 'number', 'editors', 'school', 'institution', 'note', 'type'}]
            GenDir._shapes = (rare, ents)
        rare, ents = GenDir._shapes
        shape = self.rng.choice(rare) if self.rng.random() < 0.5 else self.rng.choice(ents)
        out = {}
        for f, v in shape.items():
            if f == '_entry_type':
                out[f] = v
            elif f in ('authors', 'editors'):
                out[f] = ['Doe, J.', 'Roe, R.', 'Dir%s, D.' % self.token][:max(1, min(3, len(v)))]
            elif f == 'year':
                out[f] = '2020'
            elif f in ('volume', 'number'):
                out[f] = str(1 + int(self.token) % 90)
            elif f == 'pages':
                out[f] = '1-2'
            elif f == 'doi':
                out[f] = '10.%s/%s_x%%y' % (self.token, k)       # DOIs contain characters that are special to LaTeX (_ %% & #)
            elif f == 'isbn':
                out[f] = v
            else:
                out[f] = '%s of %s in directory %s' % (f.capitalize(), k, self.token)
        return out

    def _make_basis(self, i, family):
        rng = self.rng
        base = rng.choice(['Gen-%d', 'gen%d*', 'G%d/x', 'GEN %d(p)']) % i
        from basis_set_exchange import misc
        fbase = misc.basis_name_to_filename(base)
        sub = rng.choice(['', 'sub%d' % i])
        if i > 0 and rng.random() < 0.3:
            # a differently named basis whose files have the same base name as those of basis 0, in another sub-directory
            fbase, sub = self.bases[0]['basename'], 'twin%d' % i
        zs = sorted(rng.sample(range(1, 60), rng.randint(1, 5)))
        nver = rng.randint(1, 3)
        # version labels with one and two digits (the index orders them as numbers; file names carry them between dots)
        versions = [str(v) for v in (range(nver) if rng.random() < 0.5 else sorted(rng.sample([0, 1, 2, 9, 10, 11, 12], nver)))]
        names = [base] + (['%s-alias' % base] if rng.random() < 0.4 else [])
        # the metadata file lives beside the table files
        self.files[os.path.join(sub, '%s.metadata.json' % fbase) if sub else '%s.metadata.json' % fbase] = {
            'molssi_bse_schema': _schema('metadata'), 'names': names, 'tags': [], 'family': family,
            'description': 'generated basis %d' % i, 'role': rng.choice(['orbital', 'orbital', 'jkfit']),
            'auxiliaries': {} if i == 0 or rng.random() < 0.5 else {'jkfit': 'Gen-0' if rng.random() < 0.5 else ['Gen-0', base]}}
        # the table may use only some of the elements its element files define (as 56 tables of the store do); what the
        # unused elements carry (polarisation functions, ECPs) is no business of the table
        tzs = list(zs) if len(zs) < 2 or rng.random() < 0.6 else sorted(rng.sample(zs, rng.randint(1, len(zs) - 1)))
        has_pol = rng.random() < 0.6
        has_ecp = rng.random() < 0.4 and any(z > 10 for z in zs)
        ecp_zs = [z for z in zs if z > 10 and rng.random() < 0.7] or [z for z in zs if z > 10][:1]
        self._spinorbit = has_ecp and rng.random() < 0.35        # the same for every version: the index refuses differing function types
        for ver in versions:
            comp_sub = sub or 'comps'
            # components: one shared orbital component for all elements + optionally extra polarisation and ECP components
            c_main = '%s/%s_main.%s.json' % (comp_sub, fbase, ver)
            self._component(c_main, zs, 'orbital', ['ref%dmain' % i] if rng.random() < 0.9 else [])
            extra = {}
            if has_pol:
                zs2 = [z for z in zs if rng.random() < 0.6] or zs[:1]
                c_pol = '%s/%s_pol.%s.json' % (comp_sub, fbase, ver)
                self._component(c_pol, zs2, 'orbital', ['ref%dpol' % i, 'ref%dmain' % i])
                for z in zs2:
                    extra.setdefault(z, []).append(c_pol)
                    if self.repeat_shells and rng.random() < 0.4:
                        main_shells = self.files[c_main]['elements'][str(z)]['electron_shells']
                        pol_shells = self.files[c_pol]['elements'][str(z)]['electron_shells']
                        pol_shells.insert(rng.randint(0, len(pol_shells)), copy.deepcopy(rng.choice(main_shells)))
            if has_ecp:
                zs3 = ecp_zs
                if zs3:
                    c_ecp = '%s/%s_ecp.%s.json' % (comp_sub, fbase, ver)
                    self._component(c_ecp, zs3, 'ecp', ['ref%decp' % i])
                    for z in zs3:
                        extra.setdefault(z, []).append(c_ecp)
            efile = '%s/%s.%s.element.json' % (comp_sub, fbase, ver)
            self.used[efile] = {str(z) for z in tzs}
            for cfile in [c_main] + [c for cs in extra.values() for c in cs]:
                self.used.setdefault(cfile, set()).update(str(z) for z in tzs)
            self.files[efile] = {'molssi_bse_schema': _schema('element'), 'name': base, 'description': 'element file',
                                 'elements': {str(z): {'components': [c_main] + extra.get(z, [])} for z in zs}}
            order = list(tzs)
            if rng.random() < 0.3:
                rng.shuffle(order)      # the table's own element order is what get_basis must keep
            tfile = os.path.join(sub, '%s.%s.table.json' % (fbase, ver)) if sub else '%s.%s.table.json' % (fbase, ver)
            self.files[tfile] = {'molssi_bse_schema': _schema('table'), 'revision_description': 'rev %s of %s' % (ver, base),
                                 'revision_date': '2020-01-%02d' % (int(ver) + 1),
                                 'elements': {str(z): efile for z in order}}
        self.bases.append({'names': names, 'basename': fbase, 'sub': sub, 'versions': versions, 'elements': tzs})

    def _break(self, how):
        rng = self.rng
        comps = [k for k, v in self.files.items() if isinstance(v, dict) and v.get('molssi_bse_schema', {}).get('schema_type') == 'component']
        efiles = [k for k, v in self.files.items() if isinstance(v, dict) and v.get('molssi_bse_schema', {}).get('schema_type') == 'element']
        if how == 'missing-element-in-component':
            c = rng.choice([k for k in comps if set(self.files[k]['elements']) & self.used.get(k, set())] or comps)
            z = rng.choice(sorted(set(self.files[c]['elements']) & self.used.get(c, set())) or list(self.files[c]['elements']))
            del self.files[c]['elements'][z]
            self.broken = (c, z)
        elif how == 'two-ecps':
            ef = rng.choice(efiles)
            z = rng.choice(sorted(set(self.files[ef]['elements']) & self.used.get(ef, set())) or list(self.files[ef]['elements']))
            for n in (1, 2):
                c = '%s.extra_ecp%d.json' % (ef[:-len('.element.json')], n)
                self._component(c, [int(z)], 'ecp', ['refx'])
                self.files[ef]['elements'][z]['components'].append(c)
            self.broken = (ef, z)
        elif how == 'missing-file':
            c = rng.choice([k for k in comps if set(self.files[k]['elements']) & self.used.get(k, set())] or comps)
            del self.files[c]
            self.broken = (c, None)
        elif how == 'element-missing-in-element-file':
            ef = rng.choice(efiles)
            z = rng.choice(sorted(set(self.files[ef]['elements']) & self.used.get(ef, set())) or list(self.files[ef]['elements']))
            del self.files[ef]['elements'][z]
            self.broken = (ef, z)

    def cleanup(self):
        shutil.rmtree(self.path, ignore_errors=True)
