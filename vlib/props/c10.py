"""C10 - library functions never modify the caller's data."""
import copy
import inspect
import random

from .. import impl, store, gen

MUTABLE = (dict, list, set, bytearray)


def ids_of(obj, acc=None):
    """ids of all mutable nodes reachable from obj"""
    acc = set() if acc is None else acc
    if isinstance(obj, MUTABLE):
        if id(obj) in acc:
            return acc
        acc.add(id(obj))
        if isinstance(obj, dict):
            for v in obj.values():
                ids_of(v, acc)
        else:
            for v in obj:
                ids_of(v, acc)
    elif isinstance(obj, tuple):
        for v in obj:
            ids_of(v, acc)
    return acc


# functions whose documented contract is to work in place (not part of what the property forbids)
IN_PLACE_BY_CONTRACT = {'manip.create_element_data', 'manip.remove_primitive'}
# documented shallow sharing: merge_element_data returns a shallow copy of dest (clause B exempt, clause A not)
SHARING_BY_CONTRACT = {'manip.merge_element_data'}


def call_and_check(ctx, site, f, args, kwargs, label, check_b=True):
    """clause A: arguments deeply equal to their snapshot; clause B: result shares no mutable node with an argument"""
    snap = copy.deepcopy((args, kwargs))
    arg_ids = ids_of((args, kwargs))
    r = impl.call(f, *args, **kwargs)
    ctx.case((site, label), True, site)
    replay = {'kind': 'call', 'site': site, 'label': label}
    if (args, kwargs) != snap:
        which = [i for i, (a, b) in enumerate(zip(args, snap[0])) if a != b] + [k for k in kwargs if kwargs[k] != snap[1][k]]
        ctx.violation(site, 'argument-changed', '%s changed its argument(s) %s (input %s)' % (site, which, label), replay)
        return r
    if check_b and r[0] == 'ok' and site not in SHARING_BY_CONTRACT:
        shared = ids_of(r[1]) & arg_ids
        if shared:
            ctx.violation(site, 'shared-with-argument', '%s returns a value sharing %d mutable object(s) with its argument (input %s)'
                          % (site, len(shared), label), replay)
    return r


def exercise(ctx, b, label, rng):
    """every public function of the property's list on one basis dictionary"""
    import basis_set_exchange as bse
    from basis_set_exchange import manip, sort, writers, convert, curate, validator, refconverters, references, api
    b0 = copy.deepcopy(b)
    # ---- manip / sort, default use_copy
    ops = [('manip.prune_basis', manip.prune_basis, ()), ('manip.uncontract_spdf', manip.uncontract_spdf, (rng.choice([0, 1]), )),
           ('manip.uncontract_general', manip.uncontract_general, ()), ('manip.uncontract_segmented', manip.uncontract_segmented, ()),
           ('manip.make_general', manip.make_general, ()), ('manip.make_general', manip.make_general, (True, )),
           ('manip.remove_free_primitives', manip.remove_free_primitives, ()), ('manip.optimize_general', manip.optimize_general, ()),
           ('manip.geometric_augmentation', manip.geometric_augmentation, (1, )),
           ('manip.autoaux_basis', manip.autoaux_basis, ()), ('manip.autoabs_basis', manip.autoabs_basis, ()),
           ('sort.sort_basis', sort.sort_basis, ()), ('sort.sort_basis_dict', sort.sort_basis_dict, ())]
    if b.get('name', '').lower().startswith('aug-'):
        ops.append(('manip.truhlar_calendarize', manip.truhlar_calendarize, ('jun', )))
    for site, f, extra in ops:
        call_and_check(ctx, site, f, (b, ) + extra, {}, label)
    shells = [sh for el in b['elements'].values() for sh in el.get('electron_shells', [])]
    pots = [p for el in b['elements'].values() for p in el.get('ecp_potentials', [])]
    if shells:
        sh = rng.choice(shells)
        call_and_check(ctx, 'manip.prune_shell', manip.prune_shell, (sh, ), {}, label)
        call_and_check(ctx, 'sort.sort_shell', sort.sort_shell, (sh, ), {}, label)
        el = rng.choice([e for e in b['elements'].values() if 'electron_shells' in e])
        call_and_check(ctx, 'sort.sort_shells', sort.sort_shells, (el['electron_shells'], ), {}, label)
        srcs = [e for e in b['elements'].values()][:2]
        call_and_check(ctx, 'manip.merge_element_data', manip.merge_element_data, ({'electron_shells': list(el['electron_shells'][:1]), 'references': []}, srcs), {}, label)
        call_and_check(ctx, 'manip.merge_element_data', manip.merge_element_data, (None, srcs), {}, label)
    if pots:
        el = rng.choice([e for e in b['elements'].values() if 'ecp_potentials' in e])
        call_and_check(ctx, 'sort.sort_potentials', sort.sort_potentials, (el['ecp_potentials'], ), {}, label)
    # ---- writers, all formats
    fmts = list(writers.write._writer_map)
    if not ctx.thorough():
        fmts = rng.sample(fmts, 8) + ['veloxchem', 'json', 'bsedebug']
    for fmt in fmts:
        call_and_check(ctx, 'writers.' + fmt, writers.write_formatted_basis_str, (b, fmt), {}, label, check_b=False)
        call_and_check(ctx, 'writers.' + fmt + '+header', writers.write_formatted_basis_str, (b, fmt, 'a header\nline'), {}, label, check_b=False)
    # ---- compare / diff / validate
    other = copy.deepcopy(b)
    call_and_check(ctx, 'curate.compare_basis', curate.compare_basis, (b, other), {}, label, check_b=False)
    z = next(iter(b['elements']))
    call_and_check(ctx, 'curate.compare_elements', curate.compare_elements, (b['elements'][z], other['elements'][z]), {}, label, check_b=False)
    if shells:
        els = [e for e in b['elements'].values() if 'electron_shells' in e]
        call_and_check(ctx, 'curate.electron_shells_are_equal', curate.electron_shells_are_equal,
                       (els[0]['electron_shells'], copy.deepcopy(els[0]['electron_shells'])), {}, label, check_b=False)
        call_and_check(ctx, 'curate.compare_electron_shells', curate.compare_electron_shells, (shells[0], shells[-1]), {}, label, check_b=False)
        call_and_check(ctx, 'curate.diff_basis_dict', curate.diff_basis_dict, ([b], [other]), {}, label)
        from basis_set_exchange.curate import diff as diffmod
        call_and_check(ctx, 'curate.subtract_electron_shells', diffmod.subtract_electron_shells,
                       (els[0]['electron_shells'], els[-1]['electron_shells']), {}, label)
    if pots:
        els = [e for e in b['elements'].values() if 'ecp_potentials' in e]
        call_and_check(ctx, 'curate.ecp_pots_are_equal', curate.ecp_pots_are_equal, (els[0]['ecp_potentials'], copy.deepcopy(els[0]['ecp_potentials'])), {}, label, check_b=False)
    call_and_check(ctx, 'validator.validate_data', validator.validate_data, ('complete', b), {}, label, check_b=False)
    from basis_set_exchange.curate import compare_report
    for ug in (False, True):
        call_and_check(ctx, 'curate.basis_comparison_report', compare_report.basis_comparison_report, (b, other), {'uncontract_general': ug}, label, check_b=False)
    if b != b0:
        ctx.violation('harness', 'accumulated', 'the basis changed over the sequence of calls although each call looked clean', {'kind': 'call', 'label': label})


def work_store(ctx, item):
    name, version = item
    import basis_set_exchange as bse
    from basis_set_exchange import convert, refconverters
    r = store.get_basis(name, version)
    if r[0] != 'ok':
        ctx.dist['store-unreadable'] += 1
        return
    rng = random.Random('%s/%s/%d' % (name, version, ctx.seed // 1000))
    b = store.restrict(r[1], rng, 200 if ctx.thorough() else 3)
    label = '%s/%s' % (name, version)
    exercise(ctx, b, label, rng)
    # references entry point
    refs = impl.call(bse.get_references, name, version=version, elements=list(b['elements']))
    if refs[0] == 'ok':
        for fmt in ('bib', 'txt', 'ris', 'endnote', 'json'):
            call_and_check(ctx, 'refconverters.convert_references', refconverters.convert_references, (refs[1], fmt), {}, label, check_b=False)
    # retrieval calls: their arguments (element lists, names) stay as they are
    sel = [int(z) for z in list(b['elements'])[:2]]
    sel_mixed = [sel[0], '', str(sel[-1]), '']        # empty entries are ignored by the library, not removed from the caller's list
    for site, f, args, kw in (('api.get_basis', bse.get_basis, (name, ), {'elements': sel_mixed, 'version': version, 'uncontract_general': True}),
                              ('api.get_references', bse.get_references, (name, ), {'elements': sel_mixed, 'version': version}),
                              ('api.filter_basis_sets', bse.filter_basis_sets, (), {'elements': sel_mixed, 'family': None})):
        call_and_check(ctx, site, f, args, kw, label, check_b=False)
    # the metadata returned by filter_basis_sets is private to the caller: editing it must not show up later
    m1 = impl.call(bse.filter_basis_sets, elements=sel)
    if m1[0] == 'ok' and m1[1]:
        k = next(iter(m1[1]))
        m1[1][k]['versions'].clear()
        m2 = impl.call(bse.get_metadata)
        if m2[0] == 'ok' and not m2[1][k]['versions']:
            ctx.violation('api.filter_basis_sets', 'shared-metadata', 'editing the result of filter_basis_sets changes later get_metadata results', {'kind': 'call', 'label': label})
    # convert: string in, string out (nothing to share), argument strings are immutable; exercised for completeness
    txt = impl.call(bse.get_basis, name, elements=sel, version=version, fmt='nwchem')
    if txt[0] == 'ok':
        call_and_check(ctx, 'convert.convert_formatted_basis_str', convert.convert_formatted_basis_str, (txt[1], 'nwchem', 'gaussian94'), {}, label, check_b=False)
    ctx.sample({'store': label, 'functions': 'manip.*, sort.*, writers (all/8 formats), curate.compare_*/diff_*, validate_data, convert_references, retrieval calls'})


def work_generated(ctx, seed):
    rng = random.Random(seed)
    b = gen.gen_basis(rng, ecp_prob=0.5) if seed % 4 else rng.choice(gen.PATHOLOGICAL)(rng)
    exercise(ctx, b, 'gen:%d' % seed, rng)
    # what a reader returns / a hand-made dictionary: only the keys the writers need (no role, name, family, ...)
    from basis_set_exchange import writers
    bare = {k: copy.deepcopy(v) for k, v in b.items() if k in ('molssi_bse_schema', 'elements', 'function_types', 'names', 'description')}
    for el in bare['elements'].values():
        el.pop('references', None)
    fmts = list(writers.write._writer_map)
    for fmt in (fmts if ctx.thorough() else rng.sample(fmts, 10) + ['turbomole']):
        call_and_check(ctx, 'writers.' + fmt + '[bare]', writers.write_formatted_basis_str, (bare, fmt), {}, 'gen:%d:bare' % seed, check_b=False)


def run(ctx):
    ctx.rule = ('every public function the property lists (manip.*, sort.*, write_formatted_basis_str for the sampled/all formats with and '
                'without header, curate.compare_*/diff_*, validate_data, convert_references, convert, get_basis/get_references/'
                'filter_basis_sets arguments) called with default use_copy on store and generated dictionaries: deep snapshot before, == '
                'after (clause A), id()-disjointness of mutable nodes between result and arguments (clause B); documented in-place '
                'builders (create_element_data, remove_primitive) and the documented shallow sharing of merge_element_data are exempt. '
                'A case = (function, input)')
    ctx.trusted.append('translator/gen_effects.py (conservative taint pass producing the copy-discipline summaries the theorems are about); its faithfulness to Python aliasing is not proved')
    md = store.metadata()
    if ctx.thorough():
        pairs = store.all_pairs(md)
    else:
        pairs = [(n, md[n]['latest_version']) for n in store.sample_names(ctx.rng, 24, md)]
    store.parallel(ctx, work_store, pairs)
    store.parallel(ctx, work_generated, [ctx.seed * 97 + i for i in range(ctx.budget(40, 2000))])


def replay(ctx, rec):
    r = rec.get('replay', rec)
    lab = r.get('label', '')
    if lab.startswith('gen:'):
        work_generated(ctx, int(lab[4:]))
    elif '/' in lab:
        n, v = lab.rsplit('/', 1)
        work_store(ctx, (n, v))
