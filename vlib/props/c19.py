"""C19 - comparison and difference tools agree with exact equality of the data."""
import copy
import random
from decimal import Decimal
from fractions import Fraction

from .. import impl, store, gen, oracle


def with_cidx(b):
    """elements of a basis with every shell annotated with the contraction order sort_shell chooses (float key: an input)"""
    from basis_set_exchange import sort
    out = {}
    for z, el in b['elements'].items():
        e = dict(el)
        if 'electron_shells' in el:
            shs = []
            for sh in el['electron_shells']:
                s = dict(sh)
                if len(sh['angular_momentum']) == 1:
                    rs = sort._spatial_extent(sh)
                    s['cidx'] = sorted(range(len(rs)), key=rs.__getitem__)
                else:
                    s['cidx'] = list(range(len(sh['coefficients'])))
                shs.append(s)
            e['electron_shells'] = shs
        out[z] = e
    return out


def scale_num(s, factor):
    """the decimal string of value(s) * factor, exactly"""
    d = Decimal(s.strip()) * Decimal(factor)
    return format(d, 'f') if abs(d.as_tuple().exponent) < 40 else str(d)


# ---- perturbations: name -> (function(b, rng) -> bool applied, expected equal?)
def p_reorder(b, rng):
    for el in b['elements'].values():
        shs = el.get('electron_shells', [])
        rng.shuffle(shs)
        for sh in shs:
            n = len(sh['exponents'])
            perm = list(range(n))
            rng.shuffle(perm)
            sh['exponents'] = [sh['exponents'][i] for i in perm]
            sh['coefficients'] = [[c[i] for i in perm] for c in sh['coefficients']]
        if 'ecp_potentials' in el:
            rng.shuffle(el['ecp_potentials'])
    b['elements'] = dict(sorted(b['elements'].items(), key=lambda kv: rng.random()))
    return True


def p_reorder_contractions(b, rng):
    """only the contractions of the generally contracted shells in another order (primitives and shells stay where they are)"""
    done = False
    for el in b['elements'].values():
        for sh in el.get('electron_shells', []):
            if len(sh['angular_momentum']) == 1 and len(sh['coefficients']) >= 2:
                sh['coefficients'] = sh['coefficients'][1:] + sh['coefficients'][:1] if rng.random() < 0.5 else sh['coefficients'][::-1]
                done = True
    return done


def p_zero_to_nonzero(b, rng):
    """a zero coefficient becomes non-zero (an exact zero has no relative neighbourhood: nothing but zero is close to it)"""
    cands = [(col, i) for el in b['elements'].values() for sh in el.get('electron_shells', []) for col in sh['coefficients']
             for i, c in enumerate(col) if Decimal(c.strip()) == 0]
    if not cands:
        return False
    col, i = rng.choice(cands)
    col[i] = rng.choice(['0.25', '1.0E-12', '-3.5'])
    return True


def p_nonzero_to_zero(b, rng):
    """a non-zero coefficient of a contraction with several becomes zero"""
    cands = [(col, i) for el in b['elements'].values() for sh in el.get('electron_shells', []) for col in sh['coefficients']
             for i, c in enumerate(col) if Decimal(c.strip()) != 0 and sum(1 for x in col if Decimal(x.strip()) != 0) >= 2]
    if not cands:
        return False
    col, i = rng.choice(cands)
    col[i] = '0.0'
    return True


def p_renotate(b, rng):
    for el in b['elements'].values():
        for sh in el.get('electron_shells', []):
            sh['exponents'] = [gen.renotate(rng, x) for x in sh['exponents']]
            sh['coefficients'] = [[gen.renotate(rng, x) for x in c] for c in sh['coefficients']]
        for p in el.get('ecp_potentials', []):
            p['gaussian_exponents'] = [gen.renotate(rng, x) for x in p['gaussian_exponents']]
            p['coefficients'] = [[gen.renotate(rng, x) for x in c] for c in p['coefficients']]
    return True


def _pick_shell(b, rng):
    s = [sh for el in b['elements'].values() for sh in el.get('electron_shells', [])]
    return rng.choice(s) if s else None


def p_sign_flip(b, rng):
    sh = _pick_shell(b, rng)
    if sh is None:
        return False
    col = rng.choice(sh['coefficients'])
    idx = [i for i, c in enumerate(col) if Decimal(c.strip()) != 0]
    if not idx:
        return False
    i = rng.choice(idx)
    c = col[i].strip()
    col[i] = c[1:] if c.startswith('-') else '-' + c.lstrip('+')
    return True


def p_perturb(b, rng, factor):
    sh = _pick_shell(b, rng)
    if sh is None:
        return False
    if rng.random() < 0.5:
        i = rng.randrange(len(sh['exponents']))
        sh['exponents'][i] = scale_num(sh['exponents'][i], factor)
    else:
        col = rng.choice(sh['coefficients'])
        idx = [i for i, c in enumerate(col) if Decimal(c.strip()) != 0]
        if not idx:
            return False
        i = rng.choice(idx)
        col[i] = scale_num(col[i], factor)
    return True


def p_drop_primitive(b, rng, which):
    """a shell with its most diffuse ('last') or tightest ('first') primitive removed - every contraction keeps a non-zero coefficient"""
    cands = []
    for el in b['elements'].values():
        for sh in el.get('electron_shells', []):
            xs = [Decimal(x.strip()) for x in sh['exponents']]
            if len(xs) < 2:
                continue
            k = xs.index(min(xs) if which == 'last' else max(xs))
            if all(any(Decimal(c.strip()) != 0 for i, c in enumerate(col) if i != k) for col in sh['coefficients']):
                cands.append((sh, k))
    if not cands:
        return False
    sh, k = rng.choice(cands)
    del sh['exponents'][k]
    for col in sh['coefficients']:
        del col[k]
    return True


def p_perturb_contraction(b, rng, first):
    """one coefficient of the first / last contraction of a shell that has several"""
    shs = [sh for el in b['elements'].values() for sh in el.get('electron_shells', []) if len(sh['coefficients']) >= 2]
    rng.shuffle(shs)
    for sh in shs:
        col = sh['coefficients'][0 if first else -1]
        idx = [i for i, c in enumerate(col) if Decimal(c.strip()) != 0]
        if idx:
            i = rng.choice(idx)
            col[i] = scale_num(col[i], '1.001')
            return True
    return False


def p_drop_shell(b, rng):
    els = [el for el in b['elements'].values() if len(el.get('electron_shells', [])) >= 2]
    if not els:
        return False
    shs = rng.choice(els)['electron_shells']
    shs.pop(rng.randrange(len(shs)))
    return True


def p_dup_shell(b, rng):
    els = [el for el in b['elements'].values() if len(el.get('electron_shells', [])) >= 2]
    if not els:
        return False
    shs = rng.choice(els)['electron_shells']
    i, j = rng.sample(range(len(shs)), 2)
    shs[i] = copy.deepcopy(shs[j])       # same length, one shell twice and one missing
    return True


def p_am_change(b, rng):
    sh = _pick_shell(b, rng)
    if sh is None or len(sh['angular_momentum']) != 1:
        return False
    sh['angular_momentum'] = [sh['angular_momentum'][0] + 1]
    return True


def p_drop_element(b, rng):
    if len(b['elements']) < 2:
        return False
    del b['elements'][rng.choice(list(b['elements']))]
    return True


def p_ecp_coef(b, rng):
    ps = [p for el in b['elements'].values() for p in el.get('ecp_potentials', [])]
    if not ps:
        return False
    p = rng.choice(ps)
    c = rng.choice(p['coefficients'])
    i = rng.randrange(len(c))
    c[i] = scale_num(c[i], '1.5') if Decimal(c[i].strip()) != 0 else '0.25'
    return True


def _two_term_pots(b):
    return [p for el in b['elements'].values() for p in el.get('ecp_potentials', []) if len(p['r_exponents']) >= 2]


def p_ecp_swap_coefficients(b, rng):
    """the same numbers attached to other terms: the coefficients of two terms exchanged"""
    ps = [p for p in _two_term_pots(b) if len({Decimal(c.strip()) for c in p['coefficients'][0]}) >= 2]
    if not ps:
        return False
    c = rng.choice(ps)['coefficients'][0]
    i, j = next((i, j) for i in range(len(c)) for j in range(len(c)) if Decimal(c[i].strip()) != Decimal(c[j].strip()))
    c[i], c[j] = c[j], c[i]
    return True


def p_ecp_swap_gexp(b, rng):
    """the gaussian exponents of two terms exchanged (coefficients and r powers stay)"""
    ps = []
    for p in _two_term_pots(b):
        g, c, r = p['gaussian_exponents'], p['coefficients'][0], p['r_exponents']
        for i in range(len(g)):
            for j in range(i + 1, len(g)):
                if Decimal(g[i].strip()) != Decimal(g[j].strip()) and (Decimal(c[i].strip()) != Decimal(c[j].strip()) or r[i] != r[j]):
                    ps.append((g, i, j))
    if not ps:
        return False
    g, i, j = rng.choice(ps)
    g[i], g[j] = g[j], g[i]
    return True


def p_ecp_rexp(b, rng):
    ps = [p for el in b['elements'].values() for p in el.get('ecp_potentials', [])]
    if not ps:
        return False
    p = rng.choice(ps)
    p['r_exponents'][rng.randrange(len(p['r_exponents']))] += 1
    return True


def p_ecp_electrons(b, rng):
    els = [el for el in b['elements'].values() if 'ecp_electrons' in el]
    if not els:
        return False
    rng.choice(els)['ecp_electrons'] += 2
    return True


def p_ecp_drop(b, rng):
    els = [el for el in b['elements'].values() if 'ecp_potentials' in el and 'electron_shells' in el]
    if not els:
        return False
    el = rng.choice(els)
    del el['ecp_potentials']
    del el['ecp_electrons']
    return True


TOL = Fraction(1, 10**6)
PERTURBATIONS = [
    ('reorder', p_reorder, True, True), ('renotate', p_renotate, True, True), ('reorder-contractions', p_reorder_contractions, True, True),
    ('zero-to-nonzero', p_zero_to_nonzero, False, False), ('nonzero-to-zero', p_nonzero_to_zero, False, False),
    ('sign-flip', p_sign_flip, False, False),
    ('perturb-above-tol', lambda b, r: p_perturb(b, r, '1.00001'), False, False),
    ('perturb-below-tol', lambda b, r: p_perturb(b, r, '1.0000001'), False, True),
    ('drop-shell', p_drop_shell, False, False), ('duplicate-shell', p_dup_shell, False, False),
    ('drop-most-diffuse-primitive', lambda b, r: p_drop_primitive(b, r, 'last'), False, False),
    ('drop-tightest-primitive', lambda b, r: p_drop_primitive(b, r, 'first'), False, False),
    ('perturb-first-contraction', lambda b, r: p_perturb_contraction(b, r, True), False, False),
    ('perturb-last-contraction', lambda b, r: p_perturb_contraction(b, r, False), False, False),
    ('am-change', p_am_change, False, False), ('drop-element', p_drop_element, False, False),
    ('ecp-coefficient', p_ecp_coef, False, False), ('ecp-r-exponent', p_ecp_rexp, False, False),
    ('ecp-electrons', p_ecp_electrons, False, False), ('ecp-dropped', p_ecp_drop, False, False),
    ('ecp-swap-coefficients', p_ecp_swap_coefficients, False, False), ('ecp-swap-gaussian-exponents', p_ecp_swap_gexp, False, False),
]


def compare_pair(ctx, a, b, label, pname, want0, wanttol):
    from basis_set_exchange import curate
    for tol, tn, td, want in ((0.0, 0, 1, want0), (1e-6, 1, 10**6, wanttol)):
        r = impl.call(curate.compare_basis, copy.deepcopy(a), copy.deepcopy(b), rel_tol=tol)
        ctx.case((label, pname, tol), pname != 'identity', 'compare:' + pname)
        replay = {'kind': 'compare', 'label': label, 'perturbation': pname, 'rel_tol': tol,
                  'a': a if len(str(a)) < 12000 else None, 'b': b if len(str(b)) < 12000 else None}
        if ctx.model is not None and len(str(a)) < 400000:
            try:
                m = ctx.model.call('compare_basis', tn, td, False, False, False, with_cidx(a), with_cidx(b))
                ctx.compare('compare_basis', r, m, replay)
            except (ValueError, KeyError):
                ctx.dist['model-skipped'] += 1
        if r != ('ok', want):
            ctx.violation('curate.compare_basis', '%s:tol=%s' % (pname, 'zero' if tol == 0.0 else 'nonzero'),
                          'compare_basis after %s with rel_tol=%s answers %s, expected %s' % (pname, tol, r, want), replay)


def report_pair(ctx, a, b, label, pname, want):
    """the report-style comparison (curate/compare_report.py: basis_comparison_report, which compare_basis_files /
    compare_basis_sets / compare_basis_against_file and the bsecurate commands return): it compares the canonically sorted
    shells position by position at zero tolerance, so its verdict must be True for the same data (also re-notated) and False
    after every change that compare_basis must see (any changed value, sign, count, momentum, element, ECP term)"""
    import contextlib
    import io
    from basis_set_exchange.curate import compare_report
    for ug in (False, True):
        with contextlib.redirect_stdout(io.StringIO()):
            r = impl.call(compare_report.basis_comparison_report, copy.deepcopy(a), copy.deepcopy(b), ug)
        ctx.case((label, pname, 'report', ug), pname != 'identity', 'report:' + pname)
        if r != ('ok', want):
            ctx.violation('curate.basis_comparison_report', pname + (':uncontract_general' if ug else ''),
                          'basis_comparison_report(uncontract_general=%s) after %s answers %s, expected %s' % (ug, pname, r, want),
                          {'kind': 'compare', 'label': label, 'perturbation': pname, 'report': True,
                           'a': a if len(str(a)) < 12000 else None, 'b': b if len(str(b)) < 12000 else None})


def pairs_for(ctx, base, label, rng):
    from basis_set_exchange import curate
    compare_pair(ctx, base, copy.deepcopy(base), label, 'identity', True, True)
    report_pair(ctx, base, copy.deepcopy(base), label, 'identity', True)
    for pname, f, want0, wanttol in PERTURBATIONS:
        b = copy.deepcopy(base)
        if not f(b, rng):
            ctx.dist['perturbation-not-applicable'] += 1
            continue
        compare_pair(ctx, base, b, label, pname, want0, wanttol)
        if pname not in ('reorder', 'reorder-contractions'):
            report_pair(ctx, base, b, label, pname, want0)
        # the verdict may not depend on which side carries the change
        compare_pair(ctx, b, base, label, pname + ':swapped', want0, wanttol)
        if pname in ('sign-flip', 'drop-shell'):
            # the finer-grained entry points on one element
            z = next((z for z in base['elements'] if z in b['elements'] and base['elements'][z] != b['elements'][z]), None)
            if z is not None:
                r = impl.call(curate.compare_elements, base['elements'][z], b['elements'][z])
                ctx.case((label, pname, 'elements'), True, 'compare_elements:' + pname)
                if r != ('ok', False):
                    ctx.violation('curate.compare_elements', pname, 'compare_elements after %s answers %s' % (pname, r),
                                  {'kind': 'compare', 'label': label, 'perturbation': pname})
    # shells that pair up within the tolerance, but not with the first candidate each: A holds x and x(1 + 1.8e-6), B holds
    # x(1 + 0.9e-6) and x(1 - 0.8e-6); the pairing A1-B2, A2-B1 is within 1e-6 everywhere, A2-B2 is not
    els = [z for z, el in base['elements'].items() if 'electron_shells' in el]
    if els:
        z = rng.choice(els)
        a, b = copy.deepcopy(base), copy.deepcopy(base)
        x = rng.choice(['0.0371', '2.5', '118.25'])

        def unit(f):
            return {'function_type': 'gto', 'region': '', 'angular_momentum': [0], 'exponents': [scale_num(x, f)], 'coefficients': [['1.0']]}
        a['elements'][z]['electron_shells'] += [unit('1'), unit('1.0000018')]
        b['elements'][z]['electron_shells'] += [unit('1.0000009'), unit('0.9999992')]
        compare_pair(ctx, a, b, label, 'pairing-within-tolerance', False, True)
        compare_pair(ctx, b, a, label, 'pairing-within-tolerance:swapped', False, True)
    # diff: (base + extra shells) - base = the extra shells
    left = copy.deepcopy(base)
    extra = {}
    for z, el in left['elements'].items():
        if 'electron_shells' in el and rng.random() < 0.7:
            sh = gen.gen_block(rng, rng.randint(0, 3), 2, 1, 0, 'gto')
            sh['function_type'] = gen.ftype_for(sh['angular_momentum'][0])
            el['electron_shells'].insert(rng.randint(0, len(el['electron_shells'])), sh)
            extra[z] = [sh]
    renot = copy.deepcopy(base)
    p_renotate(renot, rng)
    p_reorder(renot, rng)
    r = impl.call(curate.diff_basis_dict, [left, copy.deepcopy(base)], [renot])
    ctx.case((label, 'diff'), bool(extra), 'diff')
    replay = {'kind': 'diff', 'label': label}
    if ctx.model is not None and len(str(left)) < 300000:
        def shells_only(bb):
            return {z: ({'electron_shells': el['electron_shells']} if 'electron_shells' in el else {}) for z, el in with_cidx(bb).items()}
        m = ctx.model.call('diff_basis_dict', [shells_only(left), shells_only(base)], [shells_only(renot)])
        got = r
        if r[0] == 'ok':
            got = ('ok', [{z: [dict(s) for s in el['electron_shells']] for z, el in d['elements'].items()} for d in r[1]])
        if m[0] == 'ok':
            m = ('ok', [{z: [{k: v for k, v in s.items()} for s in shs] for z, shs in d.items() if shs is not None} for d in m[1]])
        ctx.compare('diff_basis_dict', got, m, replay)
    if r[0] != 'ok':
        ctx.violation('curate.diff_basis_dict', 'raises:' + r[1], 'diff_basis_dict raises %s' % r[1], replay)
    else:
        got = {z: el['electron_shells'] for z, el in r[1][0]['elements'].items()}
        if got != extra or r[1][1]['elements'] != {}:
            ctx.violation('curate.diff_basis_dict', 'result', 'diff is not precisely the left shells that no right operand contains', replay)


def diff_many(ctx, base, label, rng):
    """diff with several right operands: each holds a part of the shells of the base, together all of them"""
    from basis_set_exchange import curate
    left = copy.deepcopy(base)
    extra = {}
    for z, el in left['elements'].items():
        if 'electron_shells' in el and rng.random() < 0.5:
            sh = gen.gen_block(rng, rng.randint(0, 3), 2, 1, 0, 'gto')
            sh['function_type'] = gen.ftype_for(sh['angular_momentum'][0])
            el['electron_shells'].insert(rng.randint(0, len(el['electron_shells'])), sh)
            extra[z] = [sh]
    nright = rng.randint(2, 3)
    rights = [copy.deepcopy(base) for _ in range(nright)]
    for z, el in base['elements'].items():
        if 'electron_shells' not in el:
            continue
        owner = [rng.randrange(nright) for _ in el['electron_shells']]
        for k, rb in enumerate(rights):
            keep = [copy.deepcopy(sh) for sh, o in zip(el['electron_shells'], owner) if o == k]
            if keep:
                rb['elements'][z]['electron_shells'] = keep
            elif rng.random() < 0.5:
                del rb['elements'][z]
            else:
                rb['elements'][z]['electron_shells'] = []
    for rb in rights:
        p_renotate(rb, rng)
    r = impl.call(curate.diff_basis_dict, [left], rights)
    ctx.case((label, 'diff-many'), True, 'diff:%d-right-operands' % nright)
    replay = {'kind': 'diff-many', 'label': label, 'left': left if len(str(left)) < 12000 else None,
              'rights': rights if len(str(rights)) < 24000 else None}
    if ctx.model is not None and len(str(left)) < 300000:
        def shells_only(bb):
            return {z: ({'electron_shells': el['electron_shells']} if 'electron_shells' in el else {}) for z, el in with_cidx(bb).items()}
        m = ctx.model.call('diff_basis_dict', [shells_only(left)], [shells_only(rb) for rb in rights])
        got = r
        if r[0] == 'ok':
            got = ('ok', [{z: [dict(s) for s in el['electron_shells']] for z, el in d['elements'].items()} for d in r[1]])
        if m[0] == 'ok':
            m = ('ok', [{z: [{k: v for k, v in s.items()} for s in shs] for z, shs in d.items() if shs is not None} for d in m[1]])
        ctx.compare('diff_basis_dict', got, m, replay)
    if r[0] != 'ok':
        ctx.violation('curate.diff_basis_dict', 'raises:' + r[1], 'diff_basis_dict with %d right operands raises %s' % (nright, r[1]), replay)
    else:
        got = {z: el['electron_shells'] for z, el in r[1][0]['elements'].items()}
        if got != extra:
            ctx.violation('curate.diff_basis_dict', 'result:many-right', 'with %d right operands the diff is not precisely the left shells that no right operand contains '
                          '(elements with a remainder: %s, expected %s)' % (nright, sorted(got), sorted(extra)), replay)


def work_store(ctx, item):
    name, version = item
    r = store.get_basis(name, version)
    if r[0] != 'ok':
        ctx.dist['store-unreadable'] += 1
        return
    rng = random.Random('%s/%s/%d' % (name, version, ctx.seed // 1000))
    b = store.restrict(r[1], rng, 200 if ctx.thorough() else 3)
    pairs_for(ctx, b, '%s/%s' % (name, version), rng)
    diff_many(ctx, b, '%s/%s' % (name, version), rng)
    ctx.sample({'store': '%s/%s' % (name, version), 'perturbations': [p[0] for p in PERTURBATIONS]})


def work_generated(ctx, seed):
    rng = random.Random(seed)
    b = gen.gen_basis(rng, ecp_prob=0.5)
    pairs_for(ctx, b, 'gen:%d' % seed, rng)
    diff_many(ctx, b, 'gen:%d' % seed, rng)


def run(ctx):
    ctx.rule = ('pairs (basis, perturbed basis) over store and generated dictionaries: reorderings of elements/shells/primitives and '
                're-notations of every number (must compare equal at zero tolerance), sign flips, single-value perturbations a factor '
                '1.00001 (above) and 1.0000001 (below the tolerance 1e-6), dropped / duplicated shells, changed momentum, dropped element, '
                'changed ECP coefficient / r-exponent / electron count, dropped ECP (must differ); compare_basis with and without '
                'tolerance vs the extracted model and vs the verdict known by construction; diff_basis_dict of (basis + inserted '
                'shells) - (re-notated, reordered basis) must be exactly the inserted shells. Non-trivial = a perturbed pair')
    ctx.trusted.append('the contraction order chosen by sort_shell inside compare_electron_shells (float key _spatial_extent) is an input to the model')
    md = store.metadata()
    if ctx.thorough():
        pairs = store.all_pairs(md)
    else:
        pairs = [(n, md[n]['latest_version']) for n in store.sample_names(ctx.rng, 45, md)]
    store.parallel(ctx, work_store, pairs)
    store.parallel(ctx, work_generated, [ctx.seed * 401 + i for i in range(ctx.budget(120, 6000))])


def replay(ctx, rec):
    r = rec.get('replay', rec)
    if r.get('a') is not None and r.get('b') is not None:
        from basis_set_exchange import curate
        got = impl.call(curate.compare_basis, r['a'], r['b'], rel_tol=r.get('rel_tol', 0.0))
        ctx.case(('replay', ), True, 'replay')
        want = [p for p in PERTURBATIONS if p[0] == r.get('perturbation')]
        if want and got != ('ok', want[0][2] if r.get('rel_tol', 0.0) == 0.0 else want[0][3]):
            ctx.violation('curate.compare_basis', 'replay', 'replayed pair still compares wrongly: %s' % (got, ), r)
