"""C16 - the command line prints what the Python API returns."""
import io
import os
import random
import sys
import tempfile

from .. import impl, store, paths


def run_cli(argv):
    """(('ok', stdout text) | ('error', class), exit code) of `bse <argv>` run in-process"""
    from basis_set_exchange.cli import bse_cli
    old_argv, old_out, old_err = sys.argv, sys.stdout, sys.stderr
    sys.argv = ['bse'] + list(argv)
    buf = io.StringIO()
    buf.close = lambda: None          # the CLI closes its output file
    sys.stdout, sys.stderr = buf, io.StringIO()
    try:
        try:
            bse_cli.run_bse_cli()
            return ('ok', buf.getvalue())
        except SystemExit as e:
            return ('error', 'SystemExit:%s' % e.code)
        except Exception as e:  # noqa
            return ('error', impl.err_class(e))
    finally:
        sys.argv, sys.stdout, sys.stderr = old_argv, old_out, old_err


FLAGS = [('--unc-gen', 'uncontract_general'), ('--unc-spdf', 'uncontract_spdf'), ('--unc-seg', 'uncontract_segmented'),
         ('--rm-free', 'remove_free_primitives'), ('--opt-gen', 'optimize_general'), ('--make-gen', 'make_general')]


def expect(ctx, argv, want, site, fp, replay, out_file=None):
    got = run_cli(argv)
    if out_file is not None and got[0] == 'ok':
        with open(out_file, encoding='utf-8') as f:
            got = ('ok', f.read())
    ctx.case(tuple(argv), len(argv) > 3, site)
    if want[0] == 'ok':
        if got != ('ok', want[1] + '\n'):
            ctx.violation('cli.' + site, fp, 'bse %s prints something else than the API returns (+ newline)' % ' '.join(argv), replay)
    else:
        if got[0] == 'ok' and got[1].strip():
            ctx.violation('cli.' + site, fp + ':error', 'bse %s prints output although the API call raises %s' % (' '.join(argv), want[1]), replay)


def work(ctx, item):
    name, version = item
    bse = impl.bse()
    from basis_set_exchange import api, writers, refconverters
    md = store.metadata()
    e = md[name]
    rng = random.Random('%s/%s/%d' % (name, version, ctx.seed // 1000))
    disp = e['display_name']
    zs = sorted(int(z) for z in e['versions'][version]['elements'])
    fmts = list(writers.get_writer_formats())
    for _ in range(ctx.budget(4, 14)):
        fmt = rng.choice(fmts)
        argv = ['get-basis', rng.choice([disp, disp.lower(), disp.upper()]), rng.choice([fmt, fmt.upper()])]
        kw = {'fmt': fmt}
        for opt, param in FLAGS:
            if rng.random() < 0.25:
                argv.append(opt)
                kw[param] = True
        if rng.random() < 0.6:
            sel = sorted(rng.sample(zs, rng.randint(1, min(4, len(zs)))))
            s = ','.join(str(z) for z in sel)
            argv += ['--elements', s]
            kw['elements'] = s
        if rng.random() < 0.5:
            argv += ['--version', version]
            kw['version'] = version
        elif version != e['latest_version']:
            continue
        if rng.random() < 0.3:
            argv.append('--noheader')
            kw['header'] = False
        if rng.random() < 0.15:
            n = rng.randint(1, 2)
            argv += ['--aug-diffuse', str(n)]
            kw['augment_diffuse'] = n
        if rng.random() < 0.1:
            n = 1
            argv += ['--aug-steep', str(n)]
            kw['augment_steep'] = n
        if rng.random() < 0.08 and e['role'] == 'orbital':
            n = rng.choice([1, 2])
            argv += ['--get-aux', str(n)]
            kw['get_aux'] = n
        want, printed = impl.call_printed(bse.get_basis, disp, **kw)
        want_file = want
        if want[0] == 'ok' and printed and isinstance(want[1], str):
            # what the API call itself prints while it runs (e.g. "No electron shells for 42" from the auxiliary-basis
            # generators) is part of both runs: the command line shows it in front of the returned text (with -o the
            # file holds the returned text only)
            want = ('ok', printed + want[1])
        replay = {'kind': 'cli', 'argv': argv}
        if rng.random() < 0.2:
            want = want_file
            fd, path = tempfile.mkstemp(prefix='vcli', suffix='.out')
            os.close(fd)
            try:
                expect(ctx, ['-o', path] + argv, want, 'get-basis', 'get-basis:-o', replay, out_file=path)
            finally:
                os.unlink(path)
        else:
            expect(ctx, argv, want, 'get-basis', 'get-basis', replay)
        ctx.sample({'argv': argv, 'api': 'get_basis(%r, %s)' % (disp, kw)})
    # get-refs
    for reffmt in rng.sample(list(refconverters.get_reference_formats()), 2):
        argv = ['get-refs', disp, reffmt]
        kw = {'fmt': reffmt}
        if rng.random() < 0.6:
            sel = sorted(rng.sample(zs, rng.randint(1, min(3, len(zs)))))
            argv += ['--elements', ','.join(map(str, sel))]
            kw['elements'] = ','.join(map(str, sel))
        if rng.random() < 0.5:
            argv += ['--version', version]
            kw['version'] = version
        elif version != e['latest_version']:
            continue
        expect(ctx, argv, impl.call(bse.get_references, disp, **kw), 'get-refs', 'get-refs', {'kind': 'cli', 'argv': argv})
    # notes, family, role lookups
    expect(ctx, ['get-notes', disp], impl.call(bse.get_basis_notes, disp), 'get-notes', 'get-notes', {'kind': 'cli', 'argv': ['get-notes', disp]})
    expect(ctx, ['get-family', disp.upper()], impl.call(bse.get_basis_family, disp), 'get-family', 'get-family', {'kind': 'cli', 'argv': ['get-family', disp]})
    expect(ctx, ['get-family-notes', e['family'].upper()], impl.call(bse.get_family_notes, e['family']), 'get-family-notes', 'get-family-notes',
           {'kind': 'cli', 'argv': ['get-family-notes', e['family']]})
    for role in e['auxiliaries']:
        w = impl.call(bse.lookup_basis_by_role, disp, role)
        want = ('ok', '\n'.join(w[1])) if w[0] == 'ok' else w
        expect(ctx, ['lookup-by-role', disp, role.upper()], want, 'lookup-by-role', 'lookup-by-role', {'kind': 'cli', 'argv': ['lookup-by-role', disp, role]})
    w = impl.call(lambda: '\n'.join(md[name]['versions'].keys()))
    expect(ctx, ['get-versions', disp, '-n'], w, 'get-versions', 'get-versions', {'kind': 'cli', 'argv': ['get-versions', disp, '-n']})
    # get-info: a report about the index entry of this name (the typography is the CLI's own; what it reports is the entry)
    got = run_cli(['get-info', disp])
    ctx.case(('get-info', disp), True, 'get-info')
    ent = md[name]
    if got[0] != 'ok':
        ctx.violation('cli.get-info', 'raises', 'bse get-info %s fails (%s) although the index has the entry' % (disp, got[1]), {'kind': 'cli', 'argv': ['get-info', disp]})
    else:
        for needle in [ent['display_name'], ent['description'], ent['role'], ent['family'], ent['latest_version'], ','.join(ent['function_types'])] + list(ent['versions']):
            if needle not in got[1]:
                ctx.violation('cli.get-info', 'content', 'bse get-info %s does not report %r of the index entry' % (disp, needle), {'kind': 'cli', 'argv': ['get-info', disp]})
                break


def listings(ctx):
    bse = impl.bse()
    md = store.metadata()
    rng = ctx.rng
    fams = sorted({v['family'] for v in md.values()})
    # substrings with the characters the index keys escape ('*', '/'), capitals, parentheses: on their own, every run
    for sub in ('31G*', 'G**', '(pt/sf', 'pV', 'DEF2', '+g', 'z/'):
        w = impl.call(bse.filter_basis_sets, substr=sub)
        want = ('ok', '\n'.join(v['display_name'] for v in w[1].values())) if w[0] == 'ok' else w
        opt = rng.choice(['-s', '--substr'])
        expect(ctx, ['list-basis-sets', '-n', opt, sub], want, 'list-basis-sets', 'list-basis-sets:substr', {'kind': 'cli', 'argv': ['list-basis-sets', '-n', opt, sub]})
    for _ in range(ctx.budget(12, 200)):
        argv = ['list-basis-sets', '-n']
        kw = {}
        if rng.random() < 0.5:
            f = rng.choice(fams)
            argv += [rng.choice(['-f', '--family']), rng.choice([f, f.upper()])]
            kw['family'] = f
        if rng.random() < 0.4:
            r = rng.choice(['orbital', 'jkfit', 'rifit'])
            argv += [rng.choice(['-r', '--role']), r]
            kw['role'] = r
        if rng.random() < 0.5:
            s = rng.choice(['def2', 'pV', '31G*', 'aug', 'ZZZ'])
            argv += [rng.choice(['-s', '--substr']), s]
            kw['substr'] = s
        if rng.random() < 0.4:
            el = rng.choice(['H,C', '1-10', 'Kr', '57-71'])
            argv += [rng.choice(['-e', '--elements']), el]
            kw['elements'] = el
        w = impl.call(bse.filter_basis_sets, **kw)
        want = ('ok', '\n'.join(v['display_name'] for v in w[1].values())) if w[0] == 'ok' else w
        expect(ctx, argv, want, 'list-basis-sets', 'list-basis-sets', {'kind': 'cli', 'argv': argv})
    # another data directory through -d / --data-dir, in the same process as commands on the default one (before and after)
    fake = os.path.normpath(os.path.join(store.DATA, '..', 'tests', 'fakedata'))
    if os.path.isdir(fake):
        run_cli(['get-family', 'sto-3g'])
        fmd = bse.get_metadata(fake)
        for k, ent in fmd.items():
            for dflag in ('-d', '--data-dir'):
                argv = [dflag, fake, 'get-basis', ent['display_name'], 'nwchem']
                expect(ctx, argv, impl.call(bse.get_basis, k, fmt='nwchem', data_dir=fake), 'get-basis', 'get-basis:data-dir', {'kind': 'cli', 'argv': argv})
            argv = ['-d', fake, 'get-refs', k, 'bib']
            expect(ctx, argv, impl.call(bse.get_references, k, fmt='bib', data_dir=fake), 'get-refs', 'get-refs:data-dir', {'kind': 'cli', 'argv': argv})
            argv = ['-d', fake, 'get-notes', k]
            expect(ctx, argv, impl.call(bse.get_basis_notes, k, fake), 'get-notes', 'get-notes:data-dir', {'kind': 'cli', 'argv': argv})
        argv = ['-d', fake, 'list-basis-sets', '-n']
        expect(ctx, argv, ('ok', '\n'.join(v['display_name'] for v in fmd.values())), 'list-basis-sets', 'list-basis-sets:data-dir', {'kind': 'cli', 'argv': argv})
        # ... and the default directory again afterwards
        expect(ctx, ['get-basis', 'sto-3g', 'nwchem', '--elements', '1'], impl.call(bse.get_basis, 'sto-3g', fmt='nwchem', elements='1'), 'get-basis', 'get-basis:after-data-dir',
               {'kind': 'cli', 'argv': ['get-basis', 'sto-3g', 'nwchem']})
        got = run_cli(['get-basis', next(iter(fmd.values()))['display_name'], 'nwchem'])
        ctx.case(('fake-name-on-default-dir', ), True, 'invalid')
        if got[0] == 'ok' and next(iter(fmd)) not in md:
            ctx.violation('cli.invalid', 'accepted:other-directory', 'a name of another data directory is accepted on the default one', {'kind': 'cli', 'argv': ['get-basis', 'fake']})
    expect(ctx, ['list-families'], ('ok', '\n'.join(bse.get_families())), 'list-families', 'list-families', {'kind': 'cli', 'argv': ['list-families']})
    expect(ctx, ['list-roles', '-n'], ('ok', '\n'.join(bse.get_roles().keys())), 'list-roles', 'list-roles', {'kind': 'cli', 'argv': ['list-roles', '-n']})
    expect(ctx, ['list-ref-formats', '-n'], ('ok', '\n'.join(bse.get_reference_formats().keys())), 'list-ref-formats', 'list-ref-formats', {'kind': 'cli', 'argv': []})
    expect(ctx, ['get-data-dir'], ('ok', bse.get_data_dir()), 'get-data-dir', 'get-data-dir', {'kind': 'cli', 'argv': ['get-data-dir']})
    # invalid names / formats / roles / families: an error, nothing printed
    for argv in (['get-basis', 'no-such-basis', 'nwchem'], ['get-basis', '6-31g', 'no-such-format'], ['get-refs', '6-31g', 'nofmt'],
                 ['lookup-by-role', '6-31g', 'norole'], ['list-basis-sets', '-f', 'nofamily'], ['get-family-notes', 'nofamily'],
                 ['get-basis', '6-31g', 'nwchem', '--elements', 'Xx'], ['get-basis', '6-31g', 'nwchem', '--version', '99']):
        got = run_cli(argv)
        ctx.case(tuple(argv), True, 'invalid')
        if got[0] == 'ok':
            ctx.violation('cli.invalid', 'accepted', 'bse %s succeeds and prints %r' % (' '.join(argv), got[1][:60]), {'kind': 'cli', 'argv': argv})
    # file based commands
    d = tempfile.mkdtemp(prefix='vcli')
    try:
        src = os.path.join(d, 'in.nw')
        with open(src, 'w') as f:
            f.write(bse.get_basis('cc-pvdz', elements=[1, 6], fmt='nwchem', header=False))
        from basis_set_exchange import convert, readers, manip, writers
        for extra, mk in (([], False), (['--make-gen'], True)):
            out = os.path.join(d, 'out.gbs')
            got = run_cli(['convert-basis', src, out] + extra)
            ref = os.path.join(d, 'ref.gbs')
            convert.convert_formatted_basis_file(src, ref, make_gen=mk)
            ctx.case(('convert', mk), True, 'convert-basis')
            if got[0] != 'ok' or open(out).read() != open(ref).read():
                ctx.violation('cli.convert-basis', 'file', 'convert-basis %s writes something else than convert_formatted_basis_file' % extra, {'kind': 'cli', 'argv': ['convert-basis'] + extra})
        # explicit --in-fmt / --out-fmt, in any letter case, including names only the readers know (genbas = the CFOUR text)
        texts = {}
        for fmt in ('nwchem', 'cfour', 'turbomole', 'gaussian94'):
            texts[fmt] = os.path.join(d, 'src_' + fmt + '.txt')
            with open(texts[fmt], 'w') as f:
                f.write(bse.get_basis('6-31g', elements=[1, 6, 8], fmt=fmt, header=False))
        pairs = [('nwchem', 'nwchem', 'gaussian94'), ('nwchem', 'NWChem', 'Psi4'), ('turbomole', 'turbomole', 'nwchem'), ('cfour', 'cfour', 'nwchem'),
                 ('cfour', 'genbas', 'nwchem'), ('cfour', 'GenBas', 'gaussian94'), ('gaussian94', 'gaussian94', 'molpro'), ('nwchem', 'nosuchformat', 'nwchem'),
                 ('nwchem', 'nwchem', 'nosuchformat'), ('nwchem', 'genbas', 'nwchem')]
        for i, (which, in_fmt, out_fmt) in enumerate(pairs):
            out, ref = os.path.join(d, 'cv_cli_%d' % i), os.path.join(d, 'cv_api_%d' % i)
            argv = ['convert-basis', texts[which], out, '--in-fmt', in_fmt, '--out-fmt', out_fmt]
            got = run_cli(argv)
            want = impl.call(convert.convert_formatted_basis_file, texts[which], ref, in_fmt, out_fmt)
            ctx.case(('convert-fmt', which, in_fmt, out_fmt), True, 'convert-basis:explicit-formats')
            rp = {'kind': 'cli', 'argv': ['convert-basis', which, '--in-fmt', in_fmt, '--out-fmt', out_fmt]}
            if (got[0] == 'ok') != (want[0] == 'ok'):
                ctx.violation('cli.convert-basis', 'outcome:formats', 'convert-basis --in-fmt %s --out-fmt %s: command line %s, convert_formatted_basis_file %s'
                              % (in_fmt, out_fmt, got[0], want[0]), rp)
            elif got[0] == 'ok' and open(out).read() != open(ref).read():
                ctx.violation('cli.convert-basis', 'file:formats', 'convert-basis --in-fmt %s --out-fmt %s writes something else than convert_formatted_basis_file' % (in_fmt, out_fmt), rp)
        # an input file that parses but fails validation (a primitive no contraction uses; a contraction listed twice): the
        # command line refuses it exactly when convert_formatted_basis_file does, and writes nothing then
        good = bse.get_basis('cc-pvdz', elements=[6], fmt='nwchem', header=False).split('\n')
        bad1 = [l for l in good]
        rows = [i for i, l in enumerate(bad1) if len(l.split()) == 4 and all(c in '0123456789.-+eE' for c in ''.join(l.split()))]
        if rows:
            i = rows[0]
            x = bad1[i].split()
            bad1[i] = '      %s      0.0000000      0.0000000      0.0000000' % x[0]
        bad2 = []
        for l in good:
            x = l.split()
            bad2.append(l + '      ' + x[1] if len(x) == 4 and all(c in '0123456789.-+eE' for c in ''.join(x)) else l)
        for tag, lines in (('unused-primitive', bad1), ('duplicate-contraction', bad2)):
            src2 = os.path.join(d, 'invalid_%s.nw' % tag)
            with open(src2, 'w') as f:
                f.write('\n'.join(lines))
            out, ref = os.path.join(d, 'inv_cli_%s.gbs' % tag), os.path.join(d, 'inv_api_%s.gbs' % tag)
            got = run_cli(['convert-basis', src2, out])
            want = impl.call(convert.convert_formatted_basis_file, src2, ref)
            ctx.case(('convert-invalid', tag), True, 'convert-basis:invalid-input')
            rp = {'kind': 'cli', 'argv': ['convert-basis', 'invalid:' + tag]}
            if (got[0] == 'ok') != (want[0] == 'ok'):
                ctx.violation('cli.convert-basis', 'outcome:invalid-input', 'convert-basis on an input file with %s: command line %s, convert_formatted_basis_file %s'
                              % (tag, got[0], want[0] if want[0] == 'ok' else want[1]), rp)
            elif os.path.exists(out) != os.path.exists(ref):
                ctx.violation('cli.convert-basis', 'file:invalid-input', 'convert-basis on an input file with %s: output file written by one and not by the other' % tag, rp)
        # a format that cannot express some function type of the basis: what counts are the types of the SELECTED elements
        for nm, fmt2, els2 in (('def2-svp', 'fhiaims', 'H-Ne'), ('def2-svp', 'veloxchem', '1-10'), ('6-31g*', 'veloxchem', 'H,He'), ('def2-svp', 'fhiaims', 'Rb'),
                               ('lanl2dz', 'veloxchem', 'H-Ne')):
            argv = ['get-basis', nm, fmt2, '--elements=' + els2, '--noheader']
            expect(ctx, argv, impl.call(bse.get_basis, nm, fmt=fmt2, elements=els2, header=False), 'get-basis', 'get-basis:format-gate', {'kind': 'cli', 'argv': argv})
        for sub, f in (('autoaux-basis', manip.autoaux_basis), ('autoabs-basis', manip.autoabs_basis)):
            for which, in_fmt in (('nwchem', 'nwchem'), ('cfour', 'genbas'), ('cfour', 'CFOUR')):
                out = os.path.join(d, sub + in_fmt + '.out')
                argv = [sub, texts[which], out, '--in-fmt', in_fmt, '--out-fmt', 'nwchem']
                got = run_cli(argv)
                b = impl.call(readers.read_formatted_basis_file, texts[which], in_fmt)
                want = b
                if b[0] == 'ok':
                    b[1]['revision_description'] = ''
                    b[1]['version'] = ''
                    want = impl.call(lambda x: writers.write_formatted_basis_str(f(x), 'nwchem'), b[1])
                ctx.case((sub, in_fmt), True, sub + ':explicit-formats')
                rp = {'kind': 'cli', 'argv': [sub, which, '--in-fmt', in_fmt, '--out-fmt', 'nwchem']}
                if (got[0] == 'ok') != (want[0] == 'ok'):
                    ctx.violation('cli.' + sub, 'outcome:formats', '%s --in-fmt %s: command line %s, library call %s' % (sub, in_fmt, got[0], want[0]), rp)
                elif got[0] == 'ok' and open(out).read() != want[1]:
                    ctx.violation('cli.' + sub, 'file:formats', '%s --in-fmt %s writes something else than the library call' % (sub, in_fmt), rp)
        for sub, f in (('autoaux-basis', manip.autoaux_basis), ('autoabs-basis', manip.autoabs_basis)):
            out = os.path.join(d, sub + '.nw')
            got = run_cli([sub, src, out])
            b = readers.read_formatted_basis_file(src)
            b['revision_description'] = ''
            b['version'] = ''
            want = writers.write_formatted_basis_str(f(b), 'nwchem')
            ctx.case((sub, ), True, sub)
            if got[0] != 'ok' or open(out).read() != want:
                ctx.violation('cli.' + sub, 'file', '%s writes something else than the library call' % sub, {'kind': 'cli', 'argv': [sub]})
        # create-bundle: the archive type comes from the file name unless --archive-type is given
        from basis_set_exchange import bundle
        from .c15 import read_archive
        fake = os.path.normpath(os.path.join(store.DATA, '..', 'tests', 'fakedata'))
        if os.path.isdir(fake):
            for ext, extra, magic in (('.tar.bz2', [], b'BZh'), ('.zip', [], b'PK'), ('.dat', ['--archive-type', 'tbz'], b'BZh')):
                out, ref = os.path.join(d, 'cli' + ext), os.path.join(d, 'api' + ext)
                got = run_cli(['-d', fake, 'create-bundle', 'nwchem', 'bib', out] + extra)
                want = impl.call(bundle.create_bundle, ref, 'nwchem', 'bib', 'tbz' if extra else None, fake)
                ctx.case(('create-bundle', ext), True, 'create-bundle')
                rp = {'kind': 'cli', 'argv': ['create-bundle', 'nwchem', 'bib', 'x' + ext] + extra}
                if (got[0] == 'ok') != (want[0] == 'ok'):
                    ctx.violation('cli.create-bundle', 'outcome', 'create-bundle %s: command line %s, API %s' % (ext, got[0], want[0]), rp)
                elif got[0] == 'ok':
                    head = open(out, 'rb').read(3)
                    if not head.startswith(magic) or open(ref, 'rb').read(3)[:len(magic)] != magic:
                        ctx.violation('cli.create-bundle', 'archive-type', 'create-bundle to a %s file writes an archive starting with %r' % (ext, head), rp)
                    elif ext != '.dat' and sorted(read_archive(out)) != sorted(read_archive(ref)):
                        ctx.violation('cli.create-bundle', 'members', 'create-bundle %s: members differ from bundle.create_bundle' % ext, rp)
        # -o FILE under a locale whose preferred encoding is ASCII: the file is UTF-8 like the returned text
        import subprocess
        out = os.path.join(d, 'refs.txt')
        env = dict(os.environ, LC_ALL='C', LANG='C', PYTHONCOERCECLOCALE='0', PYTHONUTF8='0', PYTHONHASHSEED='0', PYTHONPATH=paths.REPO)
        env.pop('PYTHONIOENCODING', None)
        pr = subprocess.run([paths.PY, '-c', 'import sys; sys.argv = ["bse", "-o", %r, "get-refs", "def2-tzvp", "txt", "--elements", "1,30"]; '
                             'from basis_set_exchange.cli import bse_cli; bse_cli.run_bse_cli()' % out],
                            env=env, stdout=subprocess.PIPE, stderr=subprocess.PIPE, cwd=d)
        want = impl.call(bse.get_references, 'def2-tzvp', fmt='txt', elements='1,30')
        ctx.case(('-o', 'ascii-locale'), True, 'output-file-encoding')
        try:
            text = open(out, encoding='utf-8').read() if os.path.exists(out) else None
        except UnicodeDecodeError:
            text = None
        if want[0] == 'ok' and (pr.returncode != 0 or text != want[1] + '\n'):
            ctx.violation('cli.-o', 'encoding', 'bse -o FILE get-refs under an ASCII locale: exit code %d, file %s the UTF-8 text the API returns (%s)'
                          % (pr.returncode, 'is not' if text is not None else 'missing / not', pr.stderr.decode()[-120:]),
                          {'kind': 'cli', 'argv': ['-o', 'FILE', 'get-refs', 'def2-tzvp', 'txt']})
    finally:
        import shutil
        shutil.rmtree(d, ignore_errors=True)


def argparse_view():
    """the parser as argparse itself sees it (captured by intercepting parse_args)"""
    import argparse
    from basis_set_exchange.cli import bse_cli
    captured = {}

    class Stop(Exception):
        pass

    orig = argparse.ArgumentParser.parse_args

    def fake(self, *a, **k):
        captured['parser'] = self
        raise Stop()

    argparse.ArgumentParser.parse_args = fake
    old = sys.argv
    sys.argv = ['bse', 'list-families']
    try:
        try:
            bse_cli.run_bse_cli()
        except Stop:
            pass
    finally:
        argparse.ArgumentParser.parse_args = orig
        sys.argv = old
    parser = captured['parser']

    def enc(actions):
        out = []
        for a in actions:
            if isinstance(a, (argparse._HelpAction, argparse._VersionAction, argparse._SubParsersAction)):
                continue
            action = 'store_true' if isinstance(a, argparse._StoreTrueAction) else 'store'
            ty = 'str' if a.type is None else getattr(a.type, '__name__', None) or 'argparse.FileType'
            if isinstance(a.type, argparse.FileType):
                ty = 'argparse.FileType'
            if a.type is str.lower:
                ty = 'str.lower'
            d = a.default
            if action == 'store_true':
                d = None
            out.append({'opts': list(a.option_strings) or [a.dest], 'dest': a.dest, 'action': action, 'type': ty,
                        'default': d if (d is None or isinstance(d, int)) else str(d)})
        return out

    table = {'': enc(parser._actions)}
    for a in parser._actions:
        if isinstance(a, argparse._SubParsersAction):
            for name, sp in a.choices.items():
                table[name] = enc(sp._actions)
    return table


def run(ctx):
    if ctx.model is not None:
        # the translated argparse table is what argparse itself builds
        ctx.compare('cli_table', ('ok', argparse_view()), ctx.model.call('cli_table'), {'what': 'argparse table'})
        ctx.case(('cli_table', ), True, 'argparse-table')
    ctx.rule = ('bse subcommands run in-process with patched argv/stdout vs the direct API call: get-basis with random flag '
                'combinations, element lists, versions, formats in any case, --noheader, augmentation, --get-aux, -o FILE; get-refs; '
                'notes, family, role lookups; list-basis-sets with filter options (short and long spellings); listings; convert / '
                'autoaux / autoabs files; invalid names, formats, roles, families, elements, versions must fail and print nothing. '
                'Non-trivial = a command with at least one option')
    ctx.trusted.append('argparse (the translated table of GenCli.v is what the theorems are about; argparse itself is exercised, not modelled)')
    md = store.metadata()
    listings(ctx)
    if ctx.thorough():
        pairs = store.all_pairs(md)
    else:
        pairs = [(n, md[n]['latest_version']) for n in store.sample_names(ctx.rng, 26, md)]
        # names whose index key is not the lower-cased name (* and / are escaped in keys)
        pairs += [(n, md[n]['latest_version']) for n in ('6-31g_st_', '6-311+g_st__st_', 'cc-pvdz(fi_sl_sf_sl_fw)', 'cc-pvdz-f12') if n in md]      # the last one: a role naming two basis sets
        multi = [k for k, v in md.items() if len(v['versions']) > 1]
        pairs += [(k, sorted(md[k]['versions'])[0]) for k in ctx.rng.sample(multi, 4)]
    store.parallel(ctx, work, pairs)


def replay(ctx, rec):
    listings(ctx)
