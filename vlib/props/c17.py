"""C17 - adding a basis to a data directory stores exactly it and overwrites nothing."""
import copy
import datetime
import json
import os
import random
import shutil
import subprocess
import tempfile

from .. import impl, paths, gen, datadir
from .c01 import norm_err
from .c18 import to_kind

FRESH = r'''
import sys, json
sys.path.insert(0, %r)
import basis_set_exchange as bse
out = []
for name, version in json.loads(sys.argv[2]):
    try:
        out.append(['ok', bse.get_basis(name, version=version, data_dir=sys.argv[1])])
    except Exception as e:
        out.append(['error', type(e).__name__])
print(json.dumps(out))
'''


def fresh_get(data_dir, queries):
    """get_basis in a fresh process (the adding process has the directory's old index memoised)"""
    p = subprocess.run([paths.PY, '-c', FRESH % paths.REPO, data_dir, json.dumps(queries)], stdout=subprocess.PIPE,
                       stderr=subprocess.DEVNULL, env=dict(os.environ, PYTHONHASHSEED='0'))
    return json.loads(p.stdout.decode() or '[]')


def snapshot(d):
    out = {}
    for root, _, files in os.walk(d):
        for f in files:
            p = os.path.join(root, f)
            with open(p, 'rb') as fh:
                out[os.path.relpath(p, d)] = fh.read()
    return out


def component_of(rng, lmax=None):
    # every version of a name must have the same function types (the index refuses anything else): lmax >= 2 gives
    # {gto, gto_spherical} always; the 'differing-types' kind below uses lmax = 1 on purpose
    b = gen.gen_basis(rng, nel=rng.randint(1, 3), ecp_prob=0.0, ecp_only_prob=0.0, allow_fused=rng.random() < 0.4,
                      lmax=rng.randint(2, 3) if lmax is None else lmax)
    c = to_kind(b, 'component')
    for el in c['elements'].values():
        el.pop('references', None)
    return c


def gen_refs(rng, zs):
    from basis_set_exchange import misc
    form = rng.randrange(4)
    if form == 0:
        return 'refall'
    if form == 1:
        return ['refa', 'refb']
    if form == 2:
        return None
    # dict form over a partition of (some of) the elements
    zs = sorted(zs, key=int)
    rng.shuffle(zs)
    cut = rng.randint(1, len(zs))
    m = {}
    m[misc.compact_elements(zs[:cut])] = rng.choice(['refx', ['refx', 'refy']])
    if cut < len(zs) and rng.random() < 0.6:
        m[','.join(zs[cut:cut + 1])] = ['refz']
    return m


def expected_refs(refs, zs):
    from basis_set_exchange import misc
    if refs is None:
        return {z: [] for z in zs}
    if isinstance(refs, str):
        return {z: [refs] for z in zs}
    if isinstance(refs, list):
        return {z: list(refs) for z in zs}
    out = {z: [] for z in zs}
    for k, v in refs.items():
        for z in misc.expand_elements(k, True):
            out[z] = [v] if isinstance(v, str) else list(v)
    return out


def sequence(ctx, seed):
    rng = random.Random(seed)
    from basis_set_exchange import curate, writers
    d = tempfile.mkdtemp(prefix='vadd')
    added = {}           # (name, version) -> (component, refs, description)
    used = set()         # (file base, version) of the additions that succeeded
    history = []
    today = datetime.date.today().isoformat()
    try:
        bases = ['Add-%d' % i for i in range(3)] + ['add*%d' % seed]
        nsteps = rng.randint(1, 8) if seed % 3 else rng.randint(3, 8)
        retry = None
        for step in range(nsteps):
            name = rng.choice(bases)
            fb = name.lower().replace('*', '_st_')
            version = str(rng.choice([0, 1, 2, 9, 10, 11]))
            sub = rng.choice(['sub', 'other/deep'])
            comp = component_of(rng)
            zs = list(comp['elements'])
            refs = gen_refs(rng, zs)
            role, family = 'orbital', 'addfam'
            kind = rng.choice(['ok', 'ok', 'ok', 'ok', 'invalid-data', 'invalid-role', 'invalid-family', 'name-clash', 'bad-refs', 'file', 'differing-types',
                               'case-twin', 'invalid-fused'])
            model_refs = True
            if seed % 3 == 0 and step < 2 and nsteps >= 3:
                # a fixed opening: a valid addition, then a new version of it that is refused, then (retry) the corrected one
                name, fb = bases[0], bases[0].lower()
                kind = ['ok', 'differing-types'][step]
                version = str(step)
            if retry is not None:
                # the refused addition of the previous step, corrected: same name, file base, version and sub-directory
                name, fb, version, sub = retry
                kind = 'ok'
                retry = None
            if kind == 'invalid-data':
                # one rule of the validator broken (the catalogue of C18: zero / negative / repeated exponent, short row,
                # zero column, unused primitive, duplicate column, missing key, ...)
                from . import c18
                muts = [c18.m_negative_exp, c18.m_zero_exp, c18.m_dup_exp, c18.m_short_row, c18.m_zero_column, c18.m_unused_primitive,
                        c18.m_dup_column, c18.m_missing_key, c18.m_am_negative, c18.m_bad_function_type, c18.m_empty_exponents]
                rng.shuffle(muts)
                if not any(m(comp, rng) for m in muts):
                    kind = 'ok'
            elif kind == 'invalid-fused':
                # an sp shell with a primitive no contraction uses (the rules for fused shells are the validator's own code path)
                el = comp['elements'][rng.choice(zs)]
                el['electron_shells'].append({'function_type': 'gto', 'region': '', 'angular_momentum': [0, 1], 'exponents': ['5.0', '1.0', '0.2'],
                                              'coefficients': [['0.3', rng.choice(['0.0', '0.00', '0.0E+00']), '0.4'], ['0.2', '0.0', '0.3']]})
            elif kind == 'invalid-role':
                role = 'principal'
            elif kind == 'invalid-family':
                family = 'AddFam'
            elif kind == 'name-clash' and added:
                fb = fb + 'x'          # an already registered name under another file base
                name = rng.choice(list(added))[0]
            elif kind == 'differing-types':
                if not any(n == name for (n, _v) in added):
                    kind = 'ok'
                else:
                    comp = component_of(rng, lmax=1)       # only 'gto': differs from the other versions of this name
                    zs = list(comp['elements'])
                    refs = gen_refs(rng, zs)
            elif kind == 'bad-refs':
                from basis_set_exchange import misc
                zk = misc.compact_elements(sorted(zs, key=int))
                which = rng.randrange(6)
                refs = [{'Og-Og': ['refq']} if '118' not in zs else 5, 5, ['r1', 'r1'], ['r1', 5], {zk: 5}, {zk: ['ra', 'ra']}][which]
                model_refs = which == 0       # the other shapes are refused by the schema of the stored references, which the model does not carry
            elif kind == 'case-twin':
                # another basis whose file base differs from a registered one only in letter case: a different set of files
                name, fb = 'TW' + name, fb.upper()
            strs = [sub, fb, name, family, role, 'desc of ' + name, version, 'rev ' + version]
            before = snapshot(d)
            model_dir = {k: (json.loads(v) if v.strip() else None) for k, v in before.items() if k.endswith('.json')}
            if kind == 'file':
                # add_basis from a formatted file in a readable format
                fmt = rng.choice(['nwchem', 'gaussian94', 'turbomole'])
                full = gen.gen_basis(random.Random(seed * 31 + step), nel=2, ecp_prob=0.0, ecp_only_prob=0.0, allow_fused=False, lmax=2, cart=False)
                txt = impl.call(writers.write_formatted_basis_str, full, fmt)
                if txt[0] != 'ok':
                    continue
                ext = writers.write._writer_map[fmt]['extension']
                src = os.path.join(d, '..', os.path.basename(d) + '_in' + ext)
                text = txt[1]
                if fmt == 'nwchem' and rng.random() < 0.6:
                    # NWChem keywords are case-insensitive: the same input with its BASIS line in lower case
                    text = '\n'.join(l.lower() if l.upper().startswith('BASIS') else l for l in text.split('\n'))
                with open(src, 'w') as f:
                    f.write(text)
                from basis_set_exchange import readers
                comp = readers.read_formatted_basis_file(src, validate=True, as_component=True)
                want_types = {(int(z), tuple(sh['angular_momentum']), sh['function_type']) for z, el in full['elements'].items() for sh in el['electron_shells']}
                got_types = {(int(z), tuple(sh['angular_momentum']), sh['function_type']) for z, el in comp['elements'].items() for sh in el['electron_shells']}
                if {(z, t) for z, a, t in want_types if max(a) >= 2} != {(z, t) for z, a, t in got_types if max(a) >= 2}:
                    ctx.violation('readers.read_formatted_basis_file', 'file-function-types:' + fmt,
                                  'the %s file of a spherical basis is read as %s' % (fmt, sorted({t for _z, _a, t in got_types})), {'kind': 'sequence', 'seed': seed, 'step': step})
                zs = list(comp['elements'])
                refs = 'reffile'
                r = impl.call(curate.add_basis, src, d, *strs, 'generated', refs)
                os.unlink(src)
            else:
                r = impl.call(curate.add_basis_from_dict, copy.deepcopy(comp), d, *strs, 'generated', refs)
            after = snapshot(d)
            history.append([kind, name, version, r[0] if r[0] == 'ok' else r[1]])
            ctx.case((seed, step, kind), step > 0 or kind != 'ok', 'add:' + kind)
            replay = {'kind': 'sequence', 'seed': seed, 'step': step, 'history': history}
            site = 'curate.add_basis'
            # model
            if ctx.model is not None and not (kind == 'bad-refs' and (not isinstance(refs, dict) or not model_refs)):
                m = ctx.model.call('add_basis_from_dict', model_dir, comp, strs + ['generated', today], refs)
                got_dir = {k: json.loads(v) for k, v in after.items() if k.endswith('.json')}
                got = ('ok', got_dir) if r[0] == 'ok' else (r[0], 'Validation' if 'ValidationError' in r[1] else r[1])
                ctx.compare('add_basis_from_dict', norm_err(got), norm_err(m), replay)
            # nothing overwritten / removed
            for k, v in before.items():
                if k != 'METADATA.json' and after.get(k) != v:
                    ctx.violation(site, 'overwritten', 'file %s was changed or removed by an addition' % k, replay)
            if r[0] != 'ok':
                if kind in ('differing-types', 'invalid-data', 'invalid-fused', 'bad-refs') and (rng.random() < 0.7 or seed % 3 == 0):
                    retry = (name, fb, version, sub)
                if after != before:
                    ctx.violation(site, 'failed-add-changed-directory:' + kind, 'a refused addition (%s) left the directory changed: new files %s'
                                  % (kind, sorted(set(after) - set(before))), replay)
                if kind in ('ok', 'file', 'case-twin') and (name, version) not in added:
                    clash = (fb, version) in used
                    if not clash:
                        ctx.violation(site, 'valid-refused:' + r[1], 'a valid addition is refused with %s' % r[1], replay)
                continue
            if kind in ('invalid-role', 'invalid-family') and (fb + '.metadata.json') in before:
                # the basis metadata file exists already: role and family arguments are not used (and nothing invalid is stored)
                kind = 'ok'
            if kind in ('invalid-data', 'invalid-fused', 'invalid-role', 'invalid-family', 'bad-refs', 'differing-types'):
                ctx.violation(site, 'invalid-accepted:' + kind, 'input that fails validation (%s) was added' % kind, replay)
                continue
            added[(name, version)] = (comp, refs, 'desc of ' + name)
            used.add((fb, version))
            # index consistent with the directory: regenerating it changes nothing
            tmpidx = os.path.join(d, '..', os.path.basename(d) + '_idx.json')
            g = impl.call(curate.create_metadata_file, tmpidx, d)
            if g[0] != 'ok' or json.load(open(tmpidx)) != json.loads(after['METADATA.json']):
                ctx.violation(site, 'index-inconsistent', 'after the addition the index differs from the regenerated one (%s)' % (g, ), replay)
            if os.path.exists(tmpidx):
                os.unlink(tmpidx)
        # retrieval in a fresh process: every added (name, version) and the default version
        queries = [[n, v] for (n, v) in added] + [[n, None] for n in {n for (n, _v) in added}]
        res = fresh_get(d, queries) if queries else []
        for q, r in zip(queries, res):
            n, v = q
            ctx.case((seed, 'retrieve', n, v), True, 'retrieve')
            replay = {'kind': 'sequence', 'seed': seed, 'history': history, 'query': q}
            if v is None:
                vs = [int(x) for (m_, x) in added if m_ == n]
                v = str(max(vs))
                fp = 'default-version'
            else:
                fp = 'retrieve'
            comp, refs, desc = added[(n, v)]
            if r[0] != 'ok':
                ctx.violation('api.get_basis', fp + ':raises', 'added basis %s version %s cannot be retrieved (%s)' % (n, v, r[1]), replay)
                continue
            b = r[1]
            if b['version'] != v:
                ctx.violation('api.get_basis', fp, 'retrieving %s (version %s) returns version %s' % (n, q[1], b['version']), replay)
                continue
            want_refs = expected_refs(refs, list(comp['elements']))
            for z, el in comp['elements'].items():
                got = b['elements'].get(z)
                if got is None or any(got.get(k) != el.get(k) for k in ('electron_shells', 'ecp_potentials', 'ecp_electrons')):
                    ctx.violation('api.get_basis', 'data', 'element %s of added basis %s/%s is not what was supplied' % (z, n, v), replay)
                    break
                keys = [k for g_ in got['references'] for k in g_['reference_keys']]
                if keys != want_refs[z]:
                    ctx.violation('api.get_basis', 'references', 'element %s of %s/%s has references %s, supplied %s' % (z, n, v, keys, want_refs[z]), replay)
                    break
        if seed % 10 == 0:
            ctx.sample({'sequence_seed': seed, 'history': history})
    finally:
        shutil.rmtree(d, ignore_errors=True)


def components_scenario(ctx, seed):
    """add_from_components on a directory that already holds an orbital component and two ECP components for one of its
    elements: orbital + one ECP is a valid combination (retrieved in a fresh process: the shells of the one, the ECP of the
    other, both reference groups, only the common elements); orbital + both ECPs is invalid (one element cannot carry two ECPs)
    and must be refused with the directory byte-for-byte unchanged"""
    rng = random.Random(seed)
    from basis_set_exchange import curate
    d = tempfile.mkdtemp(prefix='vcmp')
    history = []
    try:
        orb = component_of(rng)
        zs = sorted(orb['elements'], key=int)
        z = rng.choice(zs)

        def ecp_component():
            pots, ne = gen.gen_ecp(rng)
            return {'molssi_bse_schema': {'schema_type': 'component', 'schema_version': '0.1'}, 'description': 'generated ECP', 'data_source': 'generated',
                    'elements': {z: {'ecp_potentials': pots, 'ecp_electrons': ne}}}
        parts = [('Part-Orb', 'part-orb', orb, 'reforb'), ('Part-EcpA', 'part-ecpa', ecp_component(), 'refecpa'), ('Part-EcpB', 'part-ecpb', ecp_component(), 'refecpb')]
        cfiles = {}
        for name, fb, comp, ref in parts:
            before = snapshot(d)
            r = impl.call(curate.add_basis_from_dict, copy.deepcopy(comp), d, 'parts', fb, name, 'addfam', 'orbital', 'desc of ' + name, '0', 'rev 0', 'generated', ref)
            history.append(['add_basis_from_dict', name, r[0] if r[0] == 'ok' else r[1]])
            if r[0] != 'ok':
                ctx.violation('curate.add_basis_from_dict', 'valid-refused:' + r[1], 'a valid component (%s) is refused with %s' % (name, r[1]), {'kind': 'components', 'seed': seed, 'history': history})
                return
            new = [k for k in set(snapshot(d)) - set(before) if k.endswith('.json') and json.loads(open(os.path.join(d, k)).read()).get('molssi_bse_schema', {}).get('schema_type') == 'component']
            if len(new) != 1:
                return
            cfiles[name] = os.path.join(d, new[0])
        today = datetime.date.today().isoformat()
        # valid: orbital part + one ECP
        before = snapshot(d)
        r = impl.call(curate.add_from_components, [cfiles['Part-Orb'], cfiles['Part-EcpA']], d, 'comb', 'comb-a', 'Comb-A', 'addfam', 'orbital', 'desc of Comb-A', '1', 'rev 1')
        after = snapshot(d)
        history.append(['add_from_components', 'Comb-A', r[0] if r[0] == 'ok' else r[1]])

        def against_model(before_, after_, r_, comps, strs):
            if ctx.model is None:
                return
            model_dir = {k: (json.loads(v) if v.strip() else None) for k, v in before_.items() if k.endswith('.json')}
            m = ctx.model.call('add_from_components', model_dir, [os.path.relpath(c, d) for c in comps], strs + [today])
            got_dir = {k: json.loads(v) for k, v in after_.items() if k.endswith('.json')}
            got = ('ok', got_dir) if r_[0] == 'ok' else (r_[0], 'Validation' if 'ValidationError' in r_[1] else r_[1])
            ctx.compare('add_from_components', norm_err(got), norm_err(m), {'kind': 'components', 'seed': seed, 'history': list(history)})
        against_model(before, after, r, [cfiles['Part-Orb'], cfiles['Part-EcpA']], ['comb', 'comb-a', 'Comb-A', 'addfam', 'orbital', 'desc of Comb-A', '1', 'rev 1'])
        ctx.case((seed, 'components-valid'), True, 'add:components')
        replay = {'kind': 'components', 'seed': seed, 'history': history}
        for k, v in before.items():
            if k != 'METADATA.json' and after.get(k) != v:
                ctx.violation('curate.add_from_components', 'overwritten', 'file %s was changed or removed by an addition' % k, replay)
        if r[0] != 'ok':
            ctx.violation('curate.add_from_components', 'valid-refused:' + r[1], 'orbital component + one ECP component is refused with %s' % r[1], replay)
        else:
            tmpidx = os.path.join(d, '..', os.path.basename(d) + '_idx.json')
            g = impl.call(curate.create_metadata_file, tmpidx, d)
            if g[0] != 'ok' or json.load(open(tmpidx)) != json.loads(after['METADATA.json']):
                ctx.violation('curate.add_from_components', 'index-inconsistent', 'after the addition the index differs from the regenerated one (%s)' % (g, ), replay)
            if os.path.exists(tmpidx):
                os.unlink(tmpidx)
            res = fresh_get(d, [['Comb-A', '1'], ['Comb-A', None]])
            for q, rr in zip(('1', None), res):
                ctx.case((seed, 'components-retrieve', q), True, 'retrieve')
                if rr[0] != 'ok':
                    ctx.violation('api.get_basis', 'retrieve:raises', 'the combined basis cannot be retrieved (%s)' % rr[1], replay)
                    continue
                b = rr[1]
                ecp = parts[1][2]['elements'][z]
                el = b['elements'].get(z, {})
                keys = [k for g_ in el.get('references', []) for k in g_['reference_keys']]
                if list(b['elements']) != [z] or el.get('electron_shells') != orb['elements'][z]['electron_shells'] or \
                        el.get('ecp_potentials') != ecp['ecp_potentials'] or el.get('ecp_electrons') != ecp['ecp_electrons'] or keys != ['reforb', 'refecpa'] or b['version'] != '1':
                    ctx.violation('api.get_basis', 'data:components', 'the basis combined from components is not the shells of the one and the ECP of the other for their common element', replay)
        # invalid: two ECPs for the same element
        before = snapshot(d)
        r = impl.call(curate.add_from_components, [cfiles['Part-Orb'], cfiles['Part-EcpA'], cfiles['Part-EcpB']], d, 'comb', 'comb-b', 'Comb-B', 'addfam', 'orbital', 'desc of Comb-B', '0', 'rev 0')
        after = snapshot(d)
        history.append(['add_from_components:two-ecps', 'Comb-B', r[0] if r[0] == 'ok' else r[1]])
        against_model(before, after, r, [cfiles['Part-Orb'], cfiles['Part-EcpA'], cfiles['Part-EcpB']], ['comb', 'comb-b', 'Comb-B', 'addfam', 'orbital', 'desc of Comb-B', '0', 'rev 0'])
        ctx.case((seed, 'components-two-ecps'), True, 'add:components-two-ecps')
        replay = {'kind': 'components', 'seed': seed, 'history': history}
        if r[0] == 'ok':
            ctx.violation('curate.add_from_components', 'invalid-accepted:two-ecps', 'components that give one element two ECPs were combined and stored', replay)
        elif after != before:
            ctx.violation('curate.add_from_components', 'failed-add-changed-directory:two-ecps', 'a refused combination left the directory changed: %s'
                          % sorted(set(after) ^ set(before))[:4], replay)
    finally:
        shutil.rmtree(d, ignore_errors=True)


def run(ctx):
    ctx.rule = ('random sequences (length 1..8) of add_basis_from_dict / add_basis (files in nwchem, gaussian94, turbomole format) and scenarios with add_from_components (orbital + ECP components: valid; two ECPs for one element: refused) on fresh '
                'temporary directories: repeated names, versions 0,1,2,9,10,11, sub-directories, reference maps as str / list / dict / '
                'None, invalid data, invalid role / family, a registered name under another file base, bad reference maps; after every '
                'step: directory snapshot (nothing overwritten, refused additions leave the directory byte-for-byte unchanged), the '
                'index equals the regenerated index, the whole directory equals the extracted model\'s directory; at the end every '
                'added (name, version) and the default version are retrieved in a fresh process and compared with what was supplied. '
                'Non-trivial = any step after the first or any refused kind')
    ctx.trusted.append('the file system is modelled as a finite map path -> parsed JSON (no crashes, no concurrent writers); datetime.date.today is a parameter of the model')
    for i in range(ctx.budget(30, 1200)):
        sequence(ctx, ctx.seed * 19 + i)
    for i in range(ctx.budget(6, 200)):
        components_scenario(ctx, ctx.seed * 23 + i)


def replay(ctx, rec):
    r = rec.get('replay', rec)
    if r.get('kind') == 'components':
        components_scenario(ctx, r['seed'])
    elif 'seed' in r:
        sequence(ctx, r['seed'])
