"""C12 - augmentation only adds, calendarisation only removes, by the documented rules."""
import copy
import random
from decimal import Decimal
from fractions import Fraction

from .. import impl, store, gen, oracle

MONTHS = ['jul', 'jun', 'may', 'apr', 'mar', 'feb', 'jan']


def fr(s):
    return Fraction(Decimal(s.strip()))


def close7(s, exact):
    """the printed value is the exact one to within one unit of the seventh significant digit"""
    v = fr(s)
    if exact == 0:
        return v == 0
    return abs(v - exact) <= abs(exact) * Fraction(15, 10**7)


def expected_new(el, nadd, steep):
    """independent derivation of the functions to add for one element: dict l -> list of exact exponents"""
    by_l = {}
    for sh in el.get('electron_shells', []):
        for l, f in oracle.shell_functions(sh):
            by_l.setdefault(l, []).append({Fraction(x): Fraction(c) for x, c in f})
    out = {}
    for l, cols in by_l.items():
        xs = sorted({x for c in cols for x in c})
        if len(xs) < 2:
            continue
        ref, nxt = (xs[-1], xs[-2]) if steep else (xs[0], xs[1])
        free = {next(iter(c)) for c in cols if len(c) == 1}
        if ref in free and nxt in free:
            out[l] = [ref * (ref / nxt)**i for i in range(1, nadd + 1)]
    return out


def check_aug(ctx, b, nadd, steep, label):
    from basis_set_exchange import manip
    r = impl.call(manip.geometric_augmentation, copy.deepcopy(b), nadd, steep=steep)
    fused = any(len(sh['angular_momentum']) > 1 for el in b['elements'].values() for sh in el.get('electron_shells', []))
    ctx.case((label, nadd, steep), nadd > 1 or steep, 'augment:%s' % ('steep' if steep else 'diffuse'))
    site = 'manip.geometric_augmentation'
    replay = {'kind': 'aug', 'label': label, 'nadd': nadd, 'steep': steep, 'input': b if len(str(b)) < 15000 else None}
    if r[0] != 'ok':
        # documented refusal: the two outermost exponents are equal (duplicate exponents across shells)
        dup = any(len({oracle.dec(x) for sh in el.get('electron_shells', []) if l in sh['angular_momentum'] for x in sh['exponents']}) <
                  len([x for sh in el.get('electron_shells', []) if l in sh['angular_momentum'] for x in sh['exponents']])
                  for el in b['elements'].values() for l in range(0, 13))
        if r[1] == 'RuntimeError' and dup:
            ctx.dist['documented-refusal'] += 1
            return
        ctx.violation(site, 'raises:' + r[1], 'geometric_augmentation raises %s' % r[1], replay)
        return
    out = r[1]
    for z, el in b['elements'].items():
        o = out['elements'][z]
        old = el.get('electron_shells', [])
        new = o.get('electron_shells', [])
        if new[:len(old)] != old:
            ctx.violation(site, 'originals', 'element %s: the original shells are not kept unchanged in front' % z, replay)
            continue
        added = new[len(old):]
        if ctx.model is not None and 'electron_shells' in el:
            m = ctx.model.call('augment_shells', old, nadd, steep)
            if m[0] != 'ok' or len(m[1]) != len(added):
                ctx.compare('augment_shells', ('ok', len(added)), ('ok', len(m[1])) if m[0] == 'ok' else m, replay)
            else:
                for a, ms in zip(added, m[1]):
                    same = (a['angular_momentum'] == ms['angular_momentum'] and a['function_type'] == ms['function_type']
                            and a['region'] == ms['region'] and len(a['exponents']) == 1
                            and close7(a['exponents'][0], Fraction(ms['exponent_num'], ms['exponent_den'])))
                    if not same:
                        ctx.compare('augment_shells', ('ok', a), ('ok', ms), replay)
                        break
        want = expected_new(el, nadd, steep)
        got = {}
        for sh in added:
            kinds = {s0['function_type'] for s0 in old if sh['angular_momentum'][0] in s0['angular_momentum']}
            if len(sh['angular_momentum']) == 1 and kinds and sh['function_type'] not in kinds:
                ctx.violation(site, 'function-type', 'element %s: an added l=%d function is %s, the functions it continues are %s'
                              % (z, sh['angular_momentum'][0], sh['function_type'], sorted(kinds)), replay)
                break
            if len(sh['exponents']) != 1 or len(sh['coefficients']) != 1 or fr(sh['coefficients'][0][0]) != 1 or len(sh['angular_momentum']) != 1:
                ctx.violation(site, 'shape', 'element %s: an added shell is not a single unit-coefficient primitive' % z, replay)
                break
            got.setdefault(sh['angular_momentum'][0], []).append(sh['exponents'][0])
        if set(got) != set(want):
            ctx.violation(site, 'momenta', 'element %s: functions added for momenta %s, expected %s' % (z, sorted(got), sorted(want)), replay)
            continue
        for l in want:
            if len(got[l]) != nadd or not all(close7(s, e) for s, e in zip(got[l], want[l])):
                ctx.violation(site, 'exponents', 'element %s l=%d: added exponents %s are not x(x/y)^i = %s' % (z, l, got[l], [float(e) for e in want[l]]), replay)
                continue
            xs = [fr(x) for sh in old for x in sh['exponents'] if l in sh['angular_momentum']]
            vals = [fr(s) for s in got[l]]
            if steep and not (min(vals) > max(xs) and vals == sorted(vals)):
                ctx.violation(site, 'outside', 'element %s l=%d: steep exponents are not strictly above the original range' % (z, l), replay)
            if not steep and not (max(vals) < min(xs) and vals == sorted(vals, reverse=True)):
                ctx.violation(site, 'outside', 'element %s l=%d: diffuse exponents are not strictly below the original range' % (z, l), replay)
        if {k: v for k, v in el.items() if k != 'electron_shells'} != {k: v for k, v in o.items() if k != 'electron_shells'}:
            ctx.violation(site, 'other-data', 'element %s: ECP / reference data changed' % z, replay)


def check_get_basis_aug(ctx, name, version, els, plain, nd, ns):
    bse = impl.bse()
    r = impl.call(bse.get_basis, name, version=version, elements=els, augment_diffuse=nd, augment_steep=ns)
    ctx.case((name, version, tuple(els), nd, ns), True, 'get_basis-augment')
    replay = {'kind': 'get_basis', 'name': name, 'version': version, 'elements': els, 'augment_diffuse': nd, 'augment_steep': ns}
    if r[0] != 'ok':
        ctx.dist['get_basis-refusal:' + r[1]] += 1
        return
    for z, el in plain['elements'].items():
        before = oracle.element_fs(el)
        after = oracle.element_fs(r[1]['elements'][z])
        if not before <= after:
            ctx.violation('api.get_basis[augment]', 'originals', 'element %s: an original function is lost by augmentation' % z, replay)
            continue
        new = after - before
        want = 0
        if nd:
            want += sum(len(v) for v in expected_new(el, nd, False).values())
        if ns:
            # steep augmentation acts on the diffusely augmented basis: same momenta qualify
            want += sum(len(v) for v in expected_new(el, ns, True).values())
        if len(new) != want or any(len(f[1]) != 1 for f in new):
            ctx.violation('api.get_basis[augment]', 'count', 'element %s: %d new functions, expected %d single-primitive ones' % (z, len(new), want), replay)


def check_get_basis_aug_flags(ctx, name, version, els, nd, ns):
    """augmentation together with the options that change which primitives are free: the rule is applied to the basis those
    options produce (get_basis(options) is the reference), not to the stored contractions"""
    bse = impl.bse()
    for flags in ({'uncontract_segmented': True}, {'uncontract_general': True}, {'remove_free_primitives': True}, {'uncontract_spdf': True, 'optimize_general': True}):
        base = impl.call(bse.get_basis, name, version=version, elements=els, **flags)
        r = impl.call(bse.get_basis, name, version=version, elements=els, augment_diffuse=nd, augment_steep=ns, **flags)
        ctx.case((name, version, tuple(els), nd, ns, tuple(flags)), True, 'get_basis-augment+' + '+'.join(flags))
        replay = {'kind': 'get_basis', 'name': name, 'version': version, 'elements': els, 'augment_diffuse': nd, 'augment_steep': ns, 'flags': list(flags)}
        if base[0] != 'ok' or r[0] != 'ok':
            if base[0] == 'ok':
                ctx.dist['get_basis-refusal:' + r[1]] += 1
            continue
        for z, el in base[1]['elements'].items():
            if not el.get('electron_shells'):
                continue
            before = oracle.element_fs(el)
            after = oracle.element_fs(r[1]['elements'][z])
            if not before <= after:
                ctx.violation('api.get_basis[augment+options]', 'originals', 'element %s: a function of get_basis(%s) is lost by augmentation' % (z, flags), replay)
                continue
            want = 0
            if nd:
                want += sum(len(v) for v in expected_new(el, nd, False).values())
            if ns:
                want += sum(len(v) for v in expected_new(el, ns, True).values())
            new = after - before
            if len(new) != want or any(len(f[1]) != 1 for f in new):
                ctx.violation('api.get_basis[augment+options]', 'count', 'element %s: %d new functions with %s, the rule applied to get_basis(%s) gives %d'
                              % (z, len(new), flags, flags, want), replay)


def chain_ok(ctx, name, version, b):
    """all seven months: only most-diffuse primitives removed, descending chain, refusal beyond the maximum momentum"""
    from basis_set_exchange import manip
    prims_prev = None
    g = impl.call(manip.make_general, copy.deepcopy(b))
    if g[0] != 'ok':
        return
    full = {z: {l: sorted({oracle.dec(x) for sh in el.get('electron_shells', []) if sh['angular_momentum'] == [l] for x in sh['exponents']})
                for l in {sh['angular_momentum'][0] for sh in el.get('electron_shells', [])}} for z, el in g[1]['elements'].items()}
    maxam = max(max(d) for d in full.values() if d)
    prims_prev = full
    for k, month in enumerate(MONTHS):
        r = impl.call(manip.truhlar_calendarize, copy.deepcopy(b), month)
        ctx.case((name, version, month), k > 0, 'truhlar:' + month)
        replay = {'kind': 'truhlar', 'name': name, 'version': version, 'month': month}
        if ctx.model is not None and len(str(b)) < 250000:
            ctx.compare('truhlar_calendarize', r, ctx.model.call('truhlar_calendarize', b, month), replay)
        if k > maxam:
            if r[0] == 'ok':
                ctx.violation('manip.truhlar_calendarize', 'no-refusal', 'month %s strips every diffuse function but is not refused' % month, replay)
            continue
        if r[0] != 'ok':
            ctx.violation('manip.truhlar_calendarize', 'raises:' + r[1], 'month %s raises %s' % (month, r[1]), replay)
            continue
        cur = {z: {l: sorted({oracle.dec(x) for sh in el.get('electron_shells', []) if sh['angular_momentum'] == [l] for x in sh['exponents']})
                   for l in {sh['angular_momentum'][0] for sh in el.get('electron_shells', [])}} for z, el in r[1]['elements'].items()}
        for z in full:
            zmax = max(full[z])
            for l, xs in full[z].items():
                removed_expected = (z in ('1', '2')) or (l > zmax - k and k > 0)
                want = xs[1:] if removed_expected else xs
                if cur.get(z, {}).get(l, []) != want:
                    ctx.violation('manip.truhlar_calendarize', 'primitives', 'month %s element %s l=%d: primitives %s, expected %s'
                                  % (month, z, l, len(cur.get(z, {}).get(l, [])), len(want)), replay)
            for l in cur.get(z, {}):
                if not set(cur[z][l]) <= set(prims_prev[z].get(l, [])):
                    ctx.violation('manip.truhlar_calendarize', 'chain', 'month %s is not a subset of the previous month (element %s)' % (month, z), replay)
        prims_prev = cur
    # the months one after the other on ONE dictionary, as a caller does who keeps the aug basis and derives the calendar from it:
    # each month is what it is on a fresh copy
    kept = copy.deepcopy(b)
    for k, month in enumerate(MONTHS):
        if k > maxam:
            break
        r1 = impl.call(manip.truhlar_calendarize, kept, month)
        r2 = impl.call(manip.truhlar_calendarize, copy.deepcopy(b), month)
        ctx.case((name, version, month, 'kept'), True, 'truhlar-kept-dictionary:' + month)
        if r1 != r2:
            ctx.violation('manip.truhlar_calendarize', 'kept-dictionary', 'month %s derived from a dictionary that was calendarised before (%s) differs from the month derived from a fresh copy'
                          % (month, ', '.join(MONTHS[:k]) or 'nothing'), {'kind': 'truhlar', 'name': name, 'version': version, 'month': month})
            break


def work_store(ctx, item):
    name, version = item
    r = store.get_basis(name, version)
    if r[0] != 'ok':
        ctx.dist['store-unreadable'] += 1
        return
    md = store.metadata()
    if md[name]['role'] != 'orbital':
        return
    rng = random.Random('%s/%s/%d' % (name, version, ctx.seed // 1000))
    b = store.restrict(r[1], rng, 200 if ctx.thorough() else 3)
    if not any('electron_shells' in el for el in b['elements'].values()):
        return
    label = '%s/%s[%s]' % (name, version, ','.join(b['elements']))
    for nadd in ((1, 2, 3, 4) if ctx.thorough() else (1, rng.choice([2, 3, 4]))):
        for steep in (False, True):
            check_aug(ctx, b, nadd, steep, label)
    els = list(b['elements'])
    p = store.get_basis(name, version, elements=els)
    if p[0] == 'ok':
        for nd, ns in ((1, 0), (0, 1), (2, 1)):
            check_get_basis_aug(ctx, name, version, els, p[1], nd, ns)
        check_get_basis_aug_flags(ctx, name, version, els, *rng.choice([(1, 0), (0, 1), (2, 1)]))
    if name.startswith('aug-'):
        chain_ok(ctx, name, version, b)
    ctx.sample({'store': label, 'nadd': [1, 2], 'months': MONTHS if name.startswith('aug-') else []})


def work_mixed_kinds(ctx, item):
    name, version = item
    r = store.get_basis(name, version, elements=[13, 17, 31, 35])
    if r[0] != 'ok':
        return
    b = r[1]
    label = '%s/%s[13,17,31,35]' % (name, version)
    for nadd in (1, 2):
        for steep in (False, True):
            check_aug(ctx, b, nadd, steep, label)
    for nd, ns in ((1, 0), (1, 1)):
        check_get_basis_aug(ctx, name, version, ['13', '17', '31', '35'], b, nd, ns)


def work_generated(ctx, seed):
    rng = random.Random(seed)
    b = gen.gen_basis(rng, nel=1)
    for nadd in (1, rng.randint(2, 4)):
        for steep in (False, True):
            check_aug(ctx, b, nadd, steep, 'gen:%d' % seed)
    # calendarisation of generated dictionaries (single-primitive momenta, fused shells, several elements incl. H / He)
    b2 = gen.gen_basis(rng, nel=rng.randint(1, 3), ecp_prob=0.0, ecp_only_prob=0.0, allow_fused=False)
    if rng.random() < 0.5:
        src = next(iter(b2['elements'].values()))
        b2['elements'][rng.choice(['1', '2'])] = copy.deepcopy(src)
    chain_ok(ctx, 'gen', str(seed), b2)


def run(ctx):
    ctx.rule = ('geometric_augmentation (n = 1 and another n in 2..4, thorough 1..4; diffuse and steep) on orbital store basis sets and '
                'generated dictionaries (contracted outer primitives, single-primitive momenta, fused shells): originals kept as a prefix, '
                'exactly n unit shells per qualifying momentum with exponents x(x/y)^i to 7 digits, strictly outside the old range; the '
                'new shells are compared with the extracted exact-rational model; get_basis(augment_diffuse/steep) at function-set level; '
                'truhlar_calendarize for all seven months on every aug-* basis: primitives per momentum vs the rule, descending chain, '
                'refusal, compared exactly with the extracted model. Non-trivial: n > 1, steep, or a month after jul')
    ctx.trusted.append("IEEE arithmetic and '{:.6e}' formatting of the new exponents are not modelled: the printed value must agree with the exact rational x(x/y)^i to one unit of the seventh digit")
    md = store.metadata()
    orb = [k for k, v in md.items() if v['role'] == 'orbital']
    if ctx.thorough():
        pairs = [(k, v) for k in orb for v in md[k]['versions']]
    else:
        names = [n for n in store.sample_names(ctx.rng, 60, md) if n in orb][:24]
        names += ctx.rng.sample([k for k in orb if k.startswith('aug-')], 8)
        names += [k for k in ('aug-cc-pvtz-j', 'aug-cc-pvdz', 'aug-cc-pwcvtz-pp') if k in orb]   # single-primitive top momenta
        pairs = [(n, md[n]['latest_version']) for n in names]
    # a basis whose d functions are cartesian for some elements and spherical for others, with elements of each kind
    mixed = [k for k in ('6-311g_st_', '6-311g_st__st_') if k in orb]
    store.parallel(ctx, work_store, pairs)
    store.parallel(ctx, work_mixed_kinds, [(k, md[k]['latest_version']) for k in mixed])
    store.parallel(ctx, work_generated, [ctx.seed * 173 + i for i in range(ctx.budget(80, 4000))])
    # H and He are calendarised by a rule of their own: selections that hold one of them without the other, or neither
    for nm in ('aug-cc-pvtz', 'aug-cc-pvqz'):
        if nm in md:
            for els in ([2, 10], [1, 8], [2], [6, 7]):
                r = store.get_basis(nm, md[nm]['latest_version'], elements=els)
                if r[0] == 'ok':
                    chain_ok(ctx, '%s%s' % (nm, els), md[nm]['latest_version'], r[1])


def replay(ctx, rec):
    r = rec.get('replay', rec)
    if r.get('input'):
        check_aug(ctx, r['input'], r['nadd'], r['steep'], 'replay')
    elif r.get('name') == 'gen':
        work_generated(ctx, int(r['version']))
    elif r.get('name') in store.metadata():
        work_store(ctx, (r['name'], r.get('version') or store.metadata()[r['name']]['latest_version']))
