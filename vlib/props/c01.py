"""C01 - get_basis returns exactly the curated data it is composed from."""
import copy
import json
import os
import random

from .. import impl, store, datadir


def norm_err(r):
    if r[0] == 'error' and r[1].startswith('Other'):
        return ('error', 'Other')
    return r


def recompose(files, table_rel):
    """independent re-composition (oracle): dict relpath -> JSON; returns the expected complete dictionary
    (without the index display name) or raises ValueError for an inconsistent chain"""
    table = files[table_rel]
    out_elements = {}
    for z, efile in table['elements'].items():
        ef = files[efile]
        if z not in ef['elements']:
            raise ValueError('element %s not in %s' % (z, efile))
        shells, refs, ecp = None, [], None
        for c in ef['elements'][z]['components']:
            comp = files[c]
            if z not in comp['elements']:
                raise ValueError('element %s not in component %s' % (z, c))
            cel = comp['elements'][z]
            if 'electron_shells' in cel:
                shells = (shells or []) + list(cel['electron_shells'])
            if 'ecp_potentials' in cel:
                if ecp is not None:
                    raise ValueError('two ECPs for element %s' % z)
                ecp = (cel['ecp_potentials'], cel['ecp_electrons'])
            if 'references' in cel:
                refs.append({'reference_description': comp['description'], 'reference_keys': cel['references']})
        el = {}
        if shells is not None:
            el['electron_shells'] = shells
        if ecp is not None:
            el['ecp_potentials'], el['ecp_electrons'] = ecp
        el['references'] = refs
        out_elements[z] = el
    d, fn = os.path.split(table_rel)
    meta = files[os.path.join(d, fn.split('.')[0] + '.metadata.json')]
    types = set()
    for el in out_elements.values():
        types.update(s['function_type'] for s in el.get('electron_shells', []))
        types.update(p['ecp_type'] for p in el.get('ecp_potentials', []))
    out = {'revision_description': table['revision_description'], 'revision_date': table['revision_date'],
           'elements': out_elements, 'version': fn.split('.')[-3], 'function_types': sorted(types)}
    for k in ('names', 'tags', 'family', 'description', 'role', 'auxiliaries'):
        out[k] = meta[k]
    out['molssi_bse_schema'] = {'schema_type': 'complete', 'schema_version': '0.1'}
    return out


def compare_full(ctx, got, want, display, site, replay):
    """got: implementation result; want: oracle recomposition"""
    want = dict(want, name=display)
    if list(got['elements'].keys()) != list(want['elements'].keys()):
        ctx.violation(site, 'element-order', 'element keys/order differ from the table file: %s vs %s'
                      % (list(got['elements'])[:8], list(want['elements'])[:8]), replay)
        return
    for z in want['elements']:
        g, w = got['elements'][z], want['elements'][z]
        if not w['references'] and 'references' not in g:
            w = {k: v for k, v in w.items() if k != 'references'}
        if g != w:
            which = [k for k in set(g) | set(w) if g.get(k) != w.get(k)]
            ctx.violation(site, 'element-data:' + ','.join(sorted(which)), 'element %s differs from the component files in %s' % (z, sorted(which)), replay)
            return
    for k in set(got) | set(want):
        if k != 'elements' and got.get(k) != want.get(k):
            ctx.violation(site, 'field:' + k, 'field %r is %r, the files say %r' % (k, got.get(k), want.get(k)), replay)
            return


def before_plain(ctx, name, version, elements, data_dir):
    """requests with options for a basis that this process has not composed yet (their results are judged by other properties;
    here they are the history that must not change what the plain request returns afterwards)"""
    bse = impl.bse()
    kw = {} if data_dir is None else {'data_dir': data_dir}
    if elements:
        impl.call(bse.get_basis, name, version=version, elements=elements[:1], uncontract_segmented=True, **kw)
    impl.call(bse.get_basis, name, version=version, uncontract_general=True, remove_free_primitives=True, fmt='nwchem', **kw)
    ctx.dist['options-request-before-plain'] += 1


def work_store(ctx, item):
    name, version = item
    md = store.metadata()
    entry = md[name]
    rel = entry['versions'][version]['file_relpath']
    files = datadir.chain_files(store.DATA, rel)
    if ctx.rng.random() < 0.5 and isinstance(files.get(rel), dict):
        # "whatever was asked before": the first request for this basis in this process is one with options
        before_plain(ctx, name, version, list(files[rel].get('elements', {})), None)
    r = store.get_basis(name, version)
    nshared = sum(1 for k, v in files.items() if isinstance(v, dict) and v.get('molssi_bse_schema', {}).get('schema_type') == 'component')
    ctx.case((name, version), nshared >= 2, 'store')
    replay = {'kind': 'store', 'name': name, 'version': version}
    site = 'api.get_basis'
    if any(v is None for v in files.values()):
        ctx.dist['store-zero-length-file'] += 1
        if r[0] == 'ok':
            ctx.violation(site, 'unreadable-composed', 'a basis with an unreadable (empty) data file is composed instead of refused', replay)
    model_files = dict(files)
    model_files['METADATA.json'] = {name: entry}
    if ctx.model is not None:
        m = ctx.model.call('get_basis_plain', model_files, entry['display_name'], version, None)
        ctx.compare('get_basis_plain', norm_err(r), norm_err(m), replay)
    if r[0] != 'ok':
        if all(v is not None for v in files.values()):
            ctx.violation(site, 'raises:' + r[1], 'get_basis raises %s for an index entry with a consistent chain' % r[1], replay)
        return
    try:
        want = recompose(files, rel)
    except (ValueError, KeyError, TypeError) as e:
        ctx.violation(site, 'inconsistent-composed', 'inconsistent chain (%s) composed instead of refused' % e, replay)
        return
    compare_full(ctx, r[1], want, entry['display_name'], site, replay)
    # version defaulting and aliases are C05; here: the default call equals the explicit latest
    if version == entry['latest_version'] and ctx.rng.random() < 0.2:
        d = store.get_basis(name)
        if d != r:
            ctx.violation(site, 'default-version', 'get_basis without version differs from version=latest', replay)


INCONSISTENT = [None, None, None, 'missing-element-in-component', 'two-ecps', 'missing-file', 'element-missing-in-element-file']


def work_generated(ctx, seed):
    rng = random.Random(seed)
    how = INCONSISTENT[seed % len(INCONSISTENT)]
    from basis_set_exchange import curate
    bse = impl.bse()
    gd = datadir.GenDir(rng, inconsistent=how, repeat_shells=seed % 3 == 0)
    try:
        # the index: regenerated by the implementation when the directory is consistent, hand-made otherwise
        idx = impl.call(curate.create_metadata_file, os.path.join(gd.path, 'METADATA.json'), gd.path)
        files = datadir.whole_dir(gd.path)
        if idx[0] != 'ok':
            index = {}
            from basis_set_exchange import misc
            for b in gd.bases:
                for nm in b['names']:
                    index[misc.transform_basis_name(nm)] = {
                        'display_name': nm, 'latest_version': max(b['versions']),
                        'versions': {v: {'file_relpath': os.path.join(b['sub'], '%s.%s.table.json' % (b['basename'], v))}
                                     for v in b['versions']}}
            with open(os.path.join(gd.path, 'METADATA.json'), 'w') as f:
                json.dump(index, f)
            files['METADATA.json'] = index
        index = files['METADATA.json']
        if seed % 25 == 0:
            ctx.sample({'generated_dir': sorted(files), 'inconsistent': how})
        for key, entry in index.items():
            for ver, vinfo in entry['versions'].items():
                tbl = files.get(vinfo['file_relpath'])
                if seed % 2 and isinstance(tbl, dict):
                    before_plain(ctx, entry['display_name'], ver, list(tbl.get('elements', {})), gd.path)
                r = impl.call(bse.get_basis, entry['display_name'], version=ver, data_dir=gd.path)
                ctx.case((seed, key, ver), True, 'generated:' + (how or 'consistent'))
                replay = {'kind': 'generated', 'seed': seed, 'name': entry['display_name'], 'version': ver, 'inconsistent': how}
                if ctx.model is not None:
                    m = ctx.model.call('get_basis_plain', files, entry['display_name'], ver, None)
                    ctx.compare('get_basis_plain', norm_err(r), norm_err(m), replay)
                try:
                    want = recompose(files, vinfo['file_relpath'])
                except (ValueError, KeyError, TypeError) as e:
                    if r[0] == 'ok':
                        ctx.violation('api.get_basis', 'inconsistent-composed:' + (how or '?'),
                                      'inconsistent chain (%s) composed instead of refused' % e, replay)
                    continue
                if r[0] != 'ok':
                    ctx.violation('api.get_basis', 'raises:' + r[1], 'consistent generated directory refused with %s' % r[1], replay)
                    continue
                compare_full(ctx, r[1], want, entry['display_name'], 'api.get_basis', replay)
    finally:
        gd.cleanup()


def run(ctx):
    ctx.rule = ('every (name, version) of the index (quick: a stratified sample): get_basis with no options vs (a) the extracted model '
                'of compose.py + api.get_basis fed with the raw JSON files of the chain, compared exactly (keys, order of elements, raw '
                'strings), (b) an independent Python re-composition; plus generated data directories (shared components, ECP+orbital '
                'mixes, several versions, sub-directories, shuffled table order, a shell repeated by two components of an element; half of the plain requests come after requests with options for the same basis) and four kinds of inconsistent directories that must be '
                'refused. Non-trivial = the chain uses >= 2 component files / a generated directory')
    ctx.trusted.append('json.load and the file system are modelled as a finite map path -> parsed JSON (coq/Model/Compose.v)')
    md = store.metadata()
    if ctx.thorough():
        pairs = store.all_pairs(md)
    else:
        names = store.sample_names(ctx.rng, 120, md)
        pairs = [(n, md[n]['latest_version']) for n in names]
        multi = [k for k, v in md.items() if len(v['versions']) > 1]
        pairs += [(k, sorted(md[k]['versions'])[0]) for k in ctx.rng.sample(multi, 15)]
        pairs += [(k, v) for k in md for v in md[k]['versions'] if k.startswith(('ahgbsp1-9', 'hgbsp1-9'))]
    ctx.extra['zero_length_files'] = store.zero_length_files()
    store.parallel(ctx, work_store, pairs)
    store.parallel(ctx, work_generated, [ctx.seed * 1009 + i for i in range(ctx.budget(140, 5000))])


def replay(ctx, rec):
    r = rec.get('replay', rec)
    if r.get('kind') == 'store':
        work_store(ctx, (r['name'], r['version']))
    elif r.get('kind') == 'generated':
        work_generated(ctx, r['seed'])
