"""C03 - reading back what the library wrote never silently changes the basis."""
import bz2
import copy
import os
import random
import tempfile

from .. import impl, store, gen, oracle

MUST_SUCCEED = ['gaussian94', 'nwchem']       # and turbomole whenever the basis has electron shells


def rw_formats():
    from basis_set_exchange import writers, readers
    return [f for f in readers.read._reader_map if f in writers.write._writer_map]


def same_data(src, back, positional=False):
    """None when the read-back holds exactly the source's elements, functions (exact values), ECPs and electron counts;
    otherwise (fingerprint, description)"""
    se, be = src['elements'], back['elements']
    # every number of the read-back must be a number (what float() and the schema accept)
    for z, el in be.items():
        nums = [x for sh in el.get('electron_shells', []) for x in list(sh['exponents']) + [c for col in sh['coefficients'] for c in col]]
        nums += [x for p in el.get('ecp_potentials', []) for x in list(p['gaussian_exponents']) + [c for col in p['coefficients'] for c in col]]
        for x in nums:
            try:
                float(x)
                oracle.dec(x)
            except Exception:  # noqa
                return ('non-numeric', 'element %s: the read-back holds %r where a number is expected' % (z, x))
    if sorted(se, key=int) != sorted(be, key=int):
        lost = sorted(set(se) - set(be), key=int)
        if not be:
            return ('no-elements', 'the read-back has no element at all (source has %d)' % len(se))
        if lost and all('electron_shells' not in se[z] for z in lost) and not (set(be) - set(se)):
            return ('ecp-only-elements-lost', 'ECP-only element(s) %s are missing from the read-back' % lost[:5])
        return ('elements', 'elements differ: lost %s, new %s' % (lost[:5], sorted(set(be) - set(se), key=int)[:5]))
    for z in se:
        a, b = oracle.element_fs(se[z]), oracle.element_fs(be[z])
        if a != b:
            lost = a - b
            ls = sorted({f[0] for f in lost})
            fp = 'functions'
            have = {l for sh in se[z].get('electron_shells', []) for l in sh['angular_momentum']}
            if lost and not (b - a):
                fp = 'functions-lost:l>=%d' % min(ls) if min(ls) >= 7 else 'functions-lost'
            elif positional and have != set(range(max(have) + 1)):
                fp = 'functions-altered:am-gap'       # formats that list the momenta by position (dalton), whatever the momenta
            elif lost and min(ls) >= 7:
                fp = 'functions-altered:l>=%d' % min(ls)
            elif have != set(range(max(have) + 1)):
                fp = 'functions-altered:am-gap'
            return (fp, 'element %s: %d function(s) lost (l = %s), %d invented' % (z, len(lost), ls[:6], len(b - a)))
        ea, eb = oracle.ecp_canon(se[z]), oracle.ecp_canon(be[z])
        if ea != eb:
            if 'ecp_potentials' in se[z] and 'ecp_potentials' not in be[z]:
                return ('ecp-lost', 'element %s: the ECP is missing from the read-back' % z)
            gaps = sorted(p['angular_momentum'][0] for p in se[z].get('ecp_potentials', []))
            fp = 'ecp' + (':am-gap' if gaps != list(range(len(gaps))) else '')
            return (fp, 'element %s: ECP potentials / electron count differ' % z)
    return None


def roundtrip(ctx, b, fmt, label, kind):
    from basis_set_exchange import writers, readers
    w = impl.call(writers.write_formatted_basis_str, copy.deepcopy(b), fmt)
    if w[0] != 'ok':
        ctx.dist['write-refused:' + fmt] += 1
        return None
    r = impl.call(readers.read_formatted_basis_str, w[1], fmt)
    ctx.case((label, fmt), True, kind + ':' + fmt)
    replay = {'kind': 'roundtrip', 'label': label, 'fmt': fmt, 'input': b if len(str(b)) < 15000 else None}
    site = 'readers.' + fmt
    has_shells = any('electron_shells' in el for el in b['elements'].values())
    required = fmt in MUST_SUCCEED or (fmt == 'turbomole' and has_shells)
    if r[0] != 'ok':
        if required:
            gaps = any(sorted(p['angular_momentum'][0] for p in el.get('ecp_potentials', [])) != list(range(len(el.get('ecp_potentials', []))))
                       for el in b['elements'].values())
            ctx.violation(site, 'required-read-fails:%s%s' % (r[1], ':ecp-am-gap' if gaps else ''),
                          'the %s text the library wrote cannot be read back (%s)' % (fmt, r[1]), replay)
        else:
            ctx.dist['read-raises:' + fmt] += 1
        return w[1]
    d = same_data(b, r[1], positional=(fmt == 'dalton'))
    if d:
        ctx.violation(site, d[0], 'reading back the %s text silently changes the basis: %s' % (fmt, d[1]), replay)
    return w[1]


def file_and_convert(ctx, b, label, rng):
    """.bz2 files with extension autodetection, and convert_formatted_basis_str/file vs direct export"""
    from basis_set_exchange import writers, readers, convert
    d = tempfile.mkdtemp(prefix='vrt')
    try:
        for fmt in ('gaussian94', 'nwchem', 'turbomole'):
            if fmt == 'turbomole' and not any('electron_shells' in el for el in b['elements'].values()):
                continue
            ext = writers.write._writer_map[fmt]['extension']
            path = os.path.join(d, 'basis' + ext + ('.bz2' if rng.random() < 0.6 else ''))
            w = impl.call(writers.write_formatted_basis_file, copy.deepcopy(b), path)
            r = impl.call(readers.read_formatted_basis_file, path)
            ctx.case((label, fmt, 'file'), True, 'file:' + fmt)
            replay = {'kind': 'file', 'label': label, 'fmt': fmt}
            if w[0] != 'ok' or r[0] != 'ok':
                ctx.violation('readers.read_formatted_basis_file', 'file-fails:' + fmt, 'writing/reading %s through a file with extension autodetection fails (%s / %s)' % (fmt, w, r[0]), replay)
                continue
            dd = same_data(b, r[1])
            if dd:
                ctx.violation('readers.read_formatted_basis_file', 'file:' + dd[0], 'file round trip in %s changes the basis: %s' % (fmt, dd[1]), replay)
            if len(b['elements']) >= 2:
                # the same path written again with other content (one element fewer): reading gives what is in the file now
                b2 = copy.deepcopy(b)
                del b2['elements'][next(iter(b2['elements']))]
                if fmt != 'turbomole' or any('electron_shells' in el for el in b2['elements'].values()):
                    w2 = impl.call(writers.write_formatted_basis_file, copy.deepcopy(b2), path)
                    r2 = impl.call(readers.read_formatted_basis_file, path)
                    ctx.case((label, fmt, 'file-rewritten'), True, 'file-rewritten:' + fmt)
                    if w2[0] == 'ok' and (r2[0] != 'ok' or same_data(b2, r2[1])):
                        ctx.violation('readers.read_formatted_basis_file', 'file-rewritten:' + fmt,
                                      'a %s file rewritten with other content reads back as something else than its content (%s)' % (fmt, r2[0] if r2[0] != 'ok' else same_data(b2, r2[1])[1]), replay)
            # conversion A -> B carries the same data as exporting to B directly
            text = writers.write_formatted_basis_str(copy.deepcopy(b), fmt)
            for tgt in rng.sample(['gaussian94', 'nwchem', 'turbomole', 'psi4', 'gamess_us', 'molpro', 'dalton', 'cfour'], 3):
                c = impl.call(convert.convert_formatted_basis_str, text, fmt, tgt)
                direct = impl.call(writers.write_formatted_basis_str, copy.deepcopy(b), tgt)
                ctx.case((label, fmt, tgt, 'convert'), True, 'convert')
                if c[0] != 'ok' or direct[0] != 'ok':
                    if c[0] != direct[0]:
                        ctx.violation('convert.convert_formatted_basis_str', 'outcome:%s->%s' % (fmt, tgt), 'conversion %s -> %s: %s, direct export: %s' % (fmt, tgt, c[0], direct[0]), replay)
                    continue
                if tgt in ('gaussian94', 'nwchem', 'turbomole', 'psi4'):
                    rfmt = 'gaussian94' if tgt == 'psi4' else tgt
                    a = impl.call(readers.read_formatted_basis_str, c[1], rfmt)
                    e = impl.call(readers.read_formatted_basis_str, direct[1], rfmt)
                    if a[0] == 'ok' and e[0] == 'ok' and same_data(e[1], a[1]):
                        ctx.violation('convert.convert_formatted_basis_str', 'data:%s->%s' % (fmt, tgt), 'conversion %s -> %s carries other data than the direct export' % (fmt, tgt), replay)
            # the same through files: the formats given explicitly or taken from the file names, in every combination
            tgt = rng.choice([t for t in ('gaussian94', 'nwchem', 'turbomole') if t != fmt])
            if tgt == 'turbomole' and not any('electron_shells' in el for el in b['elements'].values()):
                continue
            src = os.path.join(d, 'conv_in' + ext)
            with open(src, 'w') as f:
                f.write(text)
            direct = impl.call(writers.write_formatted_basis_str, copy.deepcopy(b), tgt)
            e = impl.call(readers.read_formatted_basis_str, direct[1], tgt) if direct[0] == 'ok' else direct
            for in_f, out_f in ((None, None), (fmt, None), (None, tgt), (fmt, tgt)):
                out = os.path.join(d, 'conv_out' + writers.write._writer_map[tgt]['extension'])
                if os.path.exists(out):
                    os.unlink(out)
                c = impl.call(convert.convert_formatted_basis_file, src, out, in_f, out_f)
                ctx.case((label, fmt, tgt, 'convert-file', in_f, out_f), True, 'convert-file')
                rp = dict(replay, target=tgt, in_fmt=in_f, out_fmt=out_f)
                if c[0] != 'ok' or e[0] != 'ok':
                    if c[0] != direct[0]:
                        ctx.violation('convert.convert_formatted_basis_file', 'outcome:%s->%s' % (fmt, tgt),
                                      'file conversion %s -> %s (in_fmt=%s, out_fmt=%s): %s, direct export: %s' % (fmt, tgt, in_f, out_f, c[0], direct[0]), rp)
                    continue
                a = impl.call(readers.read_formatted_basis_str, open(out).read(), tgt)
                if a[0] != 'ok' or same_data(e[1], a[1]):
                    ctx.violation('convert.convert_formatted_basis_file', 'data:%s->%s' % (fmt, tgt),
                                  'file conversion %s -> %s (in_fmt=%s, out_fmt=%s): the output file does not carry the data of the direct %s export'
                                  % (fmt, tgt, in_f, out_f, tgt), rp)
    finally:
        import shutil
        shutil.rmtree(d, ignore_errors=True)


def nwchem_layout(ctx, b, label):
    """layer (b): the modelled NWChem electron section (coq/Model/Nwchem.v, round trip proved in Proofs/NwchemSpec.v) against
    writers/nwchem.py and readers/nwchem.py on the same shells.  The writer's two normalisation calls are the modelled
    manipulation pipeline (C02/C04); here their result is taken from the implementation and the layout is compared."""
    from basis_set_exchange import writers, readers, manip, sort
    if ctx.model is None or not any('electron_shells' in el for el in b['elements'].values()):
        return
    w = impl.call(writers.write_formatted_basis_str, copy.deepcopy(b), 'nwchem')
    if w[0] != 'ok' or len(w[1]) > 200000:
        return
    text = w[1]
    section = text[:text.index('END\n') + 4]
    pb = impl.call(lambda x: sort.sort_basis(manip.uncontract_spdf(x, 1, True), False), copy.deepcopy(b))
    if pb[0] != 'ok':
        return
    harm = 'cartesian' if 'gto_cartesian' in b['function_types'] else 'spherical'
    els = [[int(z), el['electron_shells']] for z, el in pb[1]['elements'].items() if 'electron_shells' in el]
    replay = {'kind': 'nwchem-layout', 'label': label, 'input': b if len(str(b)) < 15000 else None}
    ctx.case((label, 'nwchem-layout'), True, 'nwchem-layout')
    ctx.compare('nw_write_electron', ('ok', section), ctx.model.call('nw_write_electron', harm, els), replay)
    # the reader on exactly this text, and on a damaged variant of it
    for variant, lines in (('as-written', section.splitlines()), ('damaged', damage_lines(section.splitlines(), random.Random(len(section))))):
        r = impl.call(readers.read_formatted_basis_str, '\n'.join(lines) + '\n', 'nwchem')
        got = r
        if r[0] == 'ok':
            got = ('ok', [[int(z), el.get('electron_shells', [])] for z, el in r[1]['elements'].items()])
        ctx.case((label, 'nwchem-read', variant), True, 'nwchem-read:' + variant)
        ctx.compare('nw_read_electron', norm_read(got), norm_read(ctx.model.call('nw_read_electron', lines)), dict(replay, variant=variant))


def electron_only(b):
    e = copy.deepcopy(b)
    for z in list(e['elements']):
        el = e['elements'][z]
        el.pop('ecp_potentials', None)
        el.pop('ecp_electrons', None)
        if not el.get('electron_shells'):
            del e['elements'][z]
    e['function_types'] = gen.whole_types(e['elements'])
    return e


def g94_layout(ctx, b, label):
    """the modelled Gaussian94 electron part (coq/Model/G94.v, round trip proved in Proofs/G94Spec.v) against writers/g94.py
    and readers/g94.py on the same shells (input: the basis without its ECP part)"""
    from basis_set_exchange import writers, readers, manip, sort
    if ctx.model is None:
        return
    e = electron_only(b)
    if not e['elements']:
        return
    w = impl.call(writers.write_formatted_basis_str, copy.deepcopy(e), 'gaussian94')
    pb = impl.call(lambda x: sort.sort_basis(manip.uncontract_spdf(manip.uncontract_general(x, True), 1, False), False), copy.deepcopy(e))
    if w[0] != 'ok' or pb[0] != 'ok' or len(w[1]) > 200000:
        return
    els = [[int(z), el['electron_shells']] for z, el in pb[1]['elements'].items()]
    replay = {'kind': 'g94-layout', 'label': label, 'input': e if len(str(e)) < 15000 else None}
    ctx.case((label, 'g94-layout'), True, 'g94-layout')
    ctx.compare('g94_write_electron', ('ok', w[1]), ctx.model.call('g94_write_electron', els), replay)
    for variant, lines in (('as-written', w[1].splitlines()), ('damaged', damage_lines(w[1].splitlines(), random.Random(len(w[1]))))):
        r = impl.call(readers.read_formatted_basis_str, '\n'.join(lines) + '\n', 'gaussian94')
        got = r
        if r[0] == 'ok':
            got = ('ok', [[int(z), el.get('electron_shells', [])] for z, el in r[1]['elements'].items()])
        m = ctx.model.call('g94_read_electron', lines)
        if m == ('error', 'NotImplementedError') or m[0] == 'error' and 'NotImpl' in str(m[1]):
            ctx.dist['g94-read:outside-modelled-fragment'] += 1       # scale factors != 1 and ECP-looking blocks
            continue
        ctx.case((label, 'g94-read', variant), True, 'g94-read:' + variant)
        ctx.compare('g94_read_electron', norm_read(got), norm_read(m), dict(replay, variant=variant))


def tm_layout(ctx, b, label):
    """the modelled Turbomole electron section (coq/Model/Turbomole.v, Proofs/TurbomoleSpec.v) against writers/turbomole.py and
    readers/turbomole.py (input: the basis without its ECP part)"""
    from basis_set_exchange import writers, readers, manip, sort
    if ctx.model is None:
        return
    e = electron_only(b)
    if not e['elements']:
        return
    w = impl.call(writers.write_formatted_basis_str, copy.deepcopy(e), 'turbomole')
    pb = impl.call(lambda x: sort.sort_basis(manip.uncontract_spdf(manip.uncontract_general(x, True), 0, False), False), copy.deepcopy(e))
    if w[0] != 'ok' or pb[0] != 'ok' or len(w[1]) > 200000:
        return
    els = [[int(z), el['electron_shells']] for z, el in pb[1]['elements'].items()]
    replay = {'kind': 'tm-layout', 'label': label, 'input': e if len(str(e)) < 15000 else None}
    ctx.case((label, 'tm-layout'), True, 'tm-layout')
    ctx.compare('tm_write_electron', ('ok', w[1]), ctx.model.call('tm_write_electron', e.get('role', 'orbital'), e['name'], els), replay)
    for variant, lines in (('as-written', w[1].splitlines()), ('damaged', damage_lines(w[1].splitlines(), random.Random(len(w[1]))))):
        r = impl.call(readers.read_formatted_basis_str, '\n'.join(lines) + '\n', 'turbomole')
        got = r
        if r[0] == 'ok':
            got = ('ok', [[int(z), el.get('electron_shells', [])] for z, el in r[1]['elements'].items()])
        m = ctx.model.call('tm_read_electron', lines)
        if m[0] == 'error' and 'NotImpl' in str(m[1]):
            ctx.dist['tm-read:outside-modelled-fragment'] += 1
            continue
        ctx.case((label, 'tm-read', variant), True, 'tm-read:' + variant)
        ctx.compare('tm_read_electron', norm_read(got), norm_read(m), dict(replay, variant=variant))


def nwchem_whole(ctx, b, label):
    """the whole NWChem file, electron and ECP sections (coq/Model/NwchemEcp.v, Proofs/NwchemEcpSpec.v)"""
    from basis_set_exchange import writers, readers, manip, sort
    if ctx.model is None or not any('ecp_potentials' in el for el in b['elements'].values()):
        return
    w = impl.call(writers.write_formatted_basis_str, copy.deepcopy(b), 'nwchem')
    pb = impl.call(lambda x: sort.sort_basis(manip.uncontract_spdf(x, 1, True), False), copy.deepcopy(b))
    if w[0] != 'ok' or pb[0] != 'ok' or len(w[1]) > 200000:
        return
    harm = 'cartesian' if 'gto_cartesian' in b['function_types'] else 'spherical'
    els = [[int(z), el['electron_shells']] for z, el in pb[1]['elements'].items() if 'electron_shells' in el]
    ecps = [[int(z), el['ecp_electrons'], el['ecp_potentials']] for z, el in pb[1]['elements'].items() if 'ecp_potentials' in el]
    replay = {'kind': 'nwchem-whole', 'label': label, 'input': b if len(str(b)) < 15000 else None}
    ctx.case((label, 'nwchem-whole'), True, 'nwchem-whole')
    ctx.compare('nw_write_all', ('ok', w[1]), ctx.model.call('nw_write_all', harm, els, ecps), replay)

    def shape(r):
        if r[0] != 'ok':
            return ('error', 'any')
        out = []
        for z, el in r[1]['elements'].items():
            out.append([int(z), {'electron_shells': el.get('electron_shells', []), 'ecp_electrons': el.get('ecp_electrons'),
                                 'ecp_potentials': el.get('ecp_potentials', [])}])
        return ('ok', out)
    for variant, lines in (('as-written', w[1].splitlines()), ('damaged', damage_lines(w[1].splitlines(), random.Random(len(w[1]) + 1)))):
        r = impl.call(readers.read_formatted_basis_str, '\n'.join(lines) + '\n', 'nwchem')
        m = ctx.model.call('nw_read_all', lines)
        ctx.case((label, 'nwchem-whole-read', variant), True, 'nwchem-whole-read:' + variant)
        ctx.compare('nw_read_all', shape(r), norm_read(m), dict(replay, variant=variant))


def g94_whole(ctx, b, label):
    """the whole Gaussian94 file, electron blocks and ECP blocks (coq/Model/G94Ecp.v, Proofs/G94EcpSpec.v)"""
    from basis_set_exchange import writers, readers, manip, sort
    if ctx.model is None or not any('ecp_potentials' in el for el in b['elements'].values()):
        return
    w = impl.call(writers.write_formatted_basis_str, copy.deepcopy(b), 'gaussian94')
    pb = impl.call(lambda x: sort.sort_basis(manip.uncontract_spdf(manip.uncontract_general(x, True), 1, False), False), copy.deepcopy(b))
    if w[0] != 'ok' or pb[0] != 'ok' or len(w[1]) > 200000:
        return
    els = [[int(z), el['electron_shells']] for z, el in pb[1]['elements'].items() if 'electron_shells' in el]
    ecps = [[int(z), el['ecp_electrons'], el['ecp_potentials']] for z, el in pb[1]['elements'].items() if 'ecp_potentials' in el]
    replay = {'kind': 'g94-whole', 'label': label, 'input': b if len(str(b)) < 15000 else None}
    ctx.case((label, 'g94-whole'), True, 'g94-whole')
    ctx.compare('g94_write_all', ('ok', w[1]), ctx.model.call('g94_write_all', els, ecps), replay)

    def shape(r):
        if r[0] != 'ok':
            return ('error', 'any')
        return ('ok', [[int(z), {'electron_shells': el.get('electron_shells'), 'ecp_electrons': el.get('ecp_electrons'),
                                 'ecp_potentials': el.get('ecp_potentials')}] for z, el in r[1]['elements'].items()])
    for variant, lines in (('as-written', w[1].splitlines()), ('damaged', damage_lines(w[1].splitlines(), random.Random(len(w[1]) + 2)))):
        r = impl.call(readers.read_formatted_basis_str, '\n'.join(lines) + '\n', 'gaussian94')
        m = ctx.model.call('g94_read_all', lines)
        if m[0] == 'error' and 'NotImpl' in str(m[1]):
            ctx.dist['g94-whole-read:outside-modelled-fragment'] += 1
            continue
        ctx.case((label, 'g94-whole-read', variant), True, 'g94-whole-read:' + variant)
        ctx.compare('g94_read_all', shape(r), norm_read(m), dict(replay, variant=variant))


def whole_shape(r):
    if r[0] != 'ok':
        return ('error', 'any')
    return ('ok', [[z, {'electron_shells': el.get('electron_shells'), 'ecp_electrons': el.get('ecp_electrons'),
                             'ecp_potentials': el.get('ecp_potentials')}] for z, el in r[1]['elements'].items()])


def model_shape(m, empty_as_none=True):
    """the whole-file models return [] / None for an absent part in their own ways: one canonical form"""
    if m[0] != 'ok':
        return ('error', 'any')
    out = []
    for z, el in m[1]:
        sh, ne, ps = el.get('electron_shells'), el.get('ecp_electrons'), el.get('ecp_potentials')
        if ne is None and not ps:
            ps = None
        if ps is None and sh == [] and empty_as_none:
            sh = sh
        out.append([z, {'electron_shells': sh if sh else (None if sh is None or (sh == [] and ps is not None) else sh), 'ecp_electrons': ne, 'ecp_potentials': ps}])
    return ('ok', out)


def canon_whole(r):
    if r[0] != 'ok':
        return r
    return ('ok', [[int(z) if str(z).isdigit() else z, {'electron_shells': el['electron_shells'] or None, 'ecp_electrons': el['ecp_electrons'], 'ecp_potentials': el['ecp_potentials'] or None}]
                   for z, el in r[1]])


WHOLE_FORMATS = {
    # format: (pipeline after which the writer prints, write op, read op, extra leading arguments of the write op)
    'turbomole': (lambda manip, sort, x: sort.sort_basis(manip.uncontract_spdf(manip.uncontract_general(x, True), 0, False), False),
                  'tmecp_write', 'tmecp_read', lambda b: [b.get('role', 'orbital'), b['name']]),
    'gamess_us': (lambda manip, sort, x: sort.sort_basis(manip.uncontract_spdf(manip.uncontract_general(x, True), 1, False), False),
                  'gus_write_all', 'gus_read_all', lambda b: []),
    'dalton': (lambda manip, sort, x: sort.sort_basis(manip.make_general(x, False, True), False),
               'dal_write_all', 'dal_read_all', lambda b: [b['name']]),
}


def whole_file(ctx, b, label, fmt):
    """a whole-file layout model (electron + ECP parts) against the writer / reader of that format"""
    from basis_set_exchange import writers, readers, manip, sort
    if ctx.model is None:
        return
    pipe, wop, rop, lead = WHOLE_FORMATS[fmt]
    w = impl.call(writers.write_formatted_basis_str, copy.deepcopy(b), fmt)
    pb = impl.call(lambda x: pipe(manip, sort, x), copy.deepcopy(b))
    if w[0] != 'ok' or pb[0] != 'ok' or len(w[1]) > 200000:
        return
    els = [[int(z), el['electron_shells']] for z, el in pb[1]['elements'].items() if 'electron_shells' in el]
    ecps = [[int(z), el['ecp_electrons'], el['ecp_potentials']] for z, el in pb[1]['elements'].items() if 'ecp_potentials' in el]
    replay = {'kind': fmt + '-whole', 'label': label, 'input': b if len(str(b)) < 15000 else None}
    ctx.case((label, fmt + '-whole'), True, fmt + '-whole')
    ctx.compare(wop, ('ok', w[1]), ctx.model.call(wop, *(lead(b) + [els, ecps])), replay)
    for variant, lines in (('as-written', w[1].splitlines()), ('damaged', damage_lines(w[1].splitlines(), random.Random(len(w[1]) + 3)))):
        r = impl.call(readers.read_formatted_basis_str, '\n'.join(lines) + ('\n' if variant == 'damaged' or w[1].endswith('\n') else ''), fmt)
        m = ctx.model.call(rop, lines)
        if m[0] == 'error' and 'NotImpl' in str(m[1]):
            ctx.dist[fmt + '-whole-read:outside-modelled-fragment'] += 1
            continue
        ctx.case((label, fmt + '-whole-read', variant), True, fmt + '-whole-read:' + variant)
        ctx.compare(rop, canon_whole(whole_shape(r)), canon_whole(norm_read(m)), dict(replay, variant=variant))


def lmol_layout(ctx, b, label):
    """the modelled libmol electron part (coq/Model/Libmol.v, Proofs/LibmolSpec.v); the basis name is part of the text"""
    from basis_set_exchange import writers, readers, manip, sort
    if ctx.model is None:
        return
    e = electron_only(b)
    if not e['elements']:
        return
    w = impl.call(writers.write_formatted_basis_str, copy.deepcopy(e), 'libmol')
    pb = impl.call(lambda x: sort.sort_basis(manip.make_general(x, False, True), True), copy.deepcopy(e))
    if w[0] != 'ok' or pb[0] != 'ok' or len(w[1]) > 200000:
        return
    harm = 'cartesian' if 'gto_cartesian' in e['function_types'] else 'spherical'
    els = [[int(z), el['electron_shells']] for z, el in pb[1]['elements'].items()]
    replay = {'kind': 'libmol-layout', 'label': label, 'input': e if len(str(e)) < 15000 else None}
    ctx.case((label, 'libmol-layout'), True, 'libmol-layout')
    ctx.compare('lmol_write_electron', ('ok', w[1]), ctx.model.call('lmol_write_electron', harm, e['name'], els), replay)
    for variant, lines in (('as-written', w[1].splitlines()), ('damaged', damage_lines(w[1].splitlines(), random.Random(len(w[1]) + 5)))):
        r = impl.call(readers.read_formatted_basis_str, '\n'.join(lines) + '\n', 'libmol')
        got = r
        if r[0] == 'ok':
            got = ('ok', [[int(z), el.get('electron_shells', [])] for z, el in r[1]['elements'].items()])
        m = ctx.model.call('lmol_read_electron', lines)
        if m[0] == 'error' and 'NotImpl' in str(m[1]):
            ctx.dist['libmol-read:outside-modelled-fragment'] += 1
            continue
        ctx.case((label, 'libmol-read', variant), True, 'libmol-read:' + variant)
        ctx.compare('lmol_read_electron', norm_read(got), norm_read(m), dict(replay, variant=variant))


def _els(pb):
    return [[int(z), el['electron_shells']] for z, el in pb['elements'].items() if 'electron_shells' in el]


def _ecps(pb):
    return [[int(z), el['ecp_electrons'], el['ecp_potentials']] for z, el in pb['elements'].items() if 'ecp_potentials' in el]


def _harm(b):
    return 'cartesian' if 'gto_cartesian' in b['function_types'] else 'spherical'


MORE_FORMATS = {
    # format: (pipeline, write op, arguments of the write op from (b, normalised b), read op, what the read op returns)
    'cp2k': (lambda manip, sort, x: sort.sort_basis(x, True),
             'cp2k_write_all', lambda b, pb: [b['name'], _els(pb), _ecps(pb)], 'cp2k_read_electron', 'shells'),
    'cfour': (lambda manip, sort, x: sort.sort_basis(manip.make_general(x, False, True), False),
              'c4ecp_write', lambda b, pb: [b['name'], b['description'], _els(pb), _ecps(pb)], 'c4ecp_read', 'whole'),
    'molpro': (lambda manip, sort, x: sort.sort_basis(manip.make_general(x, False, True), True),
               'mpro_write_electron', lambda b, pb: [_harm(b), _els(pb)], 'mpro_read_electron', 'shells'),
    'demon2k': (lambda manip, sort, x: sort.sort_basis(manip.uncontract_general(manip.uncontract_spdf(x, 0, True), False), False),
                'd2k_write_all', lambda b, pb: ['gto_spherical' in b['function_types'], b['name'],
                                                [[int(z), el.get('ecp_electrons', 0), el['electron_shells']] for z, el in pb['elements'].items() if 'electron_shells' in el],
                                                _ecps(pb)], 'd2k_read_all', 'whole'),
}


def more_format(ctx, b, label, fmt):
    """further modelled layouts (coq/Model/Cp2k*.v, Genbas*.v, Molpro.v, Demon2k*.v) against the writer / reader of the format"""
    from basis_set_exchange import writers, readers, manip, sort
    if ctx.model is None:
        return
    pipe, wop, wargs, rop, kind = MORE_FORMATS[fmt]
    src = electron_only(b) if fmt == 'molpro' else b           # the molpro model covers the electron part
    if not src['elements'] or (fmt in ('demon2k', ) and not any('electron_shells' in el for el in src['elements'].values())):
        return
    w = impl.call(writers.write_formatted_basis_str, copy.deepcopy(src), fmt)
    pb = impl.call(lambda x: pipe(manip, sort, x), copy.deepcopy(src))
    if w[0] != 'ok' or pb[0] != 'ok' or len(w[1]) > 200000:
        return
    replay = {'kind': fmt + '-layout', 'label': label, 'input': src if len(str(src)) < 15000 else None}
    ctx.case((label, fmt + '-layout'), True, fmt + '-layout')
    ctx.compare(wop, ('ok', w[1]), ctx.model.call(wop, *wargs(src, pb[1])), replay)
    for variant, lines in (('as-written', w[1].splitlines()), ('damaged', damage_lines(w[1].splitlines(), random.Random(len(w[1]) + 7)))):
        r = impl.call(readers.read_formatted_basis_str, '\n'.join(lines) + ('\n' if variant == 'damaged' or w[1].endswith('\n') else ''), fmt)
        m = ctx.model.call(rop, lines)
        if m[0] == 'error' and 'NotImpl' in str(m[1]):
            ctx.dist[fmt + '-read:outside-modelled-fragment'] += 1
            continue
        ctx.case((label, fmt + '-read', variant), True, fmt + '-read:' + variant)
        if kind == 'whole':
            ctx.compare(rop, canon_whole(whole_shape(r)), canon_whole(norm_read(m)), dict(replay, variant=variant))
        else:
            got = r
            if r[0] == 'ok':
                got = ('ok', [[int(z) if str(z).isdigit() else z, el.get('electron_shells', [])] for z, el in r[1]['elements'].items()])
            ctx.compare(rop, norm_read(got), norm_read(m), dict(replay, variant=variant))


def cartesian_order(pb, text):
    """the order in which Python iterated the set of cartesian letters of each element, as a table from the letters in insertion
    order to the printed order (exact for any hash seed: the k-th `cartesian` line of the text belongs to the k-th element that
    has cartesian shells)"""
    from basis_set_exchange import lut
    ins = []
    for el in pb['elements'].values():
        letters = []
        for sh in el.get('electron_shells', []):
            if sh['function_type'] == 'gto_cartesian':
                for am in sh['angular_momentum']:
                    c = lut.amint_to_char([am])
                    if c not in letters:
                        letters.append(c)
        if letters:
            ins.append(letters)
    outs = [line.split()[1:] for line in text.splitlines() if line.lower().startswith('cartesian ')]
    if len(ins) != len(outs):
        return []
    tab = []
    for i, o in zip(ins, outs):
        if [i, o] not in tab and sorted(i) == sorted(o):
            tab.append([i, o])
    return tab


def molcas_layout(ctx, b, label):
    """molcas_library (whole file) and molcas (inline; the reader of the library form cannot read it) against
    coq/Model/Molcas.v + MolcasEcp.v.  Model inputs taken from the implementation: the normalised shells, the first-author and
    reference strings the library writer prints per element (its own helpers first_author / format_reference), and the
    iteration order of the set of cartesian letters (read off the written text)."""
    from basis_set_exchange import writers, readers, manip, sort, api
    from basis_set_exchange.writers import molcas_library as ml
    if ctx.model is None:
        return
    pb = impl.call(lambda x: sort.sort_basis(manip.make_general(x, False, True), False), copy.deepcopy(b))
    if pb[0] != 'ok':
        return
    els = [[int(z), el.get('electron_shells'), el.get('ecp_electrons'), el.get('ecp_potentials')] for z, el in pb[1]['elements'].items()]
    ref_data = api.get_reference_data(None)
    metas = []
    for z, el in pb[1]['elements'].items():
        try:
            ref = el['references'][-1]['reference_keys'][-1]
        except (IndexError, KeyError):
            ref = None
        a = impl.call(ml.first_author, ref, ref_data)
        f = impl.call(ml.format_reference, ref, ref_data)
        if a[0] != 'ok' or f[0] != 'ok':
            return
        metas.append([int(z), a[1], f[1]])
    bs_name = (b['names'][0] if 'names' in b else b['name']).replace(' ', '_')
    for fmt in ('molcas_library', 'molcas'):
        w = impl.call(writers.write_formatted_basis_str, copy.deepcopy(b), fmt)
        if w[0] != 'ok' or len(w[1]) > 200000:
            continue
        order = cartesian_order(pb[1], w[1])
        replay = {'kind': fmt + '-layout', 'label': label, 'input': b if len(str(b)) < 15000 else None}
        ctx.case((label, fmt + '-layout'), True, fmt + '-layout')
        if fmt == 'molcas_library':
            m = ctx.model.call('mcasl_write_all', order, bs_name, metas, els)
        else:
            m = ctx.model.call('mcas_write_all', order, els)
        ctx.compare(fmt + ':write', ('ok', w[1]), m, replay)
        for variant, lines in (('as-written', w[1].splitlines()), ('damaged', damage_lines(w[1].splitlines(), random.Random(len(w[1]) + 11)))):
            r = impl.call(readers.read_formatted_basis_str, '\n'.join(lines) + '\n', fmt)
            mr = ctx.model.call('mcas_read_all', lines)
            if mr[0] == 'error' and 'NotImpl' in str(mr[1]):
                ctx.dist[fmt + '-read:outside-modelled-fragment'] += 1
                continue
            ctx.case((label, fmt + '-read', variant), True, fmt + '-read:' + variant)
            got = canon_whole(whole_shape(r))
            want = ('error', 'any') if mr[0] != 'ok' else canon_whole(('ok', [[z, e] for z, e in mr[1][0]]))
            ctx.compare(fmt + ':read', got, want, dict(replay, variant=variant))


def vlx_layout(ctx, b, label):
    """veloxchem (coq/Model/Veloxchem.v, MD5 included): the writer byte for byte; read_veloxchem (called as
    read_formatted_basis_str calls it: on the stripped lines) on the text as written - which it refuses, the writer
    hashing the text with its line ends and the reader without -, on the same text carrying the digest the reader
    computes, and on damaged copies of that"""
    from basis_set_exchange import writers, manip
    from basis_set_exchange.readers import veloxchem as rv
    if ctx.model is None:
        return
    e = electron_only(b)
    if not e['elements']:
        return
    w = impl.call(writers.write_formatted_basis_str, copy.deepcopy(e), 'veloxchem')
    pb = impl.call(lambda x: manip.prune_basis(manip.uncontract_spdf(manip.uncontract_general(manip.optimize_general(x, True), False), 0, False), False),
                   copy.deepcopy(e))
    if w[0] != 'ok' or pb[0] != 'ok' or len(w[1]) > 60000:
        return
    replay = {'kind': 'veloxchem-layout', 'label': label, 'input': e if len(str(e)) < 15000 else None}
    ctx.case((label, 'veloxchem-layout'), True, 'veloxchem-layout')
    ctx.compare('vlx_write_electron', ('ok', w[1]), ctx.model.call('vlx_write_electron', e['name'], _els(pb[1])), replay)
    lines = [l.strip() for l in w[1].splitlines()]
    body = w[1][:w[1].rindex('\n') + 1] if '\n' in w[1] else w[1]
    d = ctx.model.call('vlx_unbroken_md5', body)
    variants = [('as-written', lines)]
    if d[0] == 'ok':
        fixed = lines[:-1] + [d[1]]
        variants += [('reader-digest', fixed), ('damaged', [l.strip() for l in damage_lines(fixed, random.Random(len(w[1]) + 13))])]
    for variant, ls in variants:
        r = impl.call(rv.read_veloxchem, list(ls))
        got = r
        if r[0] == 'ok':
            got = ('ok', [[int(z) if str(z).isdigit() else z, el.get('electron_shells', [])] for z, el in r[1].items()])
        m = ctx.model.call('vlx_read_electron', ls)
        if m[0] == 'error' and 'NotImpl' in str(m[1]):
            ctx.dist['veloxchem-read:outside-modelled-fragment'] += 1
            continue
        ctx.case((label, 'veloxchem-read', variant), True, 'veloxchem-read:' + variant)
        ctx.compare('vlx_read_electron', norm_read(got), norm_read(m), dict(replay, variant=variant))


def norm_read(r):
    if r[0] != 'ok':
        return ('error', 'any')      # the reader's error classes (RuntimeError / KeyError / IndexError ...) are not part of the property
    return r


def damage_lines(lines, rng):
    """one small damage to a written text (what a hand edit or a truncated file looks like)"""
    lines = list(lines)
    k = rng.randrange(7)
    i = rng.randrange(len(lines))
    if k == 0:
        del lines[i]
    elif k == 1:
        lines.insert(i, lines[i])
    elif k == 2:
        lines[i] = lines[i].replace('E', 'D')
    elif k == 3:
        lines[i] = lines[i] + '  0.5'
    elif k == 4:
        lines[i] = lines[i].lower()
    elif k == 5:
        lines = [l for l in lines if l.strip().upper() != 'END']
    else:
        lines[i] = '   ' + lines[i] + '   '
    return lines


def matrix_cases(ctx, rng):
    """layer (a): the matrix printer and the numeric-table parser against the extracted model"""
    from basis_set_exchange import printing
    from basis_set_exchange.readers import helpers
    if ctx.model is None:
        return
    for _ in range(ctx.budget(60, 2000)):
        nrow, ncol = rng.randint(1, 6), rng.randint(1, 5)
        cols = [[gen.fmt_num(rng, rng.randint(1, 12), rng.randint(-6, 8), neg=rng.random() < 0.3) .strip() for _ in range(nrow)] for _ in range(ncol + 1)]
        pps = [8 * i + 15 * (i - 1) for i in range(1, ncol + 2)]
        if rng.random() < 0.3:
            cols = [[rng.randint(0, 2) for _ in range(nrow)]] + cols[:2]
            pps = [0, 9, 32]
        conv = rng.random() < 0.5
        w = impl.call(printing.write_matrix, cols, pps, conv)
        ctx.case(('matrix', repr(cols), conv), True, 'matrix')
        ctx.compare('write_matrix', w, ctx.model.call('write_matrix', cols, pps, conv), {'cols': cols, 'pps': pps, 'conv': conv})
        if w[0] == 'ok' and not isinstance(cols[0][0], int):
            lines = w[1].splitlines()
            p = impl.call(helpers.parse_primitive_matrix, lines)
            got = ('ok', [p[1][0], p[1][1]]) if p[0] == 'ok' else p
            ctx.compare('parse_primitive_matrix', got, ctx.model.call('parse_primitive_matrix', lines), {'lines': lines})
            if p[0] == 'ok':
                flat = lambda m: [x.upper().replace('D', 'E') for col in m for x in col]
                if flat([p[1][0]] + p[1][1]) != flat(cols):
                    ctx.violation('readers.helpers.parse_primitive_matrix', 'matrix-roundtrip', 'the numeric table parser does not recover what write_matrix wrote', {'kind': 'matrix', 'cols': cols})
        elif w[0] == 'ok':
            lines = w[1].splitlines()
            p = impl.call(helpers.parse_ecp_table, lines)
            ctx.compare('parse_ecp_table', p, ctx.model.call('parse_ecp_table', lines), {'lines': lines})
    for s in ['1.0', '.5', '5.', '-1.0E+01', '1.0D-02', '1', 'abc', '1.0e', '+.', '.', '1.0E+1.0', '', ' 1.0', '1e5', '1.d3', '--1.0']:
        ctx.compare('is_floating', ('ok', bool(helpers.is_floating(s))), ctx.model.call('is_floating', s), {'s': s})
        ctx.compare('is_integer', ('ok', bool(helpers.is_integer(s))), ctx.model.call('is_integer', s), {'s': s})
    for n in range(0, 8):
        ctx.compare('potential_am_list', ('ok', helpers.potential_am_list(n)), ctx.model.call('potential_am_list', n), {'n': n})


def work_store(ctx, item):
    name, version = item
    r = store.get_basis(name, version)
    if r[0] != 'ok':
        ctx.dist['store-unreadable'] += 1
        return
    rng = random.Random('%s/%s/%d' % (name, version, ctx.seed // 1000))
    full = r[1]
    b = store.restrict(full, rng, 200 if ctx.thorough() else 4)
    from basis_set_exchange import compose
    b['function_types'] = compose._whole_basis_types(b)
    label = '%s/%s[%s]' % (name, version, ','.join(b['elements']))
    for fmt in rw_formats():
        roundtrip(ctx, b, fmt, label, 'store')
    nwchem_layout(ctx, b, label)
    g94_layout(ctx, b, label)
    tm_layout(ctx, b, label)
    nwchem_whole(ctx, b, label)
    g94_whole(ctx, b, label)
    for wf in WHOLE_FORMATS:
        whole_file(ctx, b, label, wf)
    lmol_layout(ctx, b, label)
    vlx_layout(ctx, b, label)
    for mf in MORE_FORMATS:
        more_format(ctx, b, label, mf)
    molcas_layout(ctx, b, label)
    if rng.random() < (1.0 if ctx.thorough() else 0.4):
        file_and_convert(ctx, b, label, rng)
    ctx.sample({'store': label, 'formats': rw_formats()})


def work_generated(ctx, seed):
    rng = random.Random(seed)
    kind = ['plain', 'high-am', 'ecp-only', 'ecp-gap', 'ecp-single'][seed % 5]
    if kind == 'high-am':
        b = gen.gen_basis(rng, nel=1, ecp_prob=0.0, ecp_only_prob=0.0, lmax=rng.randint(7, 12), allow_fused=False)
    elif kind == 'ecp-only':
        b = gen.gen_basis(rng, nel=2, ecp_prob=1.0, ecp_only_prob=1.0)
    elif kind == 'ecp-gap':
        b = gen.gen_basis(rng, nel=1, ecp_prob=0.0, ecp_only_prob=0.0, lmax=2)
        z, el = next(iter(b['elements'].items()))
        if int(z) > 10:
            pots, ne = gen.gen_ecp(rng, lmax=3, gaps=True)
            el['ecp_potentials'], el['ecp_electrons'] = pots, ne
            b['function_types'] = gen.whole_types(b['elements'])
    elif kind == 'ecp-single':
        # an ECP that consists of one potential (in NWChem: the `ul` potential only)
        b = gen.gen_basis(rng, nel=1, ecp_prob=0.0, ecp_only_prob=0.0, lmax=2)
        z, el = next(iter(b['elements'].items()))
        if int(z) > 10:
            pots, ne = gen.gen_ecp(rng, lmax=0)
            el['ecp_potentials'], el['ecp_electrons'] = pots, ne
            if rng.random() < 0.3:
                del el['electron_shells']
            b['function_types'] = gen.whole_types(b['elements'])
    else:
        b = gen.gen_basis(rng, ecp_prob=0.4)
    for fmt in rw_formats():
        roundtrip(ctx, b, fmt, 'gen:%d:%s' % (seed, kind), 'generated:' + kind)
    nwchem_layout(ctx, b, 'gen:%d:%s' % (seed, kind))
    g94_layout(ctx, b, 'gen:%d:%s' % (seed, kind))
    tm_layout(ctx, b, 'gen:%d:%s' % (seed, kind))
    nwchem_whole(ctx, b, 'gen:%d:%s' % (seed, kind))
    g94_whole(ctx, b, 'gen:%d:%s' % (seed, kind))
    for wf in WHOLE_FORMATS:
        whole_file(ctx, b, 'gen:%d:%s' % (seed, kind), wf)
    lmol_layout(ctx, b, 'gen:%d:%s' % (seed, kind))
    vlx_layout(ctx, b, 'gen:%d:%s' % (seed, kind))
    for mf in MORE_FORMATS:
        more_format(ctx, b, 'gen:%d:%s' % (seed, kind), mf)
    molcas_layout(ctx, b, 'gen:%d:%s' % (seed, kind))
    if seed % 5 == 0 and kind == 'plain':
        file_and_convert(ctx, b, 'gen:%d' % seed, rng)


def work_patho(ctx, k):
    """every labelled pathological (valid) shape - unsorted fused shells, shared and re-spelled primitives, cancelling and
    equal columns, block-general contractions ... - written and read back in every write+read format and through the modelled layouts"""
    pool = [f for f in gen.PATHOLOGICAL if f not in (gen.patho_dup_function, gen.patho_contraction_on_free)]
    f = pool[k % len(pool)]
    b = f(random.Random(ctx.seed * 37 + k))
    label = 'patho:%s:%d' % (f.__name__, k)
    for fmt in rw_formats():
        roundtrip(ctx, b, fmt, label, 'patho:' + f.__name__)
    for lay in (nwchem_layout, g94_layout, tm_layout, lmol_layout, vlx_layout, molcas_layout):
        lay(ctx, b, label)
    for wf in WHOLE_FORMATS:
        whole_file(ctx, b, label, wf)
    for mf in MORE_FORMATS:
        more_format(ctx, b, label, mf)


def run(ctx):
    ctx.rule = ('for store basis sets (element subsets) and generated dictionaries (plain, l = 7..12, ECP-only, ECP with a momentum gap, ECP of a single potential, every labelled pathological shape) x '
                'every format with both a writer and a reader: write then read back; the read-back must hold exactly the same elements, '
                'contracted functions (exact decimal values), ECP potentials and electron counts, or raise; gaussian94, nwchem (and '
                'turbomole with electron shells) must succeed; .bz2 files with extension autodetection; conversion A -> B vs direct '
                'export; the matrix printer and the numeric-table parsers are compared with the extracted model on random tables')
    ctx.trusted.append('the layout code of the crystal writer / reader pair is not modelled for the read direction (black box: write / read-back exploration compared by exact value); the other thirteen pairs are modelled (coq/Model) and compared with the code on every run')
    matrix_cases(ctx, ctx.rng)
    md = store.metadata()
    if ctx.thorough():
        pairs = store.all_pairs(md)
    else:
        names = store.sample_names(ctx.rng, 40, md)
        # one basis of every role (the role decides the section keyword of some formats)
        for role in sorted({v['role'] for v in md.values()}):
            names.append(sorted(k for k, v in md.items() if v['role'] == role)[0])
        pairs = [(n, md[n]['latest_version']) for n in names]
    store.parallel(ctx, work_store, pairs)
    store.parallel(ctx, work_generated, [ctx.seed * 67 + i for i in range(ctx.budget(60, 3000))])
    store.parallel(ctx, work_patho, list(range(len(gen.PATHOLOGICAL) * ctx.budget(1, 12))))


def replay(ctx, rec):
    r = rec.get('replay', rec)
    if r.get('input') and r.get('fmt'):
        roundtrip(ctx, r['input'], r['fmt'], 'replay', 'replay')
