"""C11 - the index, filters and role lookups agree with the data store."""
import json
import os
import random
import shutil
import tempfile

from .. import impl, store, datadir
from .c01 import norm_err


def view_of(md, keys):
    """a temporary directory with symlinks to every file of the chains of the given index keys; returns (path, files dict)"""
    tmp = tempfile.mkdtemp(prefix='vview')
    files = {}
    for k in keys:
        e = md[k]
        for ver, vi in e['versions'].items():
            files.update(datadir.chain_files(store.DATA, vi['file_relpath']))
    for rel in files:
        dst = os.path.join(tmp, rel)
        os.makedirs(os.path.dirname(dst), exist_ok=True)
        if not os.path.exists(dst):
            os.symlink(os.path.join(store.DATA, rel), dst)
    return tmp, files


def work_regen(ctx, keys):
    """regenerate the index for a group of basis sets and compare with the shipped entries and with the model"""
    from basis_set_exchange import curate
    md = store.metadata()
    # whole records: every alias of the chosen metadata files
    basekeys = set()
    for k in keys:
        e = md[k]
        same = [k2 for k2, e2 in md.items() if e2['basename'] == e['basename'] and e2['relpath'] == e['relpath']]
        basekeys.update(same)
    tmp, files = view_of(md, sorted(basekeys))
    try:
        if any(v is None for v in files.values()):
            ctx.dist['regen-skipped-zero-length'] += 1
            return
        out = os.path.join(tmp, 'METADATA.json')
        r = impl.call(curate.create_metadata_file, out, tmp)
        ctx.case(('regen', tuple(sorted(basekeys))), True, 'regenerate-store-view')
        replay = {'kind': 'regen', 'keys': sorted(basekeys)}
        if ctx.model is not None:
            got = ('ok', json.load(open(out))) if r[0] == 'ok' else r
            m = ctx.model.call('create_metadata', files)
            ctx.compare('create_metadata', norm_err(got), norm_err(m), replay)
        if r[0] != 'ok':
            ctx.violation('curate.create_metadata_file', 'raises:' + r[1], 'index regeneration raises %s on shipped data' % r[1], replay)
            return
        regen = json.load(open(out))
        if sorted(regen) != sorted(basekeys):
            ctx.violation('data/METADATA.json', 'keys', 'regenerated index has keys %s, shipped index %s' % (sorted(regen)[:5], sorted(basekeys)[:5]), replay)
            return
        for k in basekeys:
            if regen[k] != md[k]:
                diff = [f for f in set(regen[k]) | set(md[k]) if regen[k].get(f) != md[k].get(f)]
                ctx.violation('data/METADATA.json', 'entry:' + ','.join(sorted(diff)), 'index entry %s differs from the regenerated one in %s' % (k, diff), replay)
    finally:
        shutil.rmtree(tmp, ignore_errors=True)


def work_entry(ctx, key):
    """one index entry against the composed data"""
    md = store.metadata()
    e = md[key]
    bse = impl.bse()
    site = 'data/METADATA.json'
    replay = {'kind': 'entry', 'key': key}
    from basis_set_exchange import misc
    ctx.case(('entry', key), len(e['versions']) > 1 or bool(e['other_names']), 'entry-vs-data')
    if misc.transform_basis_name(e['display_name']) != key:
        ctx.violation(site, 'key', 'key %r is not the transformed display name' % key, replay)
    for o in e['other_names']:
        k2 = misc.transform_basis_name(o)
        if k2 not in md or {f: v for f, v in md[k2].items() if f not in ('display_name', 'other_names')} != \
                {f: v for f, v in e.items() if f not in ('display_name', 'other_names')}:
            ctx.violation(site, 'alias-record', 'alias %r does not map to the same record' % o, replay)
    if all(v.isdigit() for v in e['versions']) and e['latest_version'] != max(e['versions'], key=int):
        ctx.violation(site, 'latest', 'latest_version %s is not the maximum of %s' % (e['latest_version'], sorted(e['versions'])), replay)
    # listed versions are exactly the table files present
    d = os.path.join(store.DATA, e['relpath'])
    present = sorted(f.split('.')[1] for f in os.listdir(d) if f.endswith('.table.json') and f.startswith(e['basename'] + '.'))
    if present != sorted(e['versions']):
        ctx.violation(site, 'versions', 'listed versions %s, table files present %s' % (sorted(e['versions']), present), replay)
    for ver, vi in e['versions'].items():
        r = store.get_basis(key, ver)
        if r[0] != 'ok':
            ctx.dist['store-unreadable'] += 1
            continue
        b = r[1]
        if vi['elements'] != sorted(b['elements'], key=int):
            ctx.violation(site, 'elements', 'version %s: element list differs from the elements get_basis returns' % ver, replay)
        for f, g in (('function_types', 'function_types'), ('family', 'family'), ('role', 'role'), ('description', 'description'),
                     ('auxiliaries', 'auxiliaries'), ('tags', 'tags')):
            if e[f] != b[g]:
                ctx.violation(site, 'field:' + f, 'version %s: %s is %r in the index, %r in the data' % (ver, f, e[f], b[g]), replay)
        if vi['revdesc'] != b['revision_description'] or vi['revdate'] != b['revision_date']:
            ctx.violation(site, 'revision', 'version %s: revision text/date differ' % ver, replay)
    # role lookups name existing basis sets
    for role, names in e['auxiliaries'].items():
        a = impl.call(bse.lookup_basis_by_role, e['display_name'].upper(), role.upper())
        ctx.case(('role', key, role), True, 'lookup-role')
        want = [names] if isinstance(names, str) else list(names)
        if ctx.model is not None:
            ctx.compare('lookup_basis_by_role', a, ctx.model.call('lookup_basis_by_role', {key: e}, e['display_name'].upper(), role.upper()), replay)
        if a != ('ok', want):
            ctx.violation('api.lookup_basis_by_role', 'result', 'lookup_basis_by_role(%s, %s) = %s, index says %s' % (key, role, a, want), replay)
        for n in want:
            if misc.transform_basis_name(n) not in md:
                ctx.violation('api.lookup_basis_by_role', 'dangling', 'auxiliary %r of %r does not exist' % (n, key), replay)


def brute_filter(md, substr, family, role, elements):
    from basis_set_exchange import misc
    out = {}
    want = set(misc.expand_elements(elements, True)) if elements is not None else None
    for k, v in md.items():
        if family is not None and v['family'] != family.lower():
            continue
        if role is not None and v['role'] != role.lower():
            continue
        v = dict(v)
        if want is not None:
            v['versions'] = {ver: vi for ver, vi in v['versions'].items() if want <= set(vi['elements'])}
            if not v['versions']:
                continue
        if substr and substr.lower() not in v['display_name'].lower():
            continue
        out[k] = v
    return out


def work_filters(ctx, seed):
    rng = random.Random(seed)
    bse = impl.bse()
    md = store.metadata()
    fams = sorted({v['family'] for v in md.values()})
    roles = sorted(bse.get_roles())
    names = [v['display_name'] for v in md.values()]
    for _ in range(12):
        nm = rng.choice(names)
        i = rng.randrange(len(nm))
        substr = rng.choice([None, None, '', nm[i:i + rng.randint(1, 5)], nm[i:i + rng.randint(1, 4)].upper(), rng.choice(['*', '/', 't', 's', '_', 'sl', '31G*', '(', ' ', 'zz9']),
                             nm.swapcase()[:6]])
        family = rng.choice([None, None, rng.choice(fams), rng.choice(fams).upper(), 'nosuchfamily'])
        role = rng.choice([None, None, rng.choice(roles), rng.choice(roles).upper(), 'nosuchrole'])
        elements = rng.choice([None, None, [1], 'H-Ne', ['C', 8, '17'], [rng.randint(1, 110)], 'La-Lu', [], '1-2-3'])
        a = impl.call(bse.filter_basis_sets, substr, family, role, elements)
        ctx.case(('filter', substr, family, role, repr(elements)), sum(x is not None for x in (substr, family, role, elements)) >= 2, 'filter')
        replay = {'kind': 'filter', 'substr': substr, 'family': family, 'role': role, 'elements': elements}
        ctx.sample(replay)
        if ctx.model is not None and seed % 3 == 0:
            ctx.compare('filter_basis_sets', a, ctx.model.call('filter_basis_sets', md, substr, family, role, elements), replay,
                        canon=lambda d: {k: v for k, v in d.items()})
        bad = (family is not None and family.lower() not in fams) or (role is not None and role.lower() not in roles) or elements == '1-2-3'
        if bad:
            if a[0] == 'ok':
                ctx.violation('api.filter_basis_sets', 'invalid-accepted', 'invalid family/role/elements accepted', replay)
            continue
        if a[0] != 'ok':
            ctx.violation('api.filter_basis_sets', 'raises:' + a[1], 'valid filter raises %s' % a[1], replay)
            continue
        want = brute_filter(md, substr, family, role, elements)
        if a[1] != want:
            extra = sorted(set(a[1]) - set(want))[:3]
            missing = sorted(set(want) - set(a[1]))[:3]
            fp = 'substr' if substr else 'criteria'
            ctx.violation('api.filter_basis_sets', fp, 'filter(%r,%r,%r,%r): extra %s missing %s' % (substr, family, role, elements, extra, missing), replay)


def work_version_elements(ctx, key):
    """filter by an element that only some versions of an entry define: the entry stays, with exactly those versions"""
    bse = impl.bse()
    md = store.metadata()
    e = md[key]
    allz = set().union(*[set(vi['elements']) for vi in e['versions'].values()])
    for z in sorted(allz, key=int):
        have = [ver for ver, vi in e['versions'].items() if z in vi['elements']]
        if len(have) == len(e['versions']):
            continue
        a = impl.call(bse.filter_basis_sets, None, None, None, [int(z)])
        ctx.case(('filter-version-elements', key, z), True, 'filter:version-dependent-element')
        replay = {'kind': 'filter', 'substr': None, 'family': None, 'role': None, 'elements': [int(z)]}
        if a[0] != 'ok' or key not in a[1] or sorted(a[1][key]['versions']) != sorted(have):
            got = sorted(a[1][key]['versions']) if a[0] == 'ok' and key in a[1] else None
            ctx.violation('api.filter_basis_sets', 'version-dependent-element', 'filter(elements=[%s]): entry %r comes back with versions %s, versions defining the element are %s'
                          % (z, key, got, sorted(have)), replay)
        break       # one element per entry is enough


def work_generated(ctx, seed):
    rng = random.Random(seed)
    from basis_set_exchange import curate
    gd = datadir.GenDir(rng, inconsistent=[None, None, None, 'missing-file'][seed % 4])
    try:
        files = datadir.whole_dir(gd.path)
        out = os.path.join(gd.path, 'METADATA.json')
        r = impl.call(curate.create_metadata_file, out, gd.path)
        ctx.case(('gen-index', seed), True, 'regenerate-generated')
        got = ('ok', json.load(open(out))) if r[0] == 'ok' else r
        replay = {'kind': 'generated', 'seed': seed}
        if ctx.model is not None:
            ctx.compare('create_metadata', norm_err(got), norm_err(ctx.model.call('create_metadata', files)), replay)
        if r[0] == 'ok':
            idx = got[1]
            for b in gd.bases:
                for nm in b['names']:
                    from basis_set_exchange import misc
                    k = misc.transform_basis_name(nm)
                    if k not in idx or sorted(idx[k]['versions']) != sorted(b['versions']):
                        ctx.violation('curate.create_metadata_file', 'generated-versions', 'generated basis %r: versions %s not indexed' % (nm, b['versions']), replay)
                        continue
                    # the listed table file is the file that is there, and its elements are the listed ones
                    for ver, vi in idx[k]['versions'].items():
                        want = os.path.join(b['sub'], '%s.%s.table.json' % (b['basename'], ver)) if b['sub'] else '%s.%s.table.json' % (b['basename'], ver)
                        if vi['file_relpath'] != want or not os.path.isfile(os.path.join(gd.path, vi['file_relpath'])):
                            ctx.violation('curate.create_metadata_file', 'generated-file_relpath', 'generated basis %r version %s: the index lists table file %r, the file present is %r'
                                          % (nm, ver, vi['file_relpath'], want), replay)
                        elif sorted(vi['elements'], key=int) != [str(z) for z in sorted(b['elements'])]:
                            ctx.violation('curate.create_metadata_file', 'generated-elements', 'generated basis %r version %s: listed elements %s, data has %s'
                                          % (nm, ver, vi['elements'], b['elements']), replay)
                    if idx[k].get('relpath', '') != b['sub'] or idx[k].get('basename') != b['basename']:
                        ctx.violation('curate.create_metadata_file', 'generated-relpath', 'generated basis %r: relpath/basename %r/%r, files are under %r/%r'
                                      % (nm, idx[k].get('relpath'), idx[k].get('basename'), b['sub'], b['basename']), replay)
    finally:
        gd.cleanup()


def run(ctx):
    ctx.rule = ('(i) create_metadata_file on symlink views of groups of store basis sets vs the shipped METADATA.json entries and vs the '
                'extracted model create_metadata; (ii) every sampled index entry against get_basis (versions, elements, types, family, role, '
                'description, auxiliaries, aliases, latest) and role lookups; (iii) filter_basis_sets on combinations drawn from the store '
                'vocabulary plus non-matching / invalid values vs the model and a brute-force filter; (iv) index generation on generated '
                'directories vs the model. Non-trivial: multi-version or aliased entries, filters with >= 2 criteria')
    md = store.metadata()
    bse = impl.bse()
    keys = sorted(md)
    # enumeration
    a = impl.call(bse.get_all_basis_names)
    ctx.case(('names', ), True, 'enumerate')
    if a != ('ok', sorted(v['display_name'] for v in md.values())):
        ctx.violation('api.get_all_basis_names', 'enumerate', 'get_all_basis_names does not enumerate the index', {'kind': 'plain'})
    f = impl.call(bse.get_families)
    ctx.case(('families', ), True, 'enumerate')
    if f != ('ok', sorted({v['family'] for v in md.values()})):
        ctx.violation('api.get_families', 'enumerate', 'get_families does not enumerate the index families', {'kind': 'plain'})
    if ctx.model is not None:
        ctx.compare('get_all_basis_names', a, ctx.model.call('get_all_basis_names', md), {})
        ctx.compare('get_families', f, ctx.model.call('get_families', md), {})
    sample = keys if ctx.thorough() else store.sample_names(ctx.rng, 80, md)
    groups = [sample[i:i + 6] for i in range(0, len(sample), 6)]
    if not ctx.thorough():
        groups = groups[:8]
    store.parallel(ctx, work_regen, groups)
    store.parallel(ctx, work_entry, sample)
    store.parallel(ctx, work_filters, [ctx.seed * 31 + i for i in range(ctx.budget(14, 400))])
    uneven = [k for k, e in md.items() if len({frozenset(vi['elements']) for vi in e['versions'].values()}) > 1]
    store.parallel(ctx, work_version_elements, uneven if ctx.thorough() else ctx.rng.sample(uneven, min(12, len(uneven))))
    store.parallel(ctx, work_generated, [ctx.seed * 17 + i for i in range(ctx.budget(40, 1500))])


def replay(ctx, rec):
    r = rec.get('replay', rec)
    if r.get('kind') == 'entry':
        work_entry(ctx, r['key'])
    elif r.get('kind') == 'regen':
        work_regen(ctx, r['keys'])
    elif r.get('kind') == 'generated':
        work_generated(ctx, r['seed'])
    elif r.get('kind') == 'filter':
        bse = impl.bse()
        a = impl.call(bse.filter_basis_sets, r['substr'], r['family'], r['role'], r['elements'])
        want = brute_filter(store.metadata(), r['substr'], r['family'], r['role'], r['elements'])
        ctx.case(('replay', ), True, 'replay')
        if a != ('ok', want):
            ctx.violation('api.filter_basis_sets', 'replay', 'replayed filter still differs from the brute-force result', r)
