"""C08 - every basis handed out is well-formed."""
import itertools

from .. import impl, store, gen, oracle
from .c02 import nontrivial

FLAGS = ['uncontract_general', 'uncontract_spdf', 'uncontract_segmented', 'remove_free_primitives', 'make_general', 'optimize_general']


def shapes(plain):
    """structural features of the input that known findings are keyed on"""
    f = set()
    for el in plain['elements'].values():
        seen = {}
        for sh in el.get('electron_shells', []):
            am = sh['angular_momentum']
            if len(am) > 1 and max(am) >= 2:
                f.add('fused-l>=2')
            if len(am) > 1:
                singles = [sum(1 for c in col if oracle.dec(c) != 0) == 1 for col in sh['coefficients']]
                if any(singles) and not all(singles):
                    f.add('mixed-fused')
            for l in am:
                for x in sh['exponents']:
                    k = (l, oracle.dec(x))
                    if k in seen and seen[k] is not sh:
                        f.add('shared-exponent')
                    seen[k] = sh
    return f


def fingerprint(flags, aug, problems, plain):
    """structural fingerprint of a failing (input, options) pair"""
    sh = shapes(plain)
    p = problems[0]
    if 'uncontract_segmented' in flags and 'make_general' in flags and 'shared-exponent' in sh and 'uplicate' in p:
        return 'unc_seg+make_general:shared-exponent:duplicate-contraction'
    if ('uncontract_spdf' in flags or 'make_general' in flags or 'optimize_general' in flags) and 'fused-l>=2' in sh and 'marked' in p.lower():
        return 'spdf-split:fused-l>=2:function_type'
    if 'remove_free_primitives' in flags and 'mixed-fused' in sh:
        return 'remove_free:mixed-fused'
    kind = 'other'
    for key in ('uplicate', 'unused', 'all-zero', 'all = 0.0', 'marked', 'function_types', 'momenta', 'combined AM', 'raises'):
        if key in p:
            kind = key
            break
    return 'flags=%s:aug=%s:%s' % ('+'.join(sorted(flags)) or 'none', aug, kind)


def check_one(ctx, name, version, elements, plain, flags, aug, data_dir=None):
    bse = impl.bse()
    from basis_set_exchange import validator
    kw = {f: True for f in flags}
    if aug[0]:
        kw['augment_diffuse'] = aug[0]
    if aug[1]:
        kw['augment_steep'] = aug[1]
    r = impl.call(bse.get_basis, name, version=version, elements=elements, data_dir=data_dir, **kw)
    ctx.case((name, version, tuple(elements or ()), tuple(flags), aug), bool(flags) or aug != (0, 0), 'get_basis')
    ctx.dist['nflags=%d' % len(flags)] += 1
    replay = {'kind': 'flags', 'name': name, 'version': version, 'elements': elements, 'flags': list(flags), 'aug': list(aug)}
    site = 'api.get_basis'
    if ctx.model is not None and aug == (0, 0):
        ctx.compare('get_basis_options', r, ctx.model.call('get_basis_options', plain, kw), replay)
    if r[0] != 'ok':
        # augmentation may refuse (equal outermost exponents); optimize_general may refuse duplicate free primitives
        if r[1] == 'RuntimeError' and (aug != (0, 0) or 'optimize_general' in flags):
            ctx.dist['documented-refusal'] += 1
            return
        ctx.violation(site, fingerprint(flags, aug, ['raises ' + r[1]], plain), 'get_basis(%s) raises %s' % (kw, r[1]), replay)
        return
    out = r[1]
    problems = []
    checked = out
    if 'remove_free_primitives' in flags:
        # "the same holds for every element that keeps at least one function"
        kept = {z: el for z, el in out['elements'].items() if el.get('electron_shells') or 'electron_shells' not in el}
        if not kept:
            ctx.dist['remove_free-left-nothing'] += 1
            return
        checked = dict(out, elements=kept)
        from basis_set_exchange import compose
        if len(kept) != len(out['elements']):
            checked['function_types'] = compose._whole_basis_types(checked)
            if oracle.wellformed_problems(dict(out, elements=kept)) and not oracle.wellformed_problems(checked):
                pass  # function_types of the full dictionary legitimately also names types of emptied elements
    v = impl.call(validator.validate_data, 'complete', checked)
    if v[0] != 'ok':
        try:
            validator.validate_data('complete', checked)
        except Exception as e:  # noqa
            problems.append('validator: ' + str(e)[:200])
    problems.extend(oracle.wellformed_problems(checked))
    if problems:
        ctx.violation(site, fingerprint(flags, aug, problems, plain),
                      'get_basis(%s, elements=%s, %s) is not well-formed: %s' % (name, elements, kw, problems[0]), replay)


def combos(ctx, full):
    out = []
    for k in range(0, 7):
        for sub in itertools.combinations(FLAGS, k):
            out.append(sub)
    if full:
        return [(c, a) for c in out for a in ((0, 0), (1, 0), (0, 1), (2, 0), (1, 2))]
    res = [(c, (0, 0)) for c in out]
    for c in out:
        if ctx.rng.random() < 0.35:
            res.append((c, ctx.rng.choice([(1, 0), (0, 1), (2, 0), (0, 2), (1, 1)])))
    return res


def work_store(ctx, item):
    name, version, part, nparts = item
    import random
    ctx.rng = random.Random('%s/%s/%d' % (name, version, ctx.seed // 1000))
    r = store.get_basis(name, version)
    if r[0] != 'ok':
        ctx.dist['store-unreadable'] += 1
        return
    full = r[1]
    nmax = 200 if ctx.thorough() else 2
    b = store.restrict(full, ctx.rng, nmax)
    elements = list(b['elements'])
    p = store.get_basis(name, version, elements=elements)
    if p[0] != 'ok':
        return
    plain = p[1]
    ctx.sample({'store': '%s/%s' % (name, version), 'elements': elements, 'combinations': '64 flag subsets + sampled augmentation'})
    allc = combos(ctx, ctx.thorough())
    for flags, aug in allc[part::nparts]:
        if aug != (0, 0) and plain.get('role') != 'orbital':
            continue
        check_one(ctx, name, version, elements, plain, flags, aug)


def work_generated(ctx, seed):
    """generated dictionaries pushed through the manip functions directly, then validated"""
    import copy
    import random
    from basis_set_exchange import manip, sort, validator
    rng = random.Random(seed)
    b = gen.gen_basis(rng) if seed % 5 else rng.choice([f for f in gen.PATHOLOGICAL if f not in (gen.patho_dup_function, gen.patho_contraction_on_free)])(rng)
    ops = [('remove_free_primitives', ()), ('uncontract_general', ()), ('uncontract_spdf', (0, )), ('uncontract_segmented', ()), ('make_general', ()),
           ('optimize_general', ()), ('prune_basis', ()), ('sort_basis', ())]
    chain = [rng.choice(ops) for _ in range(rng.randint(1, 4))]
    if any(o == 'uncontract_segmented' for o, _ in chain) and any(o == 'make_general' for o, _ in chain):
        shp = shapes(b)
    cur = copy.deepcopy(b)
    for op, args in chain:
        f = getattr(sort, op) if op == 'sort_basis' else getattr(manip, op)
        r = impl.call(f, cur, *args)
        if r[0] != 'ok':
            ctx.dist['chain-raises:%s:%s' % (op, r[1])] += 1
            return
        cur = r[1]
    pr = impl.call(manip.prune_basis, cur)
    if pr[0] != 'ok':
        ctx.dist['chain-raises:final-prune:%s' % pr[1]] += 1
        return
    cur = pr[1]
    ctx.case((seed, tuple(chain)), True, 'generated-chain')
    from basis_set_exchange import compose
    if any(o == 'remove_free_primitives' for o, _ in chain):
        # "with remove_free_primitives the same holds for every element that keeps at least one function"
        for z in [z for z, el in cur['elements'].items() if el.get('electron_shells') == [] and 'ecp_potentials' not in el]:
            del cur['elements'][z]
        for el in cur['elements'].values():
            if el.get('electron_shells') == []:
                del el['electron_shells']
        if not cur['elements']:
            return
    cur['function_types'] = compose._whole_basis_types(cur)
    problems = oracle.wellformed_problems(cur)
    v = impl.call(validator.validate_data, 'complete', cur)
    if v[0] != 'ok' and not problems:
        problems.append('validator rejects')
    if problems:
        flags = {o for o, _ in chain}
        ctx.violation('manip.chain', fingerprint(flags, (0, 0), problems, b), 'chain %s + prune_basis on a valid generated basis is not well-formed: %s'
                      % ([o for o, _ in chain], problems[0]), {'kind': 'chain', 'input': b, 'chain': [[o, list(a)] for o, a in chain]})


OPS1 = [('remove_free_primitives', ()), ('uncontract_general', ()), ('uncontract_spdf', (0, )), ('uncontract_spdf', (1, )), ('uncontract_segmented', ()),
        ('make_general', ()), ('optimize_general', ()), ('prune_basis', ()), ('sort_basis', ())]


def work_patho_each(ctx, k):
    """every labelled pathological (valid) shape through every single operation (+ prune_basis), then validated"""
    import copy
    import random
    from basis_set_exchange import manip, sort, validator, compose
    pool = [f for f in gen.PATHOLOGICAL if f not in (gen.patho_dup_function, gen.patho_contraction_on_free)]
    f = pool[(k // len(OPS1)) % len(pool)]
    op, args = OPS1[k % len(OPS1)]
    b = f(random.Random(ctx.seed * 41 + k))
    fn = getattr(sort, op) if op == 'sort_basis' else getattr(manip, op)
    r = impl.call(fn, copy.deepcopy(b), *args)
    if r[0] == 'ok':
        r = impl.call(manip.prune_basis, r[1])
    if r[0] != 'ok':
        ctx.dist['patho-raises:%s:%s:%s' % (f.__name__, op, r[1])] += 1
        return
    cur = r[1]
    ctx.case((f.__name__, op, args), True, 'patho-each:' + op)
    if op == 'remove_free_primitives':
        for z in [z for z, el in cur['elements'].items() if el.get('electron_shells') == [] and 'ecp_potentials' not in el]:
            del cur['elements'][z]
        for el in cur['elements'].values():
            if el.get('electron_shells') == []:
                del el['electron_shells']
        if not cur['elements']:
            return
    cur['function_types'] = compose._whole_basis_types(cur)
    problems = oracle.wellformed_problems(cur)
    v = impl.call(validator.validate_data, 'complete', cur)
    if v[0] != 'ok' and not problems:
        problems.append('validator rejects')
    if problems:
        ctx.violation('manip.' + op, fingerprint({op}, (0, 0), problems, b), '%s + prune_basis on the valid shape %s is not well-formed: %s'
                      % (op, f.__name__, problems[0]), {'kind': 'chain', 'input': b, 'chain': [[op, list(args)]]})


def run(ctx):
    ctx.rule = ('get_basis on store basis/versions with every subset of the six contraction flags (64) and sampled (thorough: five) '
                'augmentation settings, each output checked by validate_data("complete") and by an independent restatement of the '
                'rules; for augmentation-free combinations the output is also compared exactly with the extracted model of the '
                'translated option pipeline (coq/Gen/GenApi.v); plus generated dictionaries through chains of direct manip calls. '
                'Non-trivial = at least one option set')
    md = store.metadata()
    if ctx.thorough():
        pairs = store.all_pairs(md)
    else:
        pairs = [(n, md[n]['latest_version']) for n in store.sample_names(ctx.rng, 34, md)]
    nparts = 4
    items = [(n, v, k, nparts) for (n, v) in pairs for k in range(nparts)]
    ctx.rng.shuffle(items)
    store.parallel(ctx, work_store, items)
    store.parallel(ctx, work_generated, [ctx.seed * 100043 + i for i in range(ctx.budget(300, 20000))])
    store.parallel(ctx, work_patho_each, list(range(len(gen.PATHOLOGICAL) * len(OPS1) * ctx.budget(1, 4))))


def replay(ctx, rec):
    r = rec.get('replay', rec)
    if r.get('kind') == 'flags':
        p = store.get_basis(r['name'], r['version'], elements=r.get('elements'))
        if p[0] == 'ok':
            check_one(ctx, r['name'], r['version'], r.get('elements'), p[1], tuple(r['flags']), tuple(r.get('aug', (0, 0))))
