"""C15 - a bundle is exactly the API output for everything the format supports."""
import io
import json
import os
import random
import shutil
import tarfile
import tempfile
import zipfile

from .. import impl, store, datadir


def read_archive(path):
    members = []
    if path.endswith('.zip'):
        with zipfile.ZipFile(path) as z:
            for n in z.namelist():
                members.append((n, z.read(n).decode('utf-8')))
    else:
        with tarfile.open(path, 'r:bz2') as t:
            for m in t.getmembers():
                members.append((m.name, t.extractfile(m).read().decode('utf-8')))
    return members


def sub_directory(rng, nbasis):
    """a data directory holding a sample of store basis sets (symlinks), with its own index, notes and references"""
    md = store.metadata()
    keys = rng.sample(sorted(md), nbasis) + ['sto-3g', 'def2-ecp', 'cc-pvdz', 'midix']       # midix: one set of files under two names (MIDI!, MIDIX)
    base = set()
    for k in keys:
        e = md[k]
        base.update(k2 for k2, e2 in md.items() if e2['basename'] == e['basename'] and e2['relpath'] == e['relpath'])
    tmp = tempfile.mkdtemp(prefix='vbundle')
    index = {}
    for k in sorted(base):
        e = md[k]
        skip = False
        files = {}
        for ver, vi in e['versions'].items():
            files.update(datadir.chain_files(store.DATA, vi['file_relpath']))
        if any(v is None for v in files.values()):
            continue        # a basis with a zero-length file in this sandbox
        for rel in files:
            dst = os.path.join(tmp, rel)
            os.makedirs(os.path.dirname(dst), exist_ok=True)
            if not os.path.exists(dst):
                os.symlink(os.path.join(store.DATA, rel), dst)
        index[k] = e
        for extra in (e['basename'] + '.notes', 'NOTES.' + e['family']):
            src = os.path.join(store.DATA, extra)
            if os.path.isfile(src) and not os.path.exists(os.path.join(tmp, extra)):
                os.symlink(src, os.path.join(tmp, extra))
    # further versions (2 and 4) of one basis: the same table under another version number.  File extensions that contain
    # a digit (.d2k, .c4bas) meet a version with that digit only here
    import copy
    for k in ('sto-3g', ):
        if k in index:
            e = copy.deepcopy(index[k])
            v1 = e['versions'][e['latest_version']]
            for nv in ('2', '4'):
                rel = os.path.join(e['relpath'], '%s.%s.table.json' % (e['basename'], nv))
                if not os.path.exists(os.path.join(tmp, rel)):
                    os.symlink(os.path.join(store.DATA, v1['file_relpath']), os.path.join(tmp, rel))
                e['versions'][nv] = dict(v1, file_relpath=rel)
            e['latest_version'] = '4'
            for k2 in [k2 for k2, e2 in index.items() if e2['basename'] == e['basename'] and e2['relpath'] == e['relpath']]:
                index[k2] = dict(e, display_name=index[k2]['display_name'], other_names=index[k2]['other_names'])
    with open(os.path.join(tmp, 'METADATA.json'), 'w') as f:
        json.dump(index, f)
    os.symlink(os.path.join(store.DATA, 'REFERENCES.json'), os.path.join(tmp, 'REFERENCES.json'))
    return tmp, index


def check_bundle(ctx, d, index, fmt, reffmt, atype, label):
    bse = impl.bse()
    from basis_set_exchange import bundle, writers, refconverters, misc
    ext = {'zip': '.zip', 'tbz': '.tar.bz2'}[atype]
    out = os.path.join(tempfile.gettempdir(), 'vb_%d_%s%s' % (os.getpid(), label.replace('/', '_'), ext))
    if (len(label) + len(fmt)) % 2:
        # the output path already holds an archive (an earlier bundle): the new bundle replaces it - nothing of it survives
        if atype == 'zip':
            import zipfile
            with zipfile.ZipFile(out, 'w') as z:
                z.writestr('basis_set_bundle-old/STALE.txt', 'stale')
                z.writestr('basis_set_bundle-%s-%s/README.txt' % (fmt, reffmt), 'stale readme')
        else:
            import io
            import tarfile
            with tarfile.open(out, 'w:bz2') as t:
                ti = tarfile.TarInfo('basis_set_bundle-old/STALE.txt')
                ti.size = 5
                t.addfile(ti, io.BytesIO(b'stale'))
        ctx.dist['bundle-over-existing-archive'] += 1
    r = impl.call(bundle.create_bundle, out, fmt, reffmt, None, d)
    ctx.case((label, fmt, reffmt, atype), True, 'bundle:%s:%s' % (fmt, atype))
    replay = {'kind': 'bundle', 'label': label, 'fmt': fmt, 'reffmt': reffmt, 'archive': atype, 'keys': sorted(index)}
    site = 'bundle.create_bundle'
    try:
        if r[0] != 'ok':
            ctx.violation(site, 'raises:%s:%s' % (r[1], fmt), 'create_bundle(%s, %s, %s) raises %s' % (fmt, reffmt, atype, r[1]), replay)
            return
        members = read_archive(out)
    finally:
        if os.path.exists(out):
            os.unlink(out)
    names = [n for n, _ in members]
    if len(names) != len(set(names)):
        ctx.violation(site, 'duplicate-member', 'the archive has two members of the same name', replay)
    subdir = 'basis_set_bundle-%s-%s' % (fmt, reffmt)
    bext = writers.get_format_extension(fmt)
    rext = refconverters.get_format_extension(reffmt)
    # expected, from direct API calls
    expected = {}
    items = []
    valid = writers.write._writer_map[fmt]['valid']
    for k, e in index.items():
        if valid is not None and not set(e['function_types']) <= valid:
            continue
        vers = []
        for ver in e['versions']:
            b = impl.call(bse.get_basis, k, fmt=fmt, version=ver, data_dir=d)
            rf = impl.call(bse.get_references, k, fmt=reffmt, version=ver, data_dir=d)
            if b[0] == 'ok' and rf[0] == 'ok':
                fn = misc.basis_name_to_filename(k)
                expected['%s/%s.%s%s' % (subdir, fn, ver, bext)] = b[1]
                expected['%s/%s.%s.ref%s' % (subdir, fn, ver, rext)] = rf[1]
                vers.append([ver, b[1], rf[1]])
        notes = impl.call(bse.get_basis_notes, k, d)
        notes = notes[1] if notes[0] == 'ok' else ''
        if notes:
            expected['%s/%s.notes' % (subdir, misc.basis_name_to_filename(k))] = notes
        items.append({'name': k, 'versions': vers, 'notes': notes})
    fams = []
    for fam in bse.get_families(d):
        fnotes = impl.call(bse.get_family_notes, fam, d)
        fnotes = fnotes[1] if fnotes[0] == 'ok' else ''
        fams.append([fam, fnotes])
        if fnotes:
            expected['%s/%s.family_notes' % (subdir, fam)] = fnotes
    got = dict(members)
    readme = subdir + '/README.txt'
    if readme not in got:
        ctx.violation(site, 'no-readme', 'the archive has no README', replay)
    if ctx.model is not None and sum(len(v) for v in got.values()) < 3_000_000:
        m = ctx.model.call('bundle_members', fmt, reffmt, bext, rext, got.get(readme, ''), items, fams)
        ctx.compare('bundle_members', ('ok', [[a, b] for a, b in members]), m, replay)
    extra = sorted(set(got) - set(expected) - {readme})
    missing = sorted(set(expected) - set(got))
    if extra:
        ctx.violation(site, 'extra-member', 'the archive has members the API does not account for: %s' % extra[:3], replay)
    if missing:
        ctx.violation(site, 'missing-member', 'the archive lacks members: %s' % missing[:3], replay)
    for n in set(got) & set(expected):
        if got[n] != expected[n]:
            ctx.violation(site, 'content:' + ('notes' if n.endswith('notes') else 'ref' if '.ref' in n else 'basis'),
                          'member %s differs from the direct API output' % n, replay)
            break
    # file names map back to basis names
    for n in got:
        bn = os.path.basename(n)
        if bn.endswith(bext) and '.ref' not in bn and not bn.endswith('notes'):
            stem = bn[:-len(bext)].rsplit('.', 1)[0]
            if misc.basis_name_from_filename(stem) not in {e['display_name'].lower() for e in index.values()}:
                ctx.violation(site, 'filename', 'member %s does not map back to a basis name' % n, replay)
                break
    ctx.sample({'bundle': label, 'fmt': fmt, 'reffmt': reffmt, 'archive': atype, 'members': len(members)})


def work(ctx, seed):
    rng = random.Random(seed)
    from basis_set_exchange import writers, refconverters
    d, index = sub_directory(rng, 3 if not ctx.thorough() else 12)
    try:
        fmts = list(writers.get_writer_formats())
        reffmts = list(refconverters.get_reference_formats())
        picks = [(rng.choice(fmts), rng.choice(reffmts), rng.choice(['zip', 'tbz'])) for _ in range(3 if not ctx.thorough() else 10)]
        picks.append(('molcas_library', 'ris', 'zip') if seed % 3 == 0 else ('veloxchem', 'bib', 'tbz') if seed % 3 == 1 else ('fhiaims', 'txt', 'zip'))
        picks.append(('demon2k', 'json', 'tbz') if seed % 2 == 0 else ('cfour', 'endnote', 'zip'))     # extensions containing a digit
        for fmt, reffmt, atype in picks:
            check_bundle(ctx, d, index, fmt, reffmt, atype, 'store-sample:%d' % seed)
    finally:
        shutil.rmtree(d, ignore_errors=True)


def work_fakedata(ctx, fmt):
    d = os.path.join(store.DATA, '..', 'tests', 'fakedata')
    d = os.path.normpath(d)
    if not os.path.isdir(d):
        return
    with open(os.path.join(d, 'METADATA.json')) as f:
        index = json.load(f)
    for reffmt, atype in (('bib', 'zip'), ('ris', 'tbz')):
        check_bundle(ctx, d, index, fmt, reffmt, atype, 'fakedata')


def run(ctx):
    ctx.rule = ('create_bundle (zip and tar.bz2) over data directories holding samples of store basis sets (always including an spd-shell, '
                'an ECP-only and an ordinary basis) and over the test-suite\'s fake directory, for random writer x reference formats plus '
                'formats that refuse some basis sets: member list and contents vs direct get_basis / get_references / notes calls '
                '(exactly one basis and one reference file per expressible name/version, notes, family notes, README, nothing else), '
                'file names mapping back to basis names, and the whole member list compared with the extracted model bundle_members')
    ctx.trusted.append('zipfile / tarfile / bz2 (the archive is read back with the same libraries)')
    from basis_set_exchange import writers
    store.parallel(ctx, work, [ctx.seed * 7 + i for i in range(ctx.budget(6, 60))])
    fmts = list(writers.get_writer_formats())
    store.parallel(ctx, work_fakedata, fmts if ctx.thorough() else ctx.rng.sample(fmts, 8) + ['molcas_library'])


def replay(ctx, rec):
    r = rec.get('replay', rec)
    if r.get('label', '').startswith('store-sample:'):
        work(ctx, int(r['label'].split(':')[1]))
    else:
        work_fakedata(ctx, r.get('fmt', 'nwchem'))
