"""C18 - the validator accepts exactly the well-formed basis data."""
import copy
import json
import os
import random

from .. import impl, store, gen


def to_kind(b, kind):
    """a generated complete dictionary re-shaped into a 'component' or 'minimal' one"""
    b = copy.deepcopy(b)
    if kind == 'complete':
        return b
    if kind == 'minimal':
        out = {'molssi_bse_schema': {'schema_type': 'minimal', 'schema_version': '0.1'}, 'name': b['name'],
               'description': b['description'], 'function_types': b['function_types'], 'elements': {}}
        for z, el in b['elements'].items():
            out['elements'][z] = {k: v for k, v in el.items() if k != 'references'}
        return out
    out = {'molssi_bse_schema': {'schema_type': 'component', 'schema_version': '0.1'}, 'description': b['description'],
           'data_source': 'generated', 'elements': {}}
    for z, el in b['elements'].items():
        e = {k: v for k, v in el.items() if k != 'references'}
        e['references'] = ['key%s' % z]
        out['elements'][z] = e
    return out


def shells_of(b):
    return [(z, i, sh) for z, el in b['elements'].items() for i, sh in enumerate(el.get('electron_shells', []))]


def pots_of(b):
    return [(z, i, p) for z, el in b['elements'].items() for i, p in enumerate(el.get('ecp_potentials', []))]


# ---- the catalogue: name -> function(b, rng) -> True when applied.  Every one breaks exactly one documented rule.
def m_no_elements(b, rng):
    b['elements'] = {}
    return True


def m_negative_exp(b, rng):
    s = shells_of(b)
    if not s:
        return False
    sh = rng.choice(s)[2]
    i = rng.randrange(len(sh['exponents']))
    sh['exponents'][i] = rng.choice(['-', '-']) + sh['exponents'][i].strip()
    return True


def m_zero_exp(b, rng):
    s = shells_of(b)
    if not s:
        return False
    sh = rng.choice(s)[2]
    sh['exponents'][rng.randrange(len(sh['exponents']))] = rng.choice(['0.0', '0.000E+00'])
    return True


def m_dup_exp(b, rng):
    s = [x for x in shells_of(b) if len(x[2]['exponents']) >= 2]
    if not s:
        return False
    sh = rng.choice(s)[2]
    i, j = rng.sample(range(len(sh['exponents'])), 2)
    sh['exponents'][i] = gen.renotate(rng, sh['exponents'][j])
    return True


def m_short_row(b, rng):
    s = [x for x in shells_of(b) if len(x[2]['exponents']) >= 2]
    if not s:
        return False
    sh = rng.choice(s)[2]
    rng.choice(sh['coefficients']).pop()
    return True


def m_long_row(b, rng):
    s = shells_of(b)
    if not s:
        return False
    rng.choice(rng.choice(s)[2]['coefficients']).append('0.5')
    return True


def m_zero_column(b, rng):
    s = shells_of(b)
    if not s:
        return False
    sh = rng.choice(s)[2]
    k = rng.randrange(len(sh['coefficients']))
    sh['coefficients'][k] = [rng.choice(gen.ZERO_FORMS) for _ in sh['exponents']]
    return True


def m_unused_primitive(b, rng):
    s = [x for x in shells_of(b) if len(x[2]['exponents']) >= 2]
    if not s:
        return False
    sh = rng.choice(s)[2]
    i = rng.randrange(len(sh['exponents']))
    for col in sh['coefficients']:
        col[i] = rng.choice(gen.ZERO_FORMS)
    if any(all(oracle_zero(c) for c in col) for col in sh['coefficients']):
        return False    # would also make a zero column: not a single-rule mutation
    return True


def oracle_zero(s):
    from decimal import Decimal
    return Decimal(s.strip()) == 0


def m_dup_column(b, rng):
    s = [x for x in shells_of(b) if len(x[2]['angular_momentum']) == 1]
    if not s:
        return False
    sh = rng.choice(s)[2]
    col = rng.choice(sh['coefficients'])
    sh['coefficients'].append([gen.renotate(rng, c) for c in col])
    return True


def m_fused_count(b, rng):
    s = [x for x in shells_of(b) if len(x[2]['angular_momentum']) > 1]
    if not s:
        return False
    sh = rng.choice(s)[2]
    if rng.random() < 0.5 and len(sh['coefficients']) > 1:
        sh['coefficients'].pop()
    else:
        sh['coefficients'].append(list(sh['coefficients'][0]))
    return True


def m_tag_missing(b, rng):
    s = [x for x in shells_of(b) if max(x[2]['angular_momentum']) > 1]
    if not s:
        return False
    rng.choice(s)[2]['function_type'] = 'gto'
    return True


def m_tag_extra(b, rng):
    s = [x for x in shells_of(b) if max(x[2]['angular_momentum']) <= 1]
    if not s:
        return False
    rng.choice(s)[2]['function_type'] = rng.choice(['gto_spherical', 'gto_cartesian'])
    return True


def m_ecp_fused(b, rng):
    p = pots_of(b)
    if not p:
        return False
    pot = rng.choice(p)[2]
    pot['angular_momentum'] = [pot['angular_momentum'][0], pot['angular_momentum'][0] + 7]
    return True


def m_ecp_dup_am(b, rng):
    p = [z for z, el in b['elements'].items() if len(el.get('ecp_potentials', [])) >= 2]
    if not p:
        return False
    pots = b['elements'][rng.choice(p)]['ecp_potentials']
    pots[0]['angular_momentum'] = list(pots[1]['angular_momentum'])
    return True


def m_ecp_dup_am_other_type(b, rng):
    """the same momentum twice, once as a scalar and once as a spin-orbit potential: still twice"""
    p = [z for z, el in b['elements'].items() if len(el.get('ecp_potentials', [])) >= 1]
    if not p:
        return False
    pots = b['elements'][rng.choice(p)]['ecp_potentials']
    extra = copy.deepcopy(rng.choice(pots))
    extra['ecp_type'] = 'spinorbit_ecp' if extra['ecp_type'] == 'scalar_ecp' else 'scalar_ecp'
    pots.append(extra)
    if 'function_types' in b:
        b['function_types'] = sorted(set(b['function_types']) | {extra['ecp_type']})
    return True


def m_ecp_len_gexp(b, rng):
    p = pots_of(b)
    if not p:
        return False
    rng.choice(p)[2]['gaussian_exponents'].append('1.5')
    return True


def m_ecp_len_coef(b, rng):
    p = pots_of(b)
    if not p:
        return False
    rng.choice(p)[2]['coefficients'][0].append('0.25')
    return True


def m_ecp_no_electrons(b, rng):
    z = [z for z, el in b['elements'].items() if 'ecp_potentials' in el]
    if not z:
        return False
    del b['elements'][rng.choice(z)]['ecp_electrons']
    return True


def m_ecp_zero_electrons(b, rng):
    z = [z for z, el in b['elements'].items() if 'ecp_potentials' in el]
    if not z:
        return False
    b['elements'][rng.choice(z)]['ecp_electrons'] = 0
    return True


def m_ecp_zero_column(b, rng):
    p = [x for x in pots_of(b) if len(x[2]['r_exponents']) > 1]
    if not p:
        return False
    pot = rng.choice(p)[2]
    pot['coefficients'][0] = ['0.0' for _ in pot['r_exponents']]
    return True


def _one_term_zero(pot):
    pot['r_exponents'] = pot['r_exponents'][:1]
    pot['gaussian_exponents'] = pot['gaussian_exponents'][:1]
    pot['coefficients'] = [['0.0'] for _ in pot['coefficients']][:1]


def m_ecp_placeholder_not_highest(b, rng):
    """a one-term potential with a zero coefficient is a placeholder only for the highest angular momentum"""
    zs = [z for z, el in b['elements'].items() if len(el.get('ecp_potentials', [])) >= 2]
    if not zs:
        return False
    pots = b['elements'][rng.choice(zs)]['ecp_potentials']
    top = max(p['angular_momentum'] for p in pots)
    _one_term_zero(rng.choice([p for p in pots if p['angular_momentum'] != top]))
    return True


def m_ecp_zero_row(b, rng):
    """a term whose coefficient is zero in a potential of several terms"""
    p = [x for x in pots_of(b) if len(x[2]['r_exponents']) > 1 and len(x[2]['coefficients']) == 1]
    if not p:
        return False
    pot = rng.choice(p)[2]
    pot['coefficients'][0][rng.randrange(len(pot['r_exponents']))] = '0.0'
    return True


def v_ecp_placeholder_highest(b, rng):
    """VALID variation: the highest angular momentum may be a one-term placeholder with a zero coefficient"""
    zs = [z for z, el in b['elements'].items() if len(el.get('ecp_potentials', [])) >= 1]
    if not zs:
        return False
    pots = b['elements'][rng.choice(zs)]['ecp_potentials']
    top = max(p['angular_momentum'] for p in pots)
    _one_term_zero([p for p in pots if p['angular_momentum'] == top][0])
    return True


def v_sto(b, rng):
    """VALID variation: the schema's fourth function type - an s, p or sp shell of Slater-type functions"""
    s = [sh for _z, _i, sh in shells_of(b) if max(sh['angular_momentum']) <= 1]
    if not s:
        return False
    rng.choice(s)['function_type'] = 'sto'
    if 'function_types' in b:
        b['function_types'] = sorted(set(b['function_types']) | {'sto'})
    return True


# schema-shape mutations
def m_missing_key(b, rng):
    s = shells_of(b)
    if not s:
        return False
    del rng.choice(s)[2][rng.choice(['function_type', 'region', 'angular_momentum', 'exponents', 'coefficients'])]
    return True


def m_extra_key(b, rng):
    where = rng.randrange(3)
    if where == 0:
        b['surprise'] = 1
    elif where == 1:
        b['elements'][rng.choice(list(b['elements']))]['surprise'] = []
    else:
        s = shells_of(b)
        if not s:
            return False
        rng.choice(s)[2]['surprise'] = 'x'
    return True


def m_number_not_string(b, rng):
    s = shells_of(b)
    if not s:
        return False
    sh = rng.choice(s)[2]
    sh['exponents'][0] = 1
    return True


def m_am_negative(b, rng):
    s = shells_of(b)
    if not s:
        return False
    rng.choice(s)[2]['angular_momentum'] = [-1]
    return True


def m_am_repeated(b, rng):
    s = [x for x in shells_of(b) if len(x[2]['angular_momentum']) > 1]
    if not s:
        return False
    sh = rng.choice(s)[2]
    sh['angular_momentum'] = [sh['angular_momentum'][0]] * len(sh['angular_momentum'])
    return True


def m_bad_function_type(b, rng):
    s = shells_of(b)
    if not s:
        return False
    rng.choice(s)[2]['function_type'] = 'gaussian'
    return True


def m_bad_element_key(b, rng):
    z = rng.choice(list(b['elements']))
    b['elements'][rng.choice(['H', 'x1', z + 'a', z + '.5', z + ':ghost', ' ' + z, z + ' '])] = b['elements'].pop(z)       # element keys are digit strings, nothing else
    return True


def m_empty_shell_list(b, rng):
    z = [z for z, el in b['elements'].items() if 'electron_shells' in el]
    if not z:
        return False
    b['elements'][rng.choice(z)]['electron_shells'] = []
    return True


def m_empty_exponents(b, rng):
    s = shells_of(b)
    if not s:
        return False
    sh = rng.choice(s)[2]
    sh['exponents'] = []
    sh['coefficients'] = [[]]
    return True


def m_name_not_in_names(b, rng):
    if 'names' not in b:
        return False
    b['name'] = b['name'] + '-other'
    return True


def m_bad_role(b, rng):
    if 'role' not in b:
        return False
    b['role'] = 'principal'
    return True


def m_bad_auxiliary_role(b, rng):
    """schema shape: the keys of 'auxiliaries' are restricted to the known roles (propertyNames, a draft-06 keyword)"""
    if not isinstance(b.get('auxiliaries'), dict):
        return False
    b['auxiliaries'][rng.choice(['orbital', 'JKFIT', 'fit', ''])] = 'some-basis'
    return True


def m_missing_top(b, rng):
    from basis_set_exchange import validator
    kind = b['molssi_bse_schema']['schema_type']
    required = validator._get_schema(kind)[0]['required']
    del b[rng.choice([k for k in b if k in required])]
    return True


CATALOGUE = [m_no_elements, m_negative_exp, m_zero_exp, m_dup_exp, m_short_row, m_long_row, m_zero_column, m_unused_primitive,
             m_dup_column, m_fused_count, m_tag_missing, m_tag_extra, m_ecp_fused, m_ecp_dup_am, m_ecp_dup_am_other_type, m_ecp_len_gexp, m_ecp_len_coef,
             m_ecp_no_electrons, m_ecp_zero_electrons, m_ecp_zero_column, m_ecp_placeholder_not_highest, m_ecp_zero_row, m_missing_key, m_extra_key, m_number_not_string,
             m_am_negative, m_am_repeated, m_bad_function_type, m_bad_element_key, m_empty_shell_list, m_empty_exponents,
             m_name_not_in_names, m_bad_role, m_bad_auxiliary_role, m_missing_top]


def verdict(r):
    if r[0] == 'ok':
        return ('ok', None)
    c = r[1]
    if c.startswith('Other:ValidationError') or c == 'Validation':
        return ('error', 'Validation')
    return ('error', c)


def check(ctx, kind, data, expect_ok, label, mutation=None):
    from basis_set_exchange import validator
    r = impl.call(validator.validate_data, kind, copy.deepcopy(data))
    v = verdict(r)
    ctx.case((label, kind, mutation), mutation is not None, 'valid:' + kind if mutation is None else 'mutant:' + mutation)
    replay = {'kind': 'validate', 'file_type': kind, 'mutation': mutation, 'data': data if len(str(data)) < 15000 else None, 'label': label}
    if ctx.model is not None:
        m = ctx.model.call('validate_data', kind, data)
        ctx.compare('validate_data', v, verdict(m), replay)
        # the schema interpreter against the jsonschema library on the same JSON
        import jsonschema
        schema, resolver = validator._get_schema(kind)
        try:
            jsonschema.validate(data, schema, resolver=resolver)
            lib = True
        except jsonschema.ValidationError:
            lib = False
        ctx.compare('check_schema', ('ok', lib), ctx.model.call('check_schema', kind, data), replay)
    if expect_ok and v[0] != 'ok':
        ctx.violation('validator.validate_data', 'valid-rejected:' + kind, 'a valid %s dictionary is rejected (%s)' % (kind, v[1]), replay)
    if not expect_ok and v[0] == 'ok':
        ctx.violation('validator.validate_data', 'mutant-accepted:' + str(mutation), 'a %s dictionary violating one rule (%s) is accepted' % (kind, mutation), replay)


def work_generated(ctx, seed):
    rng = random.Random(seed)
    base = gen.gen_basis(rng, nel=rng.randint(1, 2), ecp_prob=0.6)
    for kind in ('complete', 'component', 'minimal'):
        b = to_kind(base, kind)
        check(ctx, kind, b, True, 'gen:%d' % seed)
        v = copy.deepcopy(b)
        if v_ecp_placeholder_highest(v, rng):
            check(ctx, kind, v, True, 'gen:%d:placeholder' % seed)
        v = copy.deepcopy(b)
        if v_sto(v, rng):
            check(ctx, kind, v, True, 'gen:%d:sto' % seed)
        muts = CATALOGUE if ctx.thorough() or ctx.boost else rng.sample(CATALOGUE, 12)
        for mut in muts:
            for _rep in range(3 if ctx.thorough() else 1):
                m = copy.deepcopy(b)
                if not mut(m, rng):
                    ctx.dist['mutation-not-applicable'] += 1
                    break
                check(ctx, kind, m, False, 'gen:%d' % seed, mut.__name__[2:])
    if seed % 30 == 0:
        ctx.sample({'generated_seed': seed, 'kinds': ['complete', 'component', 'minimal'], 'mutations': [m.__name__[2:] for m in CATALOGUE[:6]] + ['...']})


def work_store(ctx, item):
    name, version = item
    r = store.get_basis(name, version)
    if r[0] != 'ok':
        ctx.dist['store-unreadable'] += 1
        return
    b = store.restrict(r[1], ctx.rng, 200 if ctx.thorough() else 6)
    check(ctx, 'complete', b, True, 'store:%s/%s' % (name, version))
    rng = random.Random('%s%s' % (name, ctx.seed))
    for mut in rng.sample(CATALOGUE, 3):
        m = copy.deepcopy(b)
        if mut(m, rng):
            check(ctx, 'complete', m, False, 'store:%s/%s' % (name, version), mut.__name__[2:])
    # the raw component files of its chain
    from .. import datadir
    md = store.metadata()
    files = datadir.chain_files(store.DATA, md[name]['versions'][version]['file_relpath'])
    for rel, js in list(files.items())[:4]:
        if isinstance(js, dict):
            kind = js.get('molssi_bse_schema', {}).get('schema_type')
            if kind in ('component', 'element', 'table', 'metadata'):
                check(ctx, kind, js, True, 'file:' + rel)


def run(ctx):
    ctx.rule = ('generated valid complete / component / minimal dictionaries (must be accepted) and %d single-rule mutation classes applied at '
                'random positions (must be rejected); store data and raw store files (must be accepted); verdict and error class compared '
                'with the extracted model validate_data, and the schema interpreter check_schema compared with the jsonschema library on '
                'the same JSON. Non-trivial = a mutated input' % len(CATALOGUE))
    ctx.trusted.append('the jsonschema library is the reference semantics of the schema subset in use (type, required, properties, additionalProperties, patternProperties, propertyNames, items, minItems, uniqueItems, enum, minimum, pattern, anyOf); it is compared with the Gallina interpreter on every case')
    ctx.assumptions.append("number strings are decimal (float() accepts 'nan'/'inf'/'1_0': outside the model, reported by the probe below)")
    from basis_set_exchange import validator
    # probe, informational: non-decimal number strings
    probe = gen.gen_basis(random.Random(1), nel=1)
    sh = shells_of(probe)
    if sh:
        sh[0][2]['exponents'][0] = 'nan'
        ctx.extra['nan_exponent_verdict'] = verdict(impl.call(validator.validate_data, 'complete', probe))[0]
    md = store.metadata()
    if ctx.thorough():
        pairs = store.all_pairs(md)
    else:
        pairs = [(n, md[n]['latest_version']) for n in store.sample_names(ctx.rng, 40, md)]
    store.parallel(ctx, work_store, pairs)
    store.parallel(ctx, work_generated, [ctx.seed * 211 + i for i in range(ctx.budget(60, 600))])


def replay(ctx, rec):
    r = rec.get('replay', rec)
    if r.get('data') is not None:
        check(ctx, r['file_type'], r['data'], r.get('mutation') is None, 'replay', r.get('mutation'))
