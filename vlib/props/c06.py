"""C06 - caching is invisible: results do not depend on call history, aliasing or threads."""
import copy
import inspect
import itertools
import os
import pickle
import random
import subprocess
import sys
import threading

from .. import impl, paths, store

REF_SERVER = r'''
import sys, pickle, os
sys.path.insert(0, %r)
import basis_set_exchange as bse
from basis_set_exchange import memo, api, compose
memo.memoize_enabled = False
def resolve(name):
    mod, fn = name.rsplit('.', 1)
    return getattr({'api': api, 'compose': compose, 'bse': bse}[mod], fn)
inp, out = sys.stdin.buffer, sys.stdout.buffer
while True:
    try:
        req = pickle.load(inp)
    except EOFError:
        break
    name, args, kw = req
    try:
        r = ('ok', resolve(name)(*args, **kw))
    except Exception as e:
        r = ('error', type(e).__name__)
    pickle.dump(r, out); out.flush()
'''


class Reference:
    """a separate process with memoisation disabled; restarted regularly so that it is 'fresh'"""

    def __init__(self):
        self.p = None
        self.n = 0

    def _start(self):
        self.p = subprocess.Popen([paths.PY, '-c', REF_SERVER % paths.REPO], stdin=subprocess.PIPE, stdout=subprocess.PIPE,
                                  env=dict(os.environ, PYTHONHASHSEED='0'))
        self.n = 0

    def call(self, name, args, kw):
        if self.p is None or self.n > 150:
            self.close()
            self._start()
        self.n += 1
        pickle.dump((name, args, kw), self.p.stdin)
        self.p.stdin.flush()
        return pickle.load(self.p.stdout)

    def close(self):
        if self.p is not None:
            try:
                self.p.stdin.close()
                self.p.wait(timeout=10)
            except Exception:
                self.p.kill()
            self.p = None


def resolve(name):
    bse = impl.bse()
    from basis_set_exchange import api, compose
    mod, fn = name.rsplit('.', 1)
    return getattr({'api': api, 'compose': compose, 'bse': bse}[mod], fn)


def norm(r):
    if r[0] == 'error':
        return ('error', r[1].split(':')[-1])
    return r


def local_call(name, args, kw):
    try:
        return ('ok', resolve(name)(*args, **kw))
    except Exception as e:  # noqa
        return ('error', type(e).__name__)


def mutate(obj, rng, depth=0):
    """arbitrary in-place damage to a previously returned object"""
    if isinstance(obj, dict) and obj:
        k = rng.choice(list(obj))
        c = rng.randrange(4)
        if c == 0:
            del obj[k]
        elif c == 1:
            obj['__mutated__'] = 'x'
        elif c == 2 or depth > 4:
            obj[k] = 'MUTATED'
        else:
            if not mutate(obj[k], rng, depth + 1):
                obj[k] = None
        return True
    if isinstance(obj, list) and obj:
        c = rng.randrange(3)
        if c == 0:
            obj.pop()
        elif c == 1:
            obj.append('MUTATED')
        else:
            i = rng.randrange(len(obj))
            if not mutate(obj[i], rng, depth + 1):
                obj[i] = 'MUTATED'
        return True
    return False


def mutate_all(obj, depth=0):
    """damage in every container of a returned object (anything it shares with the library's own state is hit)"""
    if isinstance(obj, dict):
        for v in list(obj.values()):
            mutate_all(v, depth + 1)
        obj['__mutated__'] = depth
    elif isinstance(obj, list):
        for v in obj:
            mutate_all(v, depth + 1)
        obj.append('MUTATED')
    elif isinstance(obj, tuple):
        for v in obj:               # a tuple cannot be edited, what it holds can (get_references returns (key, entry) pairs)
            mutate_all(v, depth + 1)


NAMES = ['6-31G', 'cc-pVDZ', 'def2-SVP', 'STO-3G', 'LANL2DZ', 'aug-cc-pVDZ', 'pcseg-0']
FAMS = ['pople', 'dunning', 'ahlrichs', 'sto', 'jensen']
FLAGS = ['uncontract_general', 'uncontract_spdf', 'uncontract_segmented', 'make_general', 'optimize_general', 'remove_free_primitives']


def random_call(rng, kind=None):
    """a call on the public / memoised API with a random argument spelling"""
    dd = os.path.join(paths.REPO, 'basis_set_exchange', 'data')
    # the same directory under several spellings: each spelling is a different argument, hence a cold key (a cache miss)
    ddv = rng.choice([None, dd, dd, dd + '/', dd + '//', dd + '/.'])
    c = rng.randrange(13) if kind is None else kind
    if c <= 3:
        kw = {f: True for f in FLAGS if rng.random() < 0.25}
        if rng.random() < 0.5:
            kw['elements'] = rng.choice([[1, 6], 'H-C', ['c', 8], [8], None, '1,6-8'])
        if rng.random() < 0.2:
            kw['augment_diffuse'] = 1
        if rng.random() < 0.3:
            kw['fmt'] = rng.choice(['nwchem', 'gaussian94', 'json', 'psi4'])
        if rng.random() < 0.3:
            kw['data_dir'] = ddv
        nm = rng.choice(NAMES)
        nm = rng.choice([nm, nm.lower(), nm.upper()])
        return ('bse.get_basis', (nm, ), kw)
    if c == 4:
        shape = rng.randrange(4)
        return ('bse.get_metadata', [(), (None, ), (), (dd, )][shape], [{}, {}, {'data_dir': ddv}, {}][shape])
    if c == 5:
        return ('bse.get_reference_data', () if rng.random() < 0.5 else (ddv, ), {})
    if c == 6:
        return ('bse.get_families', (), {} if rng.random() < 0.5 else {'data_dir': ddv})
    if c == 7:
        fam = rng.choice(FAMS + ['nosuchfam'])
        shape = rng.randrange(4)
        return ('bse.get_family_notes', [(fam, ), (fam, ddv), (), (fam, )][shape], [{}, {}, {'family': fam, 'data_dir': ddv}, {'data_dir': ddv}][shape])
    if c == 8:
        nm = rng.choice(NAMES + ['nosuchbasis'])
        shape = rng.randrange(3)
        return ('bse.get_basis_notes', [(nm, ), (), (nm, ddv)][shape], [{}, {'name': nm}, {}][shape])
    if c == 9:
        kw = {}
        if rng.random() < 0.5:
            kw['family'] = rng.choice(FAMS)
        if rng.random() < 0.5:
            kw['substr'] = rng.choice(['pV', '31', 'def2'])
        if rng.random() < 0.4:
            kw['elements'] = rng.choice([[1], ['Kr'], 'Na-Ar'])
        if rng.random() < 0.3:
            kw['role'] = 'orbital'
        return ('bse.filter_basis_sets', (), kw)
    if c == 10:
        nm = rng.choice(NAMES)
        kw = {'elements': rng.choice([None, [1], [6, 8]])}
        if rng.random() < 0.5:
            kw['fmt'] = rng.choice(['bib', 'txt', 'json'])
        return ('bse.get_references', (nm, ), kw)
    if c == 12:
        # the argument-free tables of the public API (roles, formats, ...): whatever they return is the caller's to edit
        return ('bse.' + rng.choice(['get_roles', 'get_formats', 'get_reference_formats', 'get_reader_formats', 'get_writer_formats', 'get_archive_types',
                                      'get_all_basis_names']), (), {})
    md = store.metadata()
    e = md[rng.choice(['6-31g', 'cc-pvdz', 'sto-3g'])]
    rel = e['versions'][e['latest_version']]['file_relpath']
    shape = rng.randrange(3)
    return ('compose.compose_table_basis', [(rel, dd), (rel, ), ()][shape], [{}, {'data_dir': dd}, {'file_relpath': rel, 'data_dir': dd}][shape])


def history(ctx, seed, ref):
    from basis_set_exchange import memo
    rng = random.Random(seed)
    n = rng.randint(8, 40)
    returned = []
    ops = []
    hit_after_change = False
    seen_calls = set()
    changed = False
    try:
        for i in range(n):
            c = rng.random()
            if c < 0.12:
                memo.memoize_enabled = not memo.memoize_enabled
                ops.append(('toggle', memo.memoize_enabled))
                changed = True
                continue
            if c < 0.3 and returned:
                if rng.random() < 0.4:
                    mutate_all(returned[-1])
                    ops.append(('mutate-all-of-last-result', ))
                else:
                    mutate(rng.choice(returned), rng)
                    ops.append(('mutate', ))
                changed = True
                continue
            name, args, kw = random_call(rng)
            if rng.random() < 0.3 and ops:
                prev = [o for o in ops if o[0] == 'call']
                if prev:
                    _, name, args, kw = rng.choice(prev)     # repeat an earlier call (a cache hit)
            ops.append(('call', name, args, kw))
            key = repr((name, args, sorted(kw.items())))
            if key in seen_calls and changed:
                hit_after_change = True
            seen_calls.add(key)
            got = norm(local_call(name, copy.deepcopy(args), copy.deepcopy(kw)))
            want = norm(ref.call(name, args, kw))
            if got[0] == 'ok' and isinstance(got[1], (dict, list)):
                returned.append(got[1])
            if got != want:
                ctx.violation('memo.BSEMemoize', 'history', 'call %s%s %s returns something else than a fresh uncached process after a history of %d operations'
                              % (name, args, kw, len(ops)), {'kind': 'history', 'seed': seed, 'ops': ops[-12:], 'failing_call': [name, list(args), kw]})
                break
    finally:
        memo.memoize_enabled = True
    ctx.case(('history', seed), hit_after_change, 'history')
    if seed % 10 == 0:
        ctx.sample({'history_seed': seed, 'ops': [o if o[0] != 'call' else ['call', o[1], list(o[2]), o[3]] for o in ops[:8]]})


def two_dirs(ctx, seed):
    """two data directories that use the same basis file names and the same reference keys for different contents, queried
    alternately in this process: every answer must be what a fresh process that only ever saw that directory returns"""
    from .. import datadir
    from basis_set_exchange import curate
    rng = random.Random(seed)
    gds = [datadir.GenDir(random.Random(seed * 2 + k), nbasis=2) for k in (1, 2)]
    refs = [Reference(), Reference()]
    try:
        for gd in gds:
            if impl.call(curate.create_metadata_file, os.path.join(gd.path, 'METADATA.json'), gd.path)[0] != 'ok':
                return
        calls = []
        for k, gd in enumerate(gds):
            for b in gd.bases:
                nm = b['names'][0]
                calls += [(k, 'bse.get_references', (nm, ), {'fmt': f, 'data_dir': gd.path}) for f in ('txt', 'bib', None)]
                calls += [(k, 'bse.get_basis', (nm, ), {'data_dir': gd.path}), (k, 'bse.get_basis', (nm, ), {'data_dir': gd.path, 'fmt': 'nwchem', 'header': True}),
                          (k, 'bse.get_basis_notes', (nm, ), {'data_dir': gd.path}), (k, 'bse.get_basis_family', (nm, ), {'data_dir': gd.path})]
            calls += [(k, 'bse.get_metadata', (), {'data_dir': gd.path}), (k, 'bse.get_reference_data', (gd.path, ), {}),
                      (k, 'bse.get_families', (), {'data_dir': gd.path}), (k, 'bse.get_family_notes', ('famA'.lower(), gd.path), {})]
        rng.shuffle(calls)
        for k, name, args, kw in calls + calls[:len(calls) // 2]:
            got = norm(local_call(name, copy.deepcopy(args), copy.deepcopy(kw)))
            want = norm(refs[k].call(name, args, kw))
            ctx.case(('two-dirs', seed, k, name, repr(args), repr(sorted(kw.items(), key=str))), True, 'two-dirs:' + name)
            if got != want:
                ctx.violation('memo.BSEMemoize', 'two-directories', 'with two data directories queried alternately, %s%s %s returns something else than a process that only saw that directory'
                              % (name, args, {a: b for a, b in kw.items() if a != 'data_dir'}), {'kind': 'two-dirs', 'seed': seed})
                break
    finally:
        for r in refs:
            r.close()
        for gd in gds:
            gd.cleanup()


def preemption_points(ctx, ref):
    """systematic preemption of one memoised call: thread A is suspended at each source line of BSEMemoize.__call__ in turn (with
    sys.settrace, nothing is patched) while thread B issues a burst of several hundred other calls of the same memoised function
    (all cache misses: fresh spellings of the data directory); A then resumes.  For a cold and for a warm entry, A's answer must
    be what an uncached process returns, whatever B did to the cache in between"""
    from basis_set_exchange import memo, api
    code = memo.BSEMemoize.__call__.__code__
    lines = sorted({ln for _a, _b, ln in code.co_lines() if ln})
    dd = os.path.join(paths.REPO, 'basis_set_exchange', 'data')
    want = norm(ref.call('bse.has_family_notes', ('pople', dd), {}))
    serial = [0]
    for line in lines:
        for warm in (False, True):
            serial[0] += 1
            mine = dd + '/' * (3 + serial[0])             # a spelling of its own for every experiment: cold unless warmed here
            if warm:
                api.has_family_notes('pople', mine)
            go, done, out, fired = threading.Event(), threading.Event(), [], [False]

            def burst():
                go.wait(20)
                for k in range(320):
                    api.has_family_notes('pople', dd + '/.' * (2 + k) + '/' * serial[0])
                done.set()

            def local(frame, event, arg):
                if event == 'line' and frame.f_lineno == line and not fired[0]:
                    fired[0] = True
                    go.set()
                    done.wait(60)
                return local

            def tracer(frame, event, arg):
                return local if frame.f_code is code else None

            def a_thread():
                sys.settrace(tracer)
                try:
                    out.append(norm(impl.call(api.has_family_notes, 'pople', mine)))
                finally:
                    sys.settrace(None)
            tb, ta = threading.Thread(target=burst), threading.Thread(target=a_thread)
            tb.start()
            ta.start()
            ta.join(120)
            go.set()
            tb.join(120)
            ctx.case(('preempt', line, warm), True, 'preemption-point:' + ('warm' if warm else 'cold'))
            if not out or out[0] != want:
                ctx.violation('memo.BSEMemoize', 'preemption', 'a memoised call suspended at line %d of BSEMemoize.__call__ (%s entry) while 320 other calls missed the cache returns %s, an uncached process %s'
                              % (line, 'warm' if warm else 'cold', out[0] if out else 'nothing', want), {'kind': 'preemption', 'line': line, 'warm': warm})


def binding_shapes(ctx):
    """all positional / keyword / default binding shapes of every memoised signature: _make_key vs the model vs Python's
    own binding (inspect.signature.bind)"""
    from basis_set_exchange import memo, api, compose
    if ctx.model is not None:
        sigs = ctx.model.call('memoised_signatures')[1]
    else:
        sigs = {}
    found = {}
    for modname, mod in (('api', api), ('compose', compose)):
        for nm, obj in vars(mod).items():
            if isinstance(obj, memo.BSEMemoize):
                found[modname + '.' + nm] = obj
    if ctx.model is not None and sorted(found) != sorted(sigs):
        ctx.compare('memoised functions', ('ok', sorted(found)), ('ok', sorted(sigs)), {})
    vals = [None, 'a', 'B', 0]
    for fname, obj in sorted(found.items()):
        spec = obj.args_spec
        params = list(spec.args)
        sig = inspect.signature(obj.__wrapped__)
        if ctx.model is not None and fname in sigs:
            ctx.compare('signature ' + fname, ('ok', [params, list(spec.defaults or ())]), ('ok', sigs[fname]), {})
        for npos in range(0, len(params) + 2):
            for kwnames in itertools.chain.from_iterable(itertools.combinations(params + ['bogus'], k) for k in range(0, len(params) + 2)):
                args = tuple(vals[(i + len(kwnames)) % len(vals)] for i in range(npos))
                kw = {k: vals[(j + 2) % len(vals)] for j, k in enumerate(kwnames)}
                try:
                    key = memo._make_key(spec, *args, **kw)
                    got = ('ok', None if key is None else pickle.loads(key))
                except Exception as e:  # noqa
                    got = ('error', impl.err_class(e))
                try:
                    ba = sig.bind(*args, **kw)
                    ba.apply_defaults()
                    bound = [ba.arguments[p] for p in params]
                except TypeError:
                    bound = None
                ctx.case(('shape', fname, npos, kwnames), npos > 0 and len(kwnames) > 0, 'binding-shape')
                replay = {'kind': 'shape', 'function': fname, 'args': list(args), 'kwargs': kw}
                if ctx.model is not None:
                    ctx.compare('make_key', got, ctx.model.call('make_key', [params, list(spec.defaults or ())], list(args), kw), replay)
                    ctx.compare('bind_call', ('ok', bound), ctx.model.call('bind_call', [params, list(spec.defaults or ())], list(args), kw), replay)
                # oracle: a key is produced exactly for valid bindings and equals the bound values
                if got[0] == 'ok' and got[1] is not None and got[1] != bound:
                    fp = 'invalid-call-keyed' if bound is None else 'wrong-key'
                    ctx.violation('memo._make_key', fp, '%s%s %s: key %s but Python binds %s' % (fname, args, kw, got[1], bound), replay)
                if bound is not None and (got[0] != 'ok' or got[1] is None):
                    ctx.violation('memo._make_key', 'valid-call-not-keyed', '%s%s %s: valid call gets no key (%s): spellings of one binding do not share a result' % (fname, args, kw, got), replay)


def threads(ctx, seed, ref, nthreads):
    rng = random.Random(seed)
    calls = [random_call(rng) for _ in range(nthreads * 3)]
    calls = [c for c in calls if c[0] != 'bse.filter_basis_sets' or True]
    want = [norm(ref.call(*c)) for c in calls]
    got = [None] * len(calls)
    from basis_set_exchange import memo

    def worker(i):
        for j in range(i, len(calls), nthreads):
            n, a, k = calls[j]
            got[j] = norm(local_call(n, copy.deepcopy(a), copy.deepcopy(k)))
            if j % 5 == 0:
                memo.memoize_enabled = not memo.memoize_enabled

    ts = [threading.Thread(target=worker, args=(i, )) for i in range(nthreads)]
    for t in ts:
        t.start()
    for t in ts:
        t.join()
    memo.memoize_enabled = True
    ctx.case(('threads', seed, nthreads), True, 'threads-%d' % nthreads)
    for j, (g, w) in enumerate(zip(got, want)):
        if g != w:
            ctx.violation('memo.BSEMemoize', 'threads', 'with %d threads call %s returns something else than an uncached process' % (nthreads, calls[j][:2]),
                          {'kind': 'threads', 'seed': seed, 'nthreads': nthreads})
            break


def poison(ctx, seed, ref):
    """call, damage every container of the result, then call the same function with OTHER arguments (a cache miss that may
    share library-internal state with the damaged object) and the first call again: both must be what an uncached process
    returns"""
    rng = random.Random(seed)
    kind = [0, 4, 5, 6, 9, 10, 10, 10, 11, 12, 12][seed % 11]       # the functions that return containers; get_references three times, the tables twice
    c1 = random_call(rng, kind)
    if kind in (0, 10):
        c1[2].pop('fmt', None)                              # a dictionary / list result, not text
    if kind in (4, 5, 6) and seed % 2:
        # a spelling of the data directory no call has used before: the first call is a cache miss for certain (what the
        # caller of a miss holds must not be the cache entry either)
        dd = os.path.join(paths.REPO, 'basis_set_exchange', 'data') + '/.' * (2 + seed % 97)
        c1 = (c1[0], (), {'data_dir': dd})
    for _ in range(40):
        c2 = random_call(rng, kind)
        if (c2[0], c2[1], c2[2]) != (c1[0], c1[1], c1[2]):
            break
    else:
        return
    r1 = local_call(c1[0], copy.deepcopy(c1[1]), copy.deepcopy(c1[2]))
    if r1[0] != 'ok' or not isinstance(r1[1], (dict, list)):
        return
    mutate_all(r1[1])
    ctx.case(('poison', seed), True, 'poison:' + c1[0])
    for c in (c2, c1):
        got = norm(local_call(c[0], copy.deepcopy(c[1]), copy.deepcopy(c[2])))
        want = norm(ref.call(*c))
        if got != want:
            ctx.violation('memo.BSEMemoize', 'poison', 'after every container of the result of %s%s %s was edited, the call %s%s %s returns something else than an uncached process'
                          % (c1[0], c1[1], c1[2], c[0], c[1], c[2]), {'kind': 'poison', 'seed': seed})
            break


def cold_threads(ctx, seed, nthreads):
    """threads that all miss the cache of the SAME memoised function with DIFFERENT arguments at the same time; afterwards
    every key is queried again and compared with the uncached function.  Cold keys without touching the cache: the data
    directory spelled with trailing slashes (a different argument, the same directory)."""
    from basis_set_exchange import memo, compose, api
    rng = random.Random(seed)
    dd = os.path.join(paths.REPO, 'basis_set_exchange', 'data')
    md = store.metadata()
    names = rng.sample(sorted(md), nthreads * 4)
    variant = dd + '/' * (1 + seed % 1000) + '.' * (seed % 2)
    jobs = []
    for n in names:
        e = md[n]
        jobs.append(('compose.compose_table_basis', (e['versions'][e['latest_version']]['file_relpath'], variant)))
    fams = sorted({e['family'] for e in md.values()})
    jobs += [('bse.get_family_notes', (f, variant)) for f in rng.sample(fams, min(len(fams), nthreads))]
    jobs += [('bse.get_basis_notes', (n, variant)) for n in names[:nthreads]]
    rng.shuffle(jobs)
    memo.memoize_enabled = True
    barrier = threading.Barrier(nthreads)

    def worker(i):
        barrier.wait()
        for j in range(i, len(jobs), nthreads):
            local_call(jobs[j][0], jobs[j][1], {})

    ts = [threading.Thread(target=worker, args=(i, )) for i in range(nthreads)]
    for t in ts:
        t.start()
    for t in ts:
        t.join()
    ctx.case(('cold-threads', seed, nthreads), True, 'cold-threads-%d' % nthreads)
    for n, a in jobs:
        cached = norm(local_call(n, a, {}))
        memo.memoize_enabled = False
        try:
            plain = norm(local_call(n, a, {}))
        finally:
            memo.memoize_enabled = True
        if cached != plain:
            ctx.violation('memo.BSEMemoize', 'threads:cold-keys', 'after %d threads missed the cache of %s at the same time with different arguments, '
                          'the call %s%r is answered with the result of another call' % (nthreads, n, n, (a[0], '<data_dir>')),
                          {'kind': 'cold-threads', 'seed': seed, 'nthreads': nthreads})
            break


def run(ctx):
    ctx.rule = ('(a) every positional/keyword/default binding shape (incl. surplus positionals, unknown and doubly bound names) of every '
                'memoised signature: memo._make_key vs the extracted model make_key, Python inspect.signature.bind vs the model bind_call, '
                'and the oracle "a key exists iff the call is valid and equals the bound values" (exhaustive); (b) random histories of API '
                'calls with deep mutation of returned objects and toggles of memoize_enabled, each result compared with a separate process '
                'that has memoisation disabled; (c) the same calls from 2..16 threads with concurrent toggles; (d) 4..16 threads that miss the cache of one memoised function at the same time with different arguments (cold keys), every key re-queried afterwards. Non-trivial: a repeated call '
                'after a mutation or toggle; a shape mixing positional and keyword arguments')
    ctx.trusted.append('pickle.dumps/loads as an immutable snapshot; atomicity of one dict get/set under the GIL (the concurrent theorem interleaves the model\'s atomic steps; real CPython interleavings are sampled)')
    ctx.assumptions.append('the data directory is not modified during the run')
    binding_shapes(ctx)
    ref = Reference()
    try:
        for i in range(ctx.budget(25, 600)):
            history(ctx, ctx.seed * 13 + i, ref)
        for i in range(ctx.budget(60, 1500)):
            poison(ctx, ctx.seed * 5 + i, ref)
        for i in range(ctx.budget(4, 60)):
            two_dirs(ctx, ctx.seed * 17 + i)
        preemption_points(ctx, ref)
        for i, nt in enumerate([2, 4, 8, 16] * ctx.budget(1, 10)):
            threads(ctx, ctx.seed * 7 + i, ref, nt)
        for i, nt in enumerate([4, 8, 16] * ctx.budget(1, 10)):
            cold_threads(ctx, ctx.seed * 3 + i, nt)
    finally:
        ref.close()


def replay(ctx, rec):
    r = rec.get('replay', rec)
    ref = Reference()
    try:
        if r.get('kind') == 'history':
            history(ctx, r['seed'], ref)
        elif r.get('kind') == 'threads':
            threads(ctx, r['seed'], ref, r['nthreads'])
        elif r.get('kind') == 'poison':
            poison(ctx, r['seed'], ref)
        elif r.get('kind') == 'two-dirs':
            two_dirs(ctx, r['seed'])
        elif r.get('kind') == 'preemption':
            preemption_points(ctx, ref)
        elif r.get('kind') == 'cold-threads':
            cold_threads(ctx, r['seed'], r['nthreads'])
        else:
            binding_shapes(ctx)
    finally:
        ref.close()
