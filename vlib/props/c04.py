"""C04 - every writer emits every number of the basis, unrounded."""
import collections
import copy
import random
import re
from decimal import Decimal, InvalidOperation

from .. import impl, store, gen, oracle

ROUNDING_FORMATS = {'acesii', 'crystal'}       # fixed-width layouts, allowed to round (property text)
ORBITAL_ONLY = {'ricdwrap'}                    # carries orbital functions only
NOT_NUMERIC = {'json', 'qcschema', 'bsedebug'}  # checked separately below (structured / debugging output)

NUM = re.compile(r'(?<![A-Za-z0-9_.])[-+]?(?:\d+\.\d*|\.\d+|\d+)(?:[eEdD][-+]?\d+)?(?![A-Za-z0-9_])')


def text_values(text):
    """multiset of the decimal values of all number tokens of a text (D exponent markers read as E)"""
    c = collections.Counter()
    for tok in NUM.findall(text):
        try:
            c[Decimal(tok.replace('D', 'E').replace('d', 'e'))] += 1
        except InvalidOperation:
            pass
    return c


def missing(values, have):
    """values (list of Decimal) that are not covered by the multiset `have`"""
    need = collections.Counter(values)
    return [v for v, n in need.items() if have.get(v, 0) < 1]


def ecp_numbers(el):
    out = []
    for p in el.get('ecp_potentials', []):
        out.extend(oracle.dec(x) for x in p['gaussian_exponents'])
        out.extend(oracle.dec(c) for col in p['coefficients'] for c in col)
    return out


def check_format(ctx, b, fmt, label):
    from basis_set_exchange import writers
    wm = writers.write._writer_map[fmt]
    r = impl.call(writers.write_formatted_basis_str, copy.deepcopy(b), fmt)
    supported = wm['valid'] is None or set(b['function_types']) <= wm['valid']
    ctx.case((label, fmt), True, 'write:' + fmt)
    replay = {'kind': 'write', 'label': label, 'fmt': fmt, 'input': b if len(str(b)) < 15000 else None}
    site = 'writers.' + fmt
    m = None
    if ctx.model is not None and len(str(b)) < 400000:
        m = ctx.model.call('writer_expected', fmt, list(b['function_types']), b)
    if not supported:
        if r[0] == 'ok':
            ctx.violation(site, 'unsupported-written', '%s output produced for a basis with function types %s that the format cannot express' % (fmt, b['function_types']), replay)
        if m is not None and m[0] == 'ok':
            ctx.compare('writer_expected(gate)', ('error', 'RuntimeError'), m, replay)
        return
    if r[0] != 'ok':
        # an explicit refusal is allowed (crystal: ECP terms with l >= 5, ...); it is never a silent loss
        ctx.dist['refused:%s:%s' % (fmt, r[1])] += 1
        return
    text = r[1]
    if fmt in NOT_NUMERIC:
        # structured output: every number string must literally be in the text
        for el in b['elements'].values():
            for sh in el.get('electron_shells', []):
                for x in sh['exponents']:
                    if x.strip() not in text:
                        ctx.violation(site, 'missing-number', 'exponent %s is not in the %s output' % (x, fmt), replay)
                        return
        return
    if fmt == 'pqs':
        # PQS puts the shell letter in the first column of the shell's first row, directly in front of a wide exponent
        text = re.sub(r'(?m)^([A-Z]{1,3})(?=[\d.])', r'\1 ', text)
    have = text_values(text)
    if m is None or m[0] != 'ok':
        if m is not None:
            ctx.compare('writer_expected', ('ok', 'expected numbers'), m, replay)
        return
    from basis_set_exchange import lut
    for z, (exps, coefs) in m[1].items():
        el = b['elements'][z]
        if fmt in ROUNDING_FORMATS:
            continue
        lost = missing([oracle.dec(x) for x in exps], have)
        if lost:
            ctx.violation(site, 'missing-exponent', 'element %s: exponent(s) %s of the prescribed contraction form are not in the %s output' % (z, [str(v) for v in lost[:3]], fmt), replay)
            return
        lost = missing([oracle.dec(x) for x in coefs], have)
        if lost:
            ctx.violation(site, 'missing-coefficient', 'element %s: coefficient(s) %s are not in the %s output' % (z, [str(v) for v in lost[:3]], fmt), replay)
            return
        if fmt not in ORBITAL_ONLY and 'ecp_potentials' in el:
            lost = missing(ecp_numbers(el), have)
            fp = 'missing-ecp' + (':ecp-only-element' if 'electron_shells' not in el else '')
            if lost:
                ctx.violation(site, fp, 'element %s: ECP number(s) %s are not in the %s output' % (z, [str(v) for v in lost[:3]], fmt), replay)
                return
            if have.get(Decimal(el['ecp_electrons']), 0) < 1:
                ctx.violation(site, fp + ':electrons', 'element %s: the ECP electron count %d is not stated in the %s output' % (z, el['ecp_electrons'], fmt), replay)
                return
    # every element is named (symbol, name or Z)
    low = text.lower()
    for z in b['elements']:
        if fmt in ORBITAL_ONLY and 'electron_shells' not in b['elements'][z]:
            continue
        sym, name = lut.element_sym_from_Z(z), lut.element_name_from_Z(z)
        # CRYSTAL's own convention names an element with an ECP by its conventional atomic number Z + 200
        crystal_ok = fmt == 'crystal' and re.search(r'(?<!\d)2%02d(?!\d)' % int(z), low)
        if not (crystal_ok or re.search(r'(?<![a-z])%s(?![a-z])' % re.escape(sym), low) or name in low or re.search(r'(?<!\d)%s(?!\d)' % z, low)):
            ctx.violation(site, 'element-not-named' + (':Z>=99' if int(z) >= 99 else ''), 'element %s (%s) is not named in the %s output' % (z, sym, fmt), replay)
            return


def work_store(ctx, item):
    name, version = item
    from basis_set_exchange import writers
    r = store.get_basis(name, version)
    if r[0] != 'ok':
        ctx.dist['store-unreadable'] += 1
        return
    rng = random.Random('%s/%s/%d' % (name, version, ctx.seed // 1000))
    b = store.restrict(r[1], rng, 200 if ctx.thorough() else 3)
    from basis_set_exchange import compose
    b['function_types'] = compose._whole_basis_types(b)
    fmts = list(writers.write._writer_map)
    if not ctx.thorough():
        fmts = rng.sample(fmts, 12) + ['jaguar', 'veloxchem']
    for fmt in fmts:
        check_format(ctx, b, fmt, '%s/%s[%s]' % (name, version, ','.join(b['elements'])))
    ctx.sample({'store': '%s/%s' % (name, version), 'elements': list(b['elements']), 'formats': fmts[:6]})


def work_generated(ctx, seed):
    rng = random.Random(seed)
    from basis_set_exchange import writers
    b = gen.gen_basis(rng, ecp_prob=0.5, ecp_only_prob=0.1, cart=rng.random() < 0.2)
    if seed % 5 == 1:
        # shapes the store has few of: unsorted / fused / shared-exponent shells (valid input, see vlib/gen.py)
        b = rng.choice([f for f in gen.PATHOLOGICAL if f not in (gen.patho_dup_function, gen.patho_contraction_on_free)])(rng)
    if seed % 3 == 0:
        # an exponent with very many integer digits (the -J / ANO-RCC style steep functions): fixed-width fields overflow
        shs = [sh for el in b['elements'].values() for sh in el.get('electron_shells', [])]
        if shs:
            sh = rng.choice(shs)
            k = max(range(len(sh['exponents'])), key=lambda i: oracle.dec(sh['exponents'][i]))
            sh['exponents'][k] = '%d.%d' % (rng.randint(10 ** 6, 10 ** rng.randint(7, 13)), rng.randint(1, 9999))
    if seed % 7 == 0:
        # a function type most formats cannot express: must be refused, not written without it
        b['function_types'] = sorted(set(b['function_types']) | {'sto'})
    for fmt in rng.sample(list(writers.write._writer_map), 8):
        check_format(ctx, b, fmt, 'gen:%d' % seed)


def work_patho(ctx, k):
    """every labelled pathological (valid) shape through every format"""
    from basis_set_exchange import writers
    pool = [f for f in gen.PATHOLOGICAL if f not in (gen.patho_dup_function, gen.patho_contraction_on_free)]
    f = pool[k % len(pool)]
    b = f(random.Random(ctx.seed * 31 + k))
    for fmt in writers.write._writer_map:
        check_format(ctx, b, fmt, 'patho:%s' % f.__name__)


def work_dup_exponent(ctx, k):
    """an input the validator rejects but the writers may meet: one contraction lists the same exponent twice with two
    non-zero coefficients.  A format either refuses it or carries both coefficients (with their exponent) - it never writes it
    with one of them missing"""
    from basis_set_exchange import writers
    rng = random.Random(ctx.seed * 43 + k)
    b = gen.gen_basis(rng, nel=1, ecp_prob=0.0, ecp_only_prob=0.0, allow_fused=False, lmax=1)
    el = next(iter(b['elements'].values()))
    c1, c2 = rng.choice([('0.4321', '0.1234'), ('0.75', '-0.25')])
    el['electron_shells'].append({'function_type': 'gto', 'region': '', 'angular_momentum': [0], 'exponents': ['7.125', '7.125', '0.5625'],
                                  'coefficients': [[c1, c2, '0.6875']]})
    for fmt in writers.write._writer_map:
        w = impl.call(writers.write_formatted_basis_str, copy.deepcopy(b), fmt)
        ctx.case((k, fmt, 'dup-exponent'), True, 'dup-exponent:' + ('refused' if w[0] != 'ok' else 'written'))
        if w[0] != 'ok' or fmt in ROUNDING_FORMATS:
            continue
        have = text_values(w[1])
        lost = missing([Decimal(c1), Decimal(c2)], have)
        if lost and fmt not in ('fhiaims', ):
            ctx.violation('writers.' + fmt, 'dup-exponent-coefficient-lost', 'a contraction that lists one exponent twice is written in %s without the coefficient %s (neither refused nor complete)'
                          % (fmt, lost[0]), {'kind': 'dup-exponent', 'k': k, 'fmt': fmt, 'input': b})


def work_heavy(ctx, z):
    """one generated element at the upper end of the periodic table (where some formats stop) through every format"""
    from basis_set_exchange import writers
    rng = random.Random(ctx.seed * 13 + z)
    b = gen.gen_basis(rng, nel=1, ecp_prob=0.0, ecp_only_prob=0.0, lmax=2)
    el = next(iter(b['elements'].values()))
    b['elements'] = {str(z): el, '8': copy.deepcopy(el)}
    for fmt in writers.write._writer_map:
        check_format(ctx, b, fmt, 'heavy:Z=%d' % z)


def layout_models(ctx, b, label):
    """the layouts that are modelled and proved (coq/Model/<Format>*.v): the text the writer returns must be the text the
    extracted model writes, byte for byte - this is what ties the per-format no-number-lost theorems to the code
    (the functions are those of the C03 run, which also compares the read-back)"""
    from . import c03
    for f in (c03.nwchem_whole, c03.g94_whole, c03.lmol_layout, c03.vlx_layout, c03.molcas_layout):
        f(ctx, b, label)
    for wf in c03.WHOLE_FORMATS:
        c03.whole_file(ctx, b, label, wf)
    for mf in c03.MORE_FORMATS:
        c03.more_format(ctx, b, label, mf)
    writer_only(ctx, b, label)


def _g94pipe(manip, sort, x):
    return sort.sort_basis(manip.uncontract_spdf(manip.uncontract_general(x, True), 1, False), False)


WRITER_ONLY = {
    # format: (the writer's own normalisation calls, model operation, its arguments from (b, normalised b))
    'gaussian94lib': (_g94pipe, 'g94lib_write_all', lambda b, pb: [c03_els(pb), c03_ecps(pb)]),
    'xtron': (_g94pipe, 'xtron_write_all', lambda b, pb: [c03_els(pb), c03_ecps(pb)]),
    'psi4': (_g94pipe, 'psi4_write_all', lambda b, pb: [c03_els(pb), c03_ecps(pb)]),
    'qchem': (_g94pipe, 'qchem_write_all', lambda b, pb: [b['role'], c03_els(pb), c03_ecps(pb)]),
    'orca': (_g94pipe, 'orca_write_all', lambda b, pb: [c03_els(pb), c03_ecps(pb)]),
    'gamess_uk': (_g94pipe, 'guk_write_all', lambda b, pb: [c03_els(pb), c03_ecps(pb)]),
    'jaguar': (_g94pipe, 'jag_write_all', lambda b, pb: [pb['name'], pb['function_types'], c03_els(pb), c03_ecps(pb)]),
    'pqs': (lambda manip, sort, x: sort.sort_basis(manip.make_general(x, True), False), 'pqs_write_all', lambda b, pb: [c03_els(pb), c03_ecps(pb)]),
    'fhiaims': (lambda manip, sort, x: sort.sort_basis(manip.uncontract_spdf(manip.uncontract_general(x, True), 0, False), False),
                'fhi_write_all', lambda b, pb: [b['name'], b['function_types'], c03_els(pb), c03_ecps(pb)]),
    'bdf': (lambda manip, sort, x: sort.sort_basis(manip.make_general(x, False, True), False), 'bdf_write_all', lambda b, pb: [c03_els(pb), c03_ecps(pb)]),
    'acesii': (lambda manip, sort, x: sort.sort_basis(manip.make_general(x, False, True), False), 'acesii_write_all',
               lambda b, pb: [b['name'], b['description'], c03_els(pb), c03_ecps(pb)]),
    'crystal': (_g94pipe, 'crystal_write_all', lambda b, pb: [_mels(pb)]),
    'ricdwrap': (lambda manip, sort, x: sort.sort_basis(manip.make_general(x, False, True), False), 'ricd_write_all', None),
}


def _mels(pb):
    return [[int(z), el.get('electron_shells'), el.get('ecp_electrons'), el.get('ecp_potentials')] for z, el in pb['elements'].items()]


def c03_els(pb):
    from . import c03
    return c03._els(pb)


def c03_ecps(pb):
    from . import c03
    return c03._ecps(pb)


def writer_only(ctx, b, label):
    """the modelled writers that have no reader (coq/Model/G94Family.v, Qchem.v, ...): what the writer function returns must be
    the text of the extracted model, byte for byte"""
    from basis_set_exchange import writers, manip, sort
    for fmt, (pipe, op, args) in WRITER_ONLY.items():
        w = impl.call(writers.write._writer_map[fmt]['function'], copy.deepcopy(b))
        pb = impl.call(lambda x: pipe(manip, sort, x), copy.deepcopy(b))
        if w[0] != 'ok' or pb[0] != 'ok' or len(w[1]) > 200000:
            ctx.dist['writer-only:%s:not-compared' % fmt] += 1
            continue
        if fmt == 'ricdwrap':
            # the order in which Python iterates the set of cartesian letters is read off the text (as for molcas)
            from . import c03
            margs = [c03.cartesian_order(pb[1], w[1]), _mels(pb[1])]
        else:
            margs = args(b, pb[1])
        m = ctx.model.call(op, *margs)
        if m[0] == 'error' and 'NotImpl' in str(m[1]):
            ctx.dist['writer-only:%s:outside-modelled-fragment' % fmt] += 1      # acesii: a number within 1e-12 of a power of ten
            continue
        ctx.case((label, fmt + '-writer'), True, fmt + '-writer')
        ctx.compare(op, ('ok', w[1]), m, {'kind': fmt + '-writer', 'label': label, 'input': b if len(str(b)) < 15000 else None})


def work_layout_store(ctx, item):
    name, version = item
    r = store.get_basis(name, version)
    if r[0] != 'ok':
        return
    b = store.restrict(r[1], ctx.rng, 200 if ctx.thorough() else 3)
    layout_models(ctx, b, '%s/%s[%s]' % (name, version, ','.join(b['elements'])))


def work_layout_generated(ctx, seed):
    rng = random.Random(seed)
    layout_models(ctx, gen.gen_basis(rng), 'gen:%d' % seed)


def run(ctx):
    ctx.rule = ('for store basis sets (element subsets) and generated dictionaries x output formats: the numbers the extracted model predicts '
                '(translated function-type gate, the writer\'s translated normalisation pipeline run by the manipulation model, then every '
                'exponent and every non-zero coefficient of contractions with >= 2 non-zero entries) and all ECP gaussian exponents / '
                'coefficients / electron counts must occur in the text by exact decimal value (D read as E); every element named; '
                'unsupported function types refused; acesii and crystal may round, ricdwrap is orbital only. Non-trivial = every case')
    ctx.trusted.append('the layout code of the writers that have no model under coq/Model is a black box: the decision for it is containment of a proved-complete prediction, explored not proved; the modelled layouts are compared with the writers byte for byte')
    md = store.metadata()
    if ctx.thorough():
        pairs = store.all_pairs(md)
    else:
        names = store.sample_names(ctx.rng, 40, md)
        ecp_only = [k for k, v in md.items() if set(v['function_types']) <= {'scalar_ecp', 'spinorbit_ecp'}]
        names += ctx.rng.sample(ecp_only, min(3, len(ecp_only)))
        names += [k for k in ('aug-cc-pvtz-j', 'ano-rcc', '6-31g-j') if k in md]      # exponents with 8..11 integer digits
        pairs = [(n, md[n]['latest_version']) for n in names]
    store.parallel(ctx, work_store, pairs)
    store.parallel(ctx, work_generated, [ctx.seed * 59 + i for i in range(ctx.budget(80, 4000))])
    store.parallel(ctx, work_patho, list(range(len(gen.PATHOLOGICAL) * ctx.budget(1, 20))))
    store.parallel(ctx, work_heavy, [86, 96, 97, 98, 99, 103, 104, 118])
    store.parallel(ctx, work_dup_exponent, list(range(ctx.budget(2, 40))))
    if ctx.model is not None:
        store.parallel(ctx, work_layout_store, pairs if ctx.thorough() else pairs[:12])
        store.parallel(ctx, work_layout_generated, [ctx.seed * 61 + i for i in range(ctx.budget(20, 1500))])


def replay(ctx, rec):
    r = rec.get('replay', rec)
    if r.get('input'):
        check_format(ctx, r['input'], r['fmt'], 'replay')
