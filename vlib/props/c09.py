"""C09 - references cover exactly the data that was returned."""
import copy
import json
import os
import random

from .. import impl, store, datadir

FORMATS = ['txt', 'bib', 'ris', 'endnote', 'json']


def tuples_to_lists(x):
    if isinstance(x, (list, tuple)):
        return [tuples_to_lists(y) for y in x]
    if isinstance(x, dict):
        return {k: tuples_to_lists(v) for k, v in x.items()}
    return x


def check_refs(ctx, name, version, sel, basis, ref_db, data_dir, label):
    """one (basis, version, selection): structure oracle, model correspondence, every format"""
    bse = impl.bse()
    from basis_set_exchange import references, refconverters
    from basis_set_exchange.refconverters import common as rcommon
    kw = {'version': version, 'elements': sel}
    if data_dir:
        kw['data_dir'] = data_dir
    r = impl.call(bse.get_references, name, **kw)
    ctx.case((label, repr(sel)), sel is not None, 'structure')
    replay = {'kind': 'refs', 'name': name, 'version': version, 'elements': sel, 'label': label}
    site = 'api.get_references'
    if r[0] != 'ok':
        ctx.violation(site, 'raises:' + r[1], 'get_references raises %s' % r[1], replay)
        return
    groups = tuples_to_lists(r[1])
    if ctx.model is not None:
        m = ctx.model.call('compact_references', basis['elements'], {k: v for k, v in ref_db.items() if k != 'molssi_bse_schema'})
        ctx.compare('compact_references', ('ok', groups), m, replay)
    # ---- partition / homogeneity / group info = the element's own references
    seen = []
    for g in groups:
        if not g['elements']:
            ctx.violation(site, 'empty-group', 'an empty group is returned', replay)
        seen.extend(g['elements'])
        for z in g['elements']:
            own = basis['elements'][z]['references']
            want = [{'reference_description': x['reference_description'], 'reference_keys': list(x['reference_keys'])} for x in own]
            got = [{'reference_description': x['reference_description'], 'reference_keys': [k for k, _ in x['reference_data']]} for x in g['reference_info']]
            if got != want:
                ctx.violation(site, 'group-info', 'element %s is in a group whose descriptions/keys differ from its component data' % z, replay)
        for ri in g['reference_info']:
            for k, entry in ri['reference_data']:
                if k not in ref_db or ref_db[k] != entry:
                    ctx.violation(site, 'key-resolution', 'key %s does not resolve to the entry of the reference database' % k, replay)
    if sorted(seen, key=int) != sorted(basis['elements'], key=int) or len(seen) != len(set(seen)):
        ctx.violation(site, 'partition', 'the groups do not partition the selected elements: %s vs %s' % (seen[:10], list(basis['elements'])[:10]), replay)
    cited = {k for g in groups for ri in g['reference_info'] for k, _ in ri['reference_data']}
    # keys that belong ONLY to unselected elements
    full = store.get_basis(name, version, data_dir=data_dir) if data_dir else store.get_basis(name, version)
    only_unselected = set()
    if full[0] == 'ok':
        allkeys = {k for el in full[1]['elements'].values() for x in el['references'] for k in x['reference_keys']}
        only_unselected = allkeys - cited
    lib_desc, lib_refs = rcommon.get_library_citation()
    txt_map = {}
    for k in set(cited) | set(lib_refs):
        src = ref_db.get(k, lib_refs.get(k))
        t = impl.call(references.reference_text, k, src)
        if t[0] == 'ok':
            txt_map[k] = t[1]
    for fmt in FORMATS:
        out = impl.call(bse.get_references, name, fmt=fmt, **kw)
        ctx.case((label, repr(sel), fmt), True, 'format:' + fmt)
        frep = dict(replay, fmt=fmt)
        if out[0] != 'ok':
            ctx.violation(site, 'format-raises:%s:%s' % (fmt, out[1]), 'get_references(fmt=%s) raises %s' % (fmt, out[1]), frep)
            continue
        text = out[1]
        if fmt == 'json':
            if tuples_to_lists(json.loads(text)) != groups:
                ctx.violation(site, 'json-roundtrip', 'the JSON format does not parse back to the dictionary form', frep)
            continue
        if ctx.model is not None:
            m = ctx.model.call('convert_references', fmt, txt_map, lib_desc, lib_refs, groups)
            ctx.compare('convert_references:' + fmt, ('ok', text), m, frep)
        # basis section = after the header of the basis references
        marker = ' References for the basis set'
        pos = text.find(marker)
        if pos < 0:
            ctx.violation(site, 'no-basis-section:' + fmt, 'the %s output has no basis-set section' % fmt, frep)
            continue
        head, body = text[:pos], text[pos:]
        for k in lib_refs:
            if k not in head:
                ctx.violation(site, 'library-block:' + fmt, 'the library citation %s is missing from the %s output' % (k, fmt), frep)
        from basis_set_exchange import misc
        for g in groups:
            es = misc.compact_elements(g['elements'])
            if es not in body:
                ctx.violation(site, 'elements-missing:' + fmt, 'the element string %r of a group is not in the %s output' % (es, fmt), frep)
            for ri in g['reference_info']:
                if ri['reference_description'] not in body:
                    ctx.violation(site, 'description-missing:' + fmt, 'a reference description is not in the %s output' % fmt, frep)
        for k in cited:
            if body.count(k) < 2:       # once in the element table, once as the entry itself
                ctx.violation(site, 'key-missing:' + fmt, 'key %s is not both listed and rendered in the %s output' % (k, fmt), frep)
        for k in only_unselected:
            import re
            if re.search(r'(?<![A-Za-z0-9])%s(?![A-Za-z0-9])' % re.escape(k), body):
                ctx.violation(site, 'foreign-key:' + fmt, 'key %s belongs only to unselected elements but is in the %s output' % (k, fmt), frep)
        if fmt in ('bib', 'ris', 'endnote'):
            for k in cited:
                for f, v in ref_db[k].items():
                    if f == '_entry_type':
                        continue
                    for item in (v if isinstance(v, list) else [v]):
                        if str(item) not in body:
                            ctx.violation(site, 'field-missing:%s:%s' % (fmt, f), 'field %s=%r of %s is not in the %s rendering' % (f, str(item)[:40], k, fmt), frep)
    ctx.sample({'name': name, 'version': version, 'elements': sel, 'groups': len(groups), 'keys': sorted(cited)[:6]})


def work_store(ctx, item):
    name, version = item
    bse = impl.bse()
    r = store.get_basis(name, version)
    if r[0] != 'ok':
        ctx.dist['store-unreadable'] += 1
        return
    rng = random.Random('%s/%s/%d' % (name, version, ctx.seed // 1000))
    ref_db = bse.get_reference_data()
    zs = list(r[1]['elements'])
    sels = [None]
    for _ in range(ctx.budget(2, 6)):
        sels.append(sorted(rng.sample(zs, rng.randint(1, min(len(zs), 6))), key=int))
    for sel in sels:
        b = r[1] if sel is None else impl.call(bse.get_basis, name, version=version, elements=sel)[1]
        check_refs(ctx, name, version, sel, b, ref_db, None, '%s/%s' % (name, version))
    # notes
    from basis_set_exchange import references, notes as notesmod
    for getter, arg, kind in ((bse.get_basis_notes, name, 'basis'), (bse.get_family_notes, r[1]['family'], 'family')):
        n = impl.call(getter, arg)
        ctx.case((kind, arg), True, 'notes:' + kind)
        if n[0] != 'ok':
            ctx.violation('api.get_%s_notes' % kind, 'raises:' + n[1], 'notes lookup raises', {'kind': 'notes', 'arg': arg})
            continue
        md = store.metadata()
        path = os.path.join(store.DATA, md[name]['basename'] + '.notes') if kind == 'basis' else os.path.join(store.DATA, 'NOTES.' + arg)
        stored = open(path, encoding='utf-8').read() if os.path.isfile(path) else ''
        if not n[1].startswith(stored):
            ctx.violation('api.get_%s_notes' % kind, 'not-as-stored', 'the notes are not returned as stored', {'kind': 'notes', 'arg': arg})
        if not stored:
            if n[1] != '':
                ctx.violation('api.get_%s_notes' % kind, 'invented', 'notes returned although none are stored', {'kind': 'notes', 'arg': arg})
            continue
        mentioned = sorted(k for k in ref_db if k in stored)
        tail = n[1][len(stored):]
        for k in mentioned:
            if references.reference_text(k, ref_db[k]) not in tail:
                ctx.violation('notes.process_notes', 'mentioned-missing', 'the text of mentioned reference %s is missing' % k, {'kind': 'notes', 'arg': arg})
        if not mentioned and tail:
            ctx.violation('notes.process_notes', 'tail-without-mention', 'a reference block is appended although no key is mentioned', {'kind': 'notes', 'arg': arg})
        if ctx.model is not None and mentioned:
            txt = {k: references.reference_text(k, ref_db[k]) for k in mentioned}
            ctx.compare('process_notes', ('ok', n[1]), ctx.model.call('process_notes', stored, [k for k in ref_db], txt), {'kind': 'notes', 'arg': arg})


def notes_cases(ctx):
    """process_notes on synthetic notes: reference keys of which one is contained in another (neto2021a / canalneto2021a in the
    shipped database), mentioned together, alone, repeatedly, and not at all"""
    bse = impl.bse()
    from basis_set_exchange import references, notes as notesmod
    ref_db = bse.get_reference_data()
    keys = sorted(k for k in ref_db if k != 'molssi_bse_schema')
    nested = [(a, b_) for a in keys for b_ in keys if a != b_ and a in b_][:3]
    plain = keys[:2]
    texts = []
    for a, b_ in nested:
        texts += ['Exponents from %s; contraction from %s.' % (a, b_), 'See %s.\nSee also %s and again %s.' % (b_, a, a), 'Only %s is cited here.' % a]
    texts += ['Two plain keys: %s, %s.' % tuple(plain), 'No key is mentioned here.', '']
    for t in texts:
        n = impl.call(notesmod.process_notes, t, ref_db)
        ctx.case(('synthetic-notes', t), True, 'notes:synthetic')
        rp = {'kind': 'notes', 'arg': t}
        if n[0] != 'ok' or not n[1].startswith(t):
            ctx.violation('notes.process_notes', 'not-as-given', 'process_notes does not return the notes followed by the reference block (%s)' % (n[0] if n[0] == 'ok' else n[1]), rp)
            continue
        tail = n[1][len(t):]
        # a key is mentioned when it stands in the text as a word of its own
        import re
        for k in keys:
            if re.search(r'(?<![A-Za-z0-9_])' + re.escape(k) + r'(?![A-Za-z0-9_])', t) and references.reference_text(k, ref_db[k]) not in tail:
                ctx.violation('notes.process_notes', 'mentioned-missing', 'the text of the mentioned reference %s is missing from the block appended to %r' % (k, t[:60]), rp)
                break
        if ctx.model is not None:
            ment = sorted(k for k in keys if k in t)
            txt = {k: references.reference_text(k, ref_db[k]) for k in ment}
            ctx.compare('process_notes', ('ok', n[1]), ctx.model.call('process_notes', t, keys, txt), rp)


def work_generated(ctx, seed):
    rng = random.Random(seed)
    bse = impl.bse()
    from basis_set_exchange import curate
    gd = datadir.GenDir(rng)
    try:
        idx = impl.call(curate.create_metadata_file, os.path.join(gd.path, 'METADATA.json'), gd.path)
        if idx[0] != 'ok':
            return
        ref_db = json.load(open(os.path.join(gd.path, 'REFERENCES.json')))
        # the library citation block needs the library's own references in the database
        real = bse.get_reference_data()
        from basis_set_exchange.refconverters import common as rcommon
        for k in rcommon._lib_refs:
            ref_db[k] = real[k]
        for b in gd.bases:
            nm = b['names'][0]
            for ver in b['versions']:
                full = impl.call(bse.get_basis, nm, version=ver, data_dir=gd.path)
                if full[0] != 'ok':
                    continue
                zs = list(full[1]['elements'])
                sel = sorted(rng.sample(zs, rng.randint(1, len(zs))), key=int)
                bsel = impl.call(bse.get_basis, nm, version=ver, elements=sel, data_dir=gd.path)[1]
                # get_references reads REFERENCES.json of the data dir; the library block always reads the shipped one
                check_refs(ctx, nm, ver, sel, bsel, ref_db, gd.path, 'gen:%d:%s' % (seed, nm))
                if len(zs) >= 2 and len(sel) < len(zs):
                    # the same selection written with repetitions (number and symbol, twice): as many items as the basis has
                    # elements or more, still a proper subset
                    from basis_set_exchange import lut
                    rep = (sel + [lut.element_sym_from_Z(int(z)) for z in sel] + sel)[:max(len(zs) + 1, len(sel) + 1)]
                    r1 = impl.call(bse.get_references, nm, elements=sel, version=ver, fmt='bib', data_dir=gd.path)
                    r2 = impl.call(bse.get_references, nm, elements=rep, version=ver, fmt='bib', data_dir=gd.path)
                    ctx.case(('gen', seed, nm, ver, 'repeated-selection'), True, 'references:repeated-selection')
                    if r1 != r2:
                        ctx.violation('api.get_references', 'repeated-selection', 'get_references(elements=%r) differs from get_references(elements=%r)' % (rep, sel),
                                      {'kind': 'generated', 'seed': seed, 'name': nm, 'version': ver})
    finally:
        gd.cleanup()


def run(ctx):
    ctx.rule = ('per (basis, version, element selection): get_references as dictionary (partition of the selected elements, group '
                'info = the element\'s own descriptions and keys in order, key resolution) vs the extracted model compact_references; '
                'all five formats: bib/ris/endnote/txt compared byte for byte with the extracted model convert_references (txt with the '
                'single-reference text as input), every key listed and rendered, element strings and descriptions present, no key of '
                'only-unselected elements, every stored field value present in bib/ris/endnote, library citation block, JSON round '
                'trip; basis and family notes as stored + text of exactly the mentioned references. Non-trivial = a proper selection')
    ctx.trusted.append('textwrap (plain-text rendering of one reference) is an oracle: the text is taken from references.reference_text and only its placement is modelled')
    md = store.metadata()
    if ctx.thorough():
        pairs = store.all_pairs(md)
    else:
        pairs = [(n, md[n]['latest_version']) for n in store.sample_names(ctx.rng, 36, md)]
    notes_cases(ctx)
    store.parallel(ctx, work_store, pairs)
    store.parallel(ctx, work_generated, [ctx.seed * 29 + i for i in range(ctx.budget(24, 800))])


def replay(ctx, rec):
    r = rec.get('replay', rec)
    if r.get('name') in store.metadata():
        work_store(ctx, (r['name'], r.get('version') or store.metadata()[r['name']]['latest_version']))
