"""C13 - generated auxiliary basis sets depend only on the orbital function space."""
import copy
import math
import random
from fractions import Fraction

from .. import impl, store, gen, oracle

FUNCS = ['autoaux_basis', 'autoabs_basis']


def representations(b, rng):
    """equivalent re-contractions / orderings of one orbital basis"""
    from basis_set_exchange import manip, sort
    reps = [('original', b)]
    for name, f in (('general', lambda x: manip.make_general(x)), ('uncontracted-general', lambda x: manip.uncontract_general(x)),
                    ('spdf-split', lambda x: manip.uncontract_spdf(x, 0)), ('sorted', lambda x: sort.sort_basis(x))):
        r = impl.call(f, copy.deepcopy(b))
        if r[0] == 'ok':
            reps.append((name, r[1]))
    sh = copy.deepcopy(b)
    for el in sh['elements'].values():
        shells = el.get('electron_shells', [])
        rng.shuffle(shells)
        for s in shells:
            perm = list(range(len(s['exponents'])))
            rng.shuffle(perm)
            s['exponents'] = [s['exponents'][i] for i in perm]
            s['coefficients'] = [[c[i] for i in perm] for c in s['coefficients']]
            if len(s['angular_momentum']) == 1:
                rng.shuffle(s['coefficients'])
    reps.append(('shuffled', sh))
    # every contraction multiplied by a power of two (exact in decimal and in binary): the same function space; a lone
    # primitive written with a coefficient other than 1 is the simplest case
    from decimal import Decimal
    sc = copy.deepcopy(b)
    for el in sc['elements'].values():
        for s in el.get('electron_shells', []):
            s['coefficients'] = [[str(Decimal(c.strip()) * f) for c in col] for col, f in
                                 ((col, Decimal(rng.choice(['0.5', '2', '4', '0.25']))) for col in s['coefficients'])]
    reps.append(('scaled', sc))
    # every number written in one canonical notation (equal values then have equal strings, however the source spelled them)
    cn = copy.deepcopy(b)
    for el in cn['elements'].values():
        for s in el.get('electron_shells', []):
            s['exponents'] = [format(Decimal(x.strip()).normalize(), 'f') if abs(Decimal(x.strip()).adjusted()) < 30 else str(Decimal(x.strip()).normalize()) for x in s['exponents']]
            s['exponents'] = [x if '.' in x or 'E' in x else x + '.0' for x in s['exponents']]
    reps.append(('canonical-notation', cn))
    # the elements of the dictionary in another order (dictionaries of a reader / hand-made ones are not sorted by Z)
    ro = copy.deepcopy(b)
    ro['elements'] = dict(reversed(list(ro['elements'].items())))
    reps.append(('elements-reversed', ro))
    return reps


def am_gaps(b):
    for el in b['elements'].values():
        ls = {l for sh in el.get('electron_shells', []) for l in sh['angular_momentum']}
        if ls and ls != set(range(max(ls) + 1)):
            return True
    return False


def float_frac(x):
    return list(Fraction(x).limit_denominator(10**40).as_integer_ratio()) if False else [Fraction(x).numerator, Fraction(x).denominator]


def close6(a, b):
    return abs(a - b) <= 2e-6 * max(abs(a), abs(b))


def arrays_for(elshells):
    """the per-momentum inputs of AutoAux, computed with the implementation's own integral routines (floats)"""
    from basis_set_exchange.ints import gto_R_contr
    from math import gamma, pi
    lmax = max(sh['angular_momentum'][0] for sh in elshells)
    amin = [None] * (lmax + 1)
    aprim = [None] * (lmax + 1)
    aeff = [None] * (lmax + 1)
    for sh in elshells:
        l = sh['angular_momentum'][0]
        ex = sorted((float(x) for x in sh['exponents']), reverse=True)
        aprim[l] = ex[0] if aprim[l] is None else max(aprim[l], ex[0])
        amin[l] = ex[-1] if amin[l] is None else min(amin[l], ex[-1])
        rmat = gto_R_contr(sh['exponents'], sh['coefficients'], l)
        k = 2**(2 * l + 1) * gamma(l + 2)**2 / gamma(2 * l + 3)
        eff = max(2 * k**2 / (pi * rmat[i][i]**2) for i in range(len(sh['coefficients'])))
        aeff[l] = eff if aeff[l] is None else max(aeff[l], eff)
    return lmax, amin, aprim, aeff


def check_model(ctx, b, label):
    """the ladder / coupling / cap logic of the extracted model against the implementation's output"""
    from basis_set_exchange import manip
    g = impl.call(manip.make_general, copy.deepcopy(b))
    aux = impl.call(manip.autoaux_basis, copy.deepcopy(b))
    ab = impl.call(manip.autoabs_basis, copy.deepcopy(b))
    if g[0] != 'ok' or ctx.model is None:
        return
    for z, el in g[1]['elements'].items():
        if 'electron_shells' not in el:
            continue
        shells = el['electron_shells']
        ctx.case((label, z, 'model'), True, 'model-logic')
        replay = {'kind': 'model', 'label': label, 'element': z}
        if aux[0] == 'ok':
            lmax, amin, aprim, aeff = arrays_for(shells)
            enc = lambda arr: [None if v is None else float_frac(v) for v in arr]
            m = ctx.model.call('autoaux_element', int(z), lmax, enc(amin), enc(aprim), enc(aeff))
            got = {}
            for sh in aux[1]['elements'][z]['electron_shells']:
                got.setdefault(sh['angular_momentum'][0], []).append(float(sh['exponents'][0]))
            if m[0] != 'ok':
                ctx.compare('autoaux_element', ('ok', 'output'), m, replay)
            else:
                want = {l: [n / d for n, d in xs] for l, xs in m[1]}
                same = set(got) == set(want) and all(len(got[l]) == len(want[l]) and all(close6(a, c) for a, c in zip(got[l], want[l])) for l in got)
                if not same:
                    ctx.compare('autoaux_element', ('ok', {l: [round(x, 6) for x in v] for l, v in got.items()}),
                                ('ok', {l: [round(x, 6) for x in v] for l, v in want.items()}), replay)
        if ab[0] == 'ok':
            prims = [[float_frac(float(x)), sh['angular_momentum'][0]] for sh in shells for x in sh['exponents']]
            m = ctx.model.call('autoabs_element', int(z), 1, [3, 2], prims)
            got = [(float(sh['exponents'][0]), sh['angular_momentum'][0]) for sh in ab[1]['elements'][z]['electron_shells']]
            if m[0] != 'ok':
                ctx.compare('autoabs_element', ('ok', 'output'), m, replay)
            else:
                want = []
                for group, mfit in m[1]:
                    vals = [n / d for (n, d), _l in group]
                    avg = math.exp(sum(math.log(v) for v in vals) / len(vals))
                    want.extend((avg, l) for l in range(mfit + 1))
                if len(want) != len(got) or not all(close6(a[0], c[0]) and a[1] == c[1] for a, c in zip(got, want)):
                    # the grouping test of autoabs is `x_ref / x < fsam` in binary floating point; the model decides it in exact
                    # rational arithmetic on the same doubles.  The two can differ only when the rounded quotient is exactly
                    # fsam (an ulp-level tie, e.g. 0.07116 / 0.04744 = 1.5): outside the model's resolution (trusted base:
                    # "float pipeline not modelled"), counted, not compared
                    xs = sorted({float(x) for sh in shells for x in sh['exponents']})
                    if any(abs(a / c - 1.5) <= 1e-14 for a in xs for c in xs if a > c):
                        ctx.dist['autoabs:float-tie-at-fsam'] += 1
                    else:
                        ctx.compare('autoabs_element', ('ok', got[:12]), ('ok', want[:12]), replay)


def check_basis(ctx, b, label, rng):
    from basis_set_exchange import manip
    reps = representations(b, rng)
    gaps = am_gaps(b)
    for fname in FUNCS:
        f = getattr(manip, fname)
        outs = []
        for rname, rb in reps:
            r = impl.call(f, copy.deepcopy(rb))
            ctx.case((label, fname, rname), rname != 'original', fname + ':' + rname)
            outs.append((rname, r))
        base = outs[0][1]
        site = 'manip.' + fname
        replay = {'kind': 'aux', 'label': label, 'function': fname, 'input': b if len(str(b)) < 15000 else None}
        if base[0] != 'ok':
            fp = 'raises:%s:%s' % (base[1], 'am-gap' if gaps else 'contiguous')
            ctx.violation(site, fp, '%s raises %s on a valid orbital basis (%s)' % (fname, base[1], label), replay)
            continue
        for rname, r in outs[1:]:
            if r[0] != 'ok' or r[1]['elements'] != base[1]['elements']:
                ctx.violation(site, 'representation:' + rname, '%s differs between the original and the %s representation of %s' % (fname, rname, label), replay)
        out = base[1]
        want_els = sorted(z for z, el in b['elements'].items() if 'electron_shells' in el)
        if sorted(out['elements']) != want_els:
            ctx.violation(site, 'elements', '%s covers %s, elements with orbital functions are %s' % (fname, sorted(out['elements'])[:8], want_els[:8]), replay)
        present = {sh['function_type'] for el in out['elements'].values() for sh in el.get('electron_shells', [])}
        if 'function_types' in out and set(out['function_types']) != present:
            # "only ... spherical shells": what the auxiliary basis announces about itself (writers choose the harmonic keyword and
            # refuse ECP types by it) is what it holds, not what the orbital basis held
            ctx.violation(site, 'function-types', '%s: the auxiliary basis announces function types %s, its shells are %s'
                          % (fname, sorted(out['function_types']), sorted(present)), replay)
        for z, el in out['elements'].items():
            lmax = max(l for sh in b['elements'][z]['electron_shells'] for l in sh['angular_momentum'])
            ladders = {}
            for sh in el['electron_shells']:
                l = sh['angular_momentum'][0]
                x = float(sh['exponents'][0])
                ok = (len(sh['angular_momentum']) == 1 and len(sh['exponents']) == 1 and sh['coefficients'] == [['1.0']] and x > 0
                      and sh['function_type'] == ('gto' if l < 2 else 'gto_spherical'))
                if not ok:
                    ctx.violation(site, 'shape', '%s: element %s has a shell that is not a positive unit-coefficient spherical primitive' % (fname, z), replay)
                    break
                ladders.setdefault(l, []).append(x)
            Z = int(z)
            if fname == 'autoaux_basis':
                lval = 0 if Z <= 2 else 1 if Z <= 20 else 2 if Z <= 56 else 3
                linc = 1 if Z <= 18 else 2
                cap = min(max(2 * lval, lmax + linc), 2 * lmax)
                if ladders and max(ladders) != cap:
                    ctx.violation(site, 'cap', 'AutoAux: element %s highest auxiliary momentum %d, cap formula gives %d' % (z, max(ladders), cap), replay)
                # geometric with the published ratios; starts at the smallest coupled sum
                # the primitives of a momentum are those that some function of that momentum uses (a fused shell may hold
                # primitives that contribute to one of its momenta only)
                xs_by_l = {}
                for sh in b['elements'][z]['electron_shells']:
                    for k_, l in enumerate(sh['angular_momentum']):
                        cols = [sh['coefficients'][k_]] if len(sh['angular_momentum']) > 1 else sh['coefficients']
                        xs_by_l.setdefault(l, []).extend(float(x) for i_, x in enumerate(sh['exponents']) if any(float(c[i_]) != 0.0 for c in cols))
                big = [1.8, 2.0, 2.2, 2.2, 2.2, 2.3, 3.0, 3.0]
                for l, xs in ladders.items():
                    ratio = 1.8 if l <= 2 * lval else big[min(l, 7)]
                    if any(not close6(b_ / a_, ratio) for a_, b_ in zip(xs, xs[1:])):
                        ctx.violation(site, 'ratio', 'AutoAux: element %s l=%d ladder is not geometric with ratio %s' % (z, l, ratio), replay)
                    starts = [min(xs_by_l[a]) + min(xs_by_l[c]) for a in xs_by_l for c in xs_by_l if abs(a - c) <= l <= a + c]
                    if starts and not close6(xs[0], min(starts)):
                        ctx.violation(site, 'start', 'AutoAux: element %s l=%d ladder starts at %g, smallest coupled sum is %g' % (z, l, xs[0], min(starts)), replay)
            else:
                lval = 0 if Z <= 2 else 1 if Z <= 18 else 2 if Z <= 54 else 3
                cap = min(max(2 * lval, lmax + 1), 2 * lmax)
                if ladders and max(ladders) > cap:
                    ctx.violation(site, 'cap', 'AutoABS: element %s auxiliary momentum %d above the cap %d' % (z, max(ladders), cap), replay)
    check_model(ctx, b, label)


def work_store(ctx, item):
    name, version = item
    md = store.metadata()
    if md[name]['role'] != 'orbital':
        return
    r = store.get_basis(name, version)
    if r[0] != 'ok':
        ctx.dist['store-unreadable'] += 1
        return
    rng = random.Random('%s/%s/%d' % (name, version, ctx.seed // 1000))
    full = r[1]
    els = [z for z, el in full['elements'].items() if 'electron_shells' in el]
    if not els:
        return
    # prefer elements around the lval / linc thresholds
    near = [z for z in els if int(z) in (2, 3, 18, 19, 20, 21, 54, 55, 56, 57)]
    keep = (rng.sample(near, min(2, len(near))) + rng.sample(els, min(2, len(els))))[:3] if not ctx.thorough() else els
    b = copy.deepcopy(full)
    b['elements'] = {z: full['elements'][z] for z in full['elements'] if z in keep}
    check_basis(ctx, b, '%s/%s[%s]' % (name, version, ','.join(b['elements'])), rng)
    ctx.sample({'store': '%s/%s' % (name, version), 'elements': list(b['elements']), 'representations': ['original', 'general', 'uncontracted-general', 'spdf-split', 'sorted', 'shuffled']})
    # through the API
    bse = impl.bse()
    for aux in (1, 2):
        a = impl.call(bse.get_basis, name, version=version, elements=list(b['elements']), get_aux=aux)
        c = impl.call(bse.get_basis, name, version=version, elements=list(b['elements']), get_aux=aux, make_general=True)
        ctx.case((name, version, 'get_aux', aux), True, 'get_aux')
        if a[0] == 'ok' and (c[0] != 'ok' or a[1]['elements'] != c[1]['elements']):
            ctx.violation('api.get_basis[get_aux]', 'representation', 'get_aux=%d differs with make_general' % aux, {'kind': 'get_aux', 'name': name})
        # with augmentation: the auxiliary basis of the augmented orbital basis
        from basis_set_exchange import manip
        # ... and with the options that change the function space: the auxiliary basis of what get_basis returns with them
        for kw in ({'augment_diffuse': 1}, {'augment_steep': 1, 'make_general': True}, {'uncontract_segmented': True},
                   {'remove_free_primitives': True}, {'uncontract_general': True, 'uncontract_spdf': True}):
            o = impl.call(bse.get_basis, name, version=version, elements=list(b['elements']), **kw)
            g = impl.call(bse.get_basis, name, version=version, elements=list(b['elements']), get_aux=aux, **kw)
            if o[0] != 'ok':
                continue
            w = impl.call(manip.autoaux_basis if aux == 1 else manip.autoabs_basis, o[1])
            ctx.case((name, version, 'get_aux+augment', aux, tuple(kw)), True, 'get_aux+augment')
            if w[0] != g[0] or (w[0] == 'ok' and w[1]['elements'] != g[1]['elements']):
                ctx.violation('api.get_basis[get_aux]', 'augmented', 'get_basis(get_aux=%d, %s) is not the auxiliary basis of the orbital basis get_basis returns with these options' % (aux, kw),
                              {'kind': 'get_aux', 'name': name, 'version': version})


def work_generated(ctx, seed):
    rng = random.Random(seed)
    z = rng.choice([1, 2, 3, 10, 18, 19, 20, 21, 36, 54, 55, 56, 57, 80])
    b = gen.gen_basis(rng, nel=1, ecp_prob=0.0, ecp_only_prob=0.0, lmax=rng.choice([0, 1, 2, 3, 4]))
    el = next(iter(b['elements'].values()))
    # contiguous momenta (the published algorithm's assumption); the gap case is the known finding
    ls = sorted({l for sh in el['electron_shells'] for l in sh['angular_momentum']})
    if ls != list(range(max(ls) + 1)):
        return
    b['elements'] = {str(z): el}
    check_basis(ctx, b, 'gen:%d:Z=%d' % (seed, z), rng)
    # several elements, not in increasing Z order, one of them with an ECP only: each element's auxiliary shells are those
    # it gets alone, and the ECP-only element is not covered
    from basis_set_exchange import manip
    zs = rng.sample([1, 2, 3, 8, 10, 18, 19, 20, 21, 30, 36, 54, 55, 56, 57, 80], 3)
    multi = copy.deepcopy(b)
    multi['elements'] = {}
    for k, z2 in enumerate(zs):
        e2 = copy.deepcopy(el)
        multi['elements'][str(z2)] = e2
    pots, ne = gen.gen_ecp(rng)
    multi['elements']['86'] = {'ecp_potentials': pots, 'ecp_electrons': ne}
    order = list(multi['elements'])
    rng.shuffle(order)
    multi['elements'] = {k: multi['elements'][k] for k in order}
    multi['function_types'] = gen.whole_types(multi['elements'])
    for fname in FUNCS:
        f = getattr(manip, fname)
        whole = impl.call(f, copy.deepcopy(multi))
        ctx.case(('multi', seed, fname), True, fname + ':multi-element')
        replay = {'kind': 'aux', 'label': 'gen:%d:multi' % seed, 'function': fname, 'input': multi if len(str(multi)) < 15000 else None}
        if whole[0] != 'ok':
            ctx.violation('manip.' + fname, 'raises:%s:multi' % whole[1], '%s raises %s on a valid multi-element orbital basis' % (fname, whole[1]), replay)
            continue
        if sorted(whole[1]['elements']) != sorted(str(z2) for z2 in zs):
            ctx.violation('manip.' + fname, 'elements', '%s covers %s, elements with orbital functions are %s' % (fname, sorted(whole[1]['elements']), sorted(map(str, zs))), replay)
            continue
        for z2 in zs:
            single = copy.deepcopy(multi)
            single['elements'] = {str(z2): multi['elements'][str(z2)]}
            one = impl.call(f, single)
            if one[0] != 'ok' or one[1]['elements'][str(z2)] != whole[1]['elements'][str(z2)]:
                ctx.violation('manip.' + fname, 'element-order', '%s: element %d gets other auxiliary shells inside the dictionary %s than alone' % (fname, z2, order), replay)
                break


def work_patho(ctx, k):
    """the labelled pathological (valid) shapes that have fused shells, zero coefficients or shared primitives: the same auxiliary
    basis from every representation"""
    pool = [gen.patho_p_only_primitive_in_sp, gen.patho_mixed_fused, gen.patho_unsorted_fused, gen.patho_plain_then_fused_shared,
            gen.patho_respelled_shared, gen.patho_near_equal_exponents, gen.patho_uncontracted_block, gen.patho_block_general_shared_column,
            gen.patho_sp_zero_edges]
    f = pool[k % len(pool)]
    rng = random.Random(ctx.seed * 47 + k)
    b = f(rng)
    # elements beyond He have lval >= 1; keep the element the generator chose but make sure it has a p function to couple with
    check_basis(ctx, b, 'patho:%s:%d' % (f.__name__, k), rng)


def run(ctx):
    ctx.rule = ('autoaux_basis / autoabs_basis on orbital store basis sets (elements chosen around the Z thresholds) and generated '
                'orbital dictionaries, each in seven representations (original, general, uncontracted-general, spdf-split, sorted, '
                'shuffled shells/primitives/contractions, contractions scaled by powers of two): identical output required; covered elements, shell shape, caps, AutoAux '
                'ratios and ladder starts re-derived independently; the coupling / cap / ladder / grouping logic of the extracted model '
                'is run on the implementation\'s own per-momentum floats and compared with the output to 6 digits. Non-trivial = a '
                're-contracted or shuffled representation')
    ctx.trusted.append('the float pipeline (ints.gto_R_contr, math.gamma, exp/log, repeated float multiplication in the ladders) is not modelled: the model works on exact fractions of the implementation\'s per-momentum floats; agreement is required to 6 significant digits')
    md = store.metadata()
    orb = [k for k, v in md.items() if v['role'] == 'orbital']
    if ctx.thorough():
        pairs = [(k, v) for k in orb for v in md[k]['versions']]
    else:
        names = [n for n in store.sample_names(ctx.rng, 70, md) if n in orb][:28]
        pairs = [(n, md[n]['latest_version']) for n in names]
    store.parallel(ctx, work_store, pairs)
    store.parallel(ctx, work_generated, [ctx.seed * 311 + i for i in range(ctx.budget(60, 3000))])
    store.parallel(ctx, work_patho, list(range(ctx.budget(18, 180))))


def replay(ctx, rec):
    r = rec.get('replay', rec)
    if r.get('input'):
        check_basis(ctx, r['input'], 'replay', random.Random(1))
