"""C02 - re-contraction operations preserve the set of basis functions exactly."""
import copy
import itertools

from .. import impl, store, gen, oracle

OPS = [('prune_basis', ()), ('uncontract_general', ()), ('uncontract_spdf', (0, )), ('uncontract_spdf', (1, )),
       ('uncontract_spdf', (2, )), ('make_general', (False, )), ('make_general', (True, )), ('sort_basis', ())]


def nontrivial(b):
    """the input has a general contraction, a fused shell or an exponent shared between shells"""
    for el in b['elements'].values():
        seen = set()
        for sh in el.get('electron_shells', []):
            if len(sh['coefficients']) > 1 or len(sh['angular_momentum']) > 1:
                return True
            for x in sh['exponents']:
                key = (tuple(sh['angular_momentum']), oracle.dec(x))
                if key in seen:
                    return True
                seen.add(key)
    return False


def sort_ranks(b):
    """contraction order and shell ranks as the implementation computes them (float keys are not modelled)"""
    from basis_set_exchange import sort
    ranks = {}
    for z, el in b['elements'].items():
        if 'electron_shells' not in el:
            continue
        per = []
        mins = []
        for sh in el['electron_shells']:
            rs = sort._spatial_extent(sh)
            cidx = sorted(range(len(rs)), key=rs.__getitem__) if len(sh['angular_momentum']) == 1 else list(range(len(sh['coefficients'])))
            per.append(cidx)
            mins.append(min(rs))
        order = sorted(set(mins))
        ranks[z] = [[c, order.index(m)] for c, m in zip(per, mins)]
    return ranks


def call_impl(op, args, b):
    from basis_set_exchange import manip, sort
    f = getattr(sort, op) if op == 'sort_basis' else getattr(manip, op)
    return impl.call(f, copy.deepcopy(b), *args)


def shape_ok(op, args, out):
    for z, el in out['elements'].items():
        shells = el.get('electron_shells', [])
        if op == 'uncontract_general':
            for sh in shells:
                if len(sh['angular_momentum']) == 1 and len(sh['coefficients']) != 1:
                    return 'element %s: a single-momentum shell still has %d contractions' % (z, len(sh['coefficients']))
        elif op == 'uncontract_spdf':
            for sh in shells:
                if len(sh['angular_momentum']) > 1 and max(sh['angular_momentum']) > args[0]:
                    return 'element %s: fused shell %s has a member above max_am=%d' % (z, sh['angular_momentum'], args[0])
        elif op == 'make_general':
            seen = set()
            for sh in shells:
                if len(sh['angular_momentum']) == 1:
                    if sh['angular_momentum'][0] in seen:
                        return 'element %s: two shells of l=%d after make_general' % (z, sh['angular_momentum'][0])
                    seen.add(sh['angular_momentum'][0])
                elif not args[0]:
                    return 'element %s: fused shell left after make_general' % z
        elif op == 'sort_basis':
            last = -1
            for sh in shells:
                xs = [oracle.dec(x) for x in sh['exponents']]
                if any(a < b for a, b in zip(xs, xs[1:])):
                    return 'element %s: exponents not in decreasing order' % z
                m = max(sh['angular_momentum'])
                if m < last:
                    return 'element %s: shells not by increasing momentum' % z
                last = m
    return None


def check_op(ctx, b, op, args, label, kind):
    """correspondence + oracle for one direct call"""
    r = call_impl(op, args, b)
    ctx.case((label, op, args), nontrivial(b), kind + ':' + op)
    if ctx.model is not None:
        margs = [b] + list(args)
        if op == 'sort_basis':
            margs.append(sort_ranks(b))
        ctx.compare(op, r, ctx.model.call(op, *margs), {'basis': label, 'op': op, 'args': list(args)})
    site = ('sort.' if op == 'sort_basis' else 'manip.') + op
    if r[0] != 'ok':
        ctx.violation(site, 'raises:' + r[1] + ':' + kind.split(':')[0], '%s raises %s on a valid basis' % (op, r[1]),
                      {'kind': 'op', 'basis': label, 'op': op, 'args': list(args), 'input': b if len(str(b)) < 20000 else None})
        return None
    out = r[1]
    d = oracle.fs_diff(oracle.basis_fs(b), oracle.basis_fs(out))
    if d:
        ctx.violation(site, 'function-set', '%s changes the set of contracted functions: %s' % (op, d),
                      {'kind': 'op', 'basis': label, 'op': op, 'args': list(args), 'input': b if len(str(b)) < 20000 else None})
    if op == 'sort_basis':
        for z in b['elements']:
            if oracle.ecp_canon(b['elements'][z]) != oracle.ecp_canon(out['elements'][z]):
                ctx.violation(site, 'ecp', 'sort_basis changes ECP data of element %s' % z, {'kind': 'op', 'basis': label, 'op': op})
        a2 = {k: v for k, v in oracle.non_shell_part(b).items() if k != 'elements'}
        o2 = {k: v for k, v in oracle.non_shell_part(out).items() if k != 'elements'}
        if a2 != o2:
            ctx.violation(site, 'other-fields', 'sort_basis changes fields other than shells/potentials order', {'kind': 'op', 'basis': label, 'op': op})
        again = call_impl(op, args, out)
        if again != ('ok', out):
            ctx.violation(site, 'idempotent', 'sort_basis is not idempotent', {'kind': 'op', 'basis': label, 'op': op, 'input': b if len(str(b)) < 20000 else None})
    elif oracle.non_shell_part(b) != oracle.non_shell_part(out):
        ctx.violation(site, 'other-fields', '%s changes data other than electron shells (ECP, references, metadata)' % op,
                      {'kind': 'op', 'basis': label, 'op': op, 'args': list(args)})
    s = shape_ok(op, args, out)
    if s:
        ctx.violation(site, 'shape', '%s breaks its shape promise: %s' % (op, s),
                      {'kind': 'op', 'basis': label, 'op': op, 'args': list(args), 'input': b if len(str(b)) < 20000 else None})
    return out


FLAGS = ['uncontract_general', 'uncontract_spdf', 'make_general']


def check_flags(ctx, name, version, elements, plain):
    bse = impl.bse()
    base_fs = oracle.basis_fs(plain)
    for k in range(1, 4):
        for sub in itertools.combinations(FLAGS, k):
            kw = {f: True for f in sub}
            r = impl.call(bse.get_basis, name, version=version, elements=elements, **kw)
            ctx.case((name, version, tuple(elements or ()), sub), nontrivial(plain), 'get_basis-flags')
            site = 'api.get_basis[' + '+'.join(sub) + ']'
            if r[0] != 'ok':
                ctx.violation(site, 'raises:' + r[1], 'get_basis with %s raises %s' % (sub, r[1]),
                              {'kind': 'flags', 'name': name, 'version': version, 'elements': elements, 'flags': list(sub)})
                continue
            d = oracle.fs_diff(base_fs, oracle.basis_fs(r[1]))
            if d:
                ctx.violation(site, 'function-set', 'get_basis(%s) changes the function set: %s' % (','.join(sub), d),
                              {'kind': 'flags', 'name': name, 'version': version, 'elements': elements, 'flags': list(sub)})
            for z in plain['elements']:
                if oracle.ecp_canon(plain['elements'][z]) != oracle.ecp_canon(r[1]['elements'][z]):
                    ctx.violation(site, 'ecp', 'get_basis(%s) changes ECP data' % ','.join(sub),
                                  {'kind': 'flags', 'name': name, 'version': version, 'elements': elements, 'flags': list(sub)})
            if 'uncontract_general' in sub and 'make_general' not in sub:
                s = shape_ok('uncontract_general', (), r[1])
                if s:
                    ctx.violation(site, 'shape', s, {'kind': 'flags', 'name': name, 'version': version, 'flags': list(sub)})
            if 'make_general' in sub:
                s = shape_ok('make_general', (False, ), r[1])
                if s:
                    ctx.violation(site, 'shape', s, {'kind': 'flags', 'name': name, 'version': version, 'flags': list(sub)})


def work_store(ctx, item):
    name, version = item
    r = store.get_basis(name, version)
    if r[0] != 'ok':
        ctx.dist['store-unreadable'] += 1
        return
    full = r[1]
    if not any('electron_shells' in el for el in full['elements'].values()):
        ctx.dist['store-ecp-only'] += 1
    nmax = 200 if ctx.thorough() else 3
    b = store.restrict(full, ctx.rng, nmax)
    label = '%s/%s[%s]' % (name, version, ','.join(b['elements']))
    ctx.sample({'store': label, 'ops': [o for o, _ in OPS]})
    for op, args in OPS:
        check_op(ctx, b, op, args, label, 'store')
    check_flags(ctx, name, version, list(b['elements']), b)


def work_generated(ctx, seed):
    import random
    rng = random.Random(seed)
    b = gen.gen_basis(rng, unused_prob=0.3)   # dead primitives are legal input for the manip functions (not for the validator)
    label = 'gen:%d' % seed
    if seed % 50 == 0:
        ctx.sample({'generated': label, 'basis': b})
    for op, args in OPS:
        out = check_op(ctx, b, op, args, label, 'generated')
    # two-step chains through the direct calls (what the writers and get_basis do)
    chain = rng.sample(OPS, 2)
    cur = b
    for op, args in chain:
        r = call_impl(op, args, cur)
        if r[0] != 'ok':
            break
        cur = r[1]
    else:
        ctx.case((label, 'chain', tuple(chain)), True, 'generated:chain')
        d = oracle.fs_diff(oracle.basis_fs(b), oracle.basis_fs(cur))
        if d:
            ctx.violation('manip.chain', 'function-set', 'chain %s changes the function set: %s' % (chain, d),
                          {'kind': 'chain', 'input': b, 'chain': [[o, list(a)] for o, a in chain]})


def work_patho(ctx, seed):
    import random
    rng = random.Random(seed)
    pool = [f for f in gen.PATHOLOGICAL if f is not gen.patho_contraction_on_free] + gen.NOT_VALIDATOR_VALID
    which = pool[seed % len(pool)]
    b = which(rng)
    label = 'patho:%s:%d' % (which.__name__, seed)
    nosort = which in gen.NOT_VALIDATOR_VALID       # a zero contraction cannot be normalised: sorting is not defined there
    for op, args in OPS:
        if nosort and op == 'sort_basis':
            continue
        check_op(ctx, b, op, args, label, 'patho:' + which.__name__)
    # chains (the result of one call is the argument of the next, with whatever list sharing the first call left in it):
    # what the writers do before printing (uncontract_spdf / make_general, then sort_basis)
    chains = [[('uncontract_spdf', (0, )), ('sort_basis', ())], [('uncontract_spdf', (1, )), ('sort_basis', ())],
              [('make_general', ()), ('sort_basis', ())], [('uncontract_general', ()), ('sort_basis', ())]]
    chains += [[rng.choice(OPS) for _ in range(rng.randint(2, 3))] for _ in range(3)]
    from basis_set_exchange import manip, sort
    for chain in chains:
        if nosort and any(o == 'sort_basis' for o, _ in chain):
            continue
        cur = copy.deepcopy(b)
        ok = True
        for op, args in chain:
            f = getattr(sort, op) if op == 'sort_basis' else getattr(manip, op)
            r = impl.call(f, cur, *args)          # no copy in between: the shared lists stay shared
            if r[0] != 'ok':
                ok = False
                break
            cur = r[1]
        if not ok:
            ctx.dist['patho-chain-raises'] += 1
            continue
        ctx.case((label, 'chain', str(chain)), True, 'patho:chain')
        d = oracle.fs_diff(oracle.basis_fs(b), oracle.basis_fs(cur))
        if d:
            ctx.violation('manip.chain', 'function-set:' + '+'.join(o for o, _ in chain), 'chain %s changes the set of contracted functions: %s' % ([o for o, _ in chain], d),
                          {'kind': 'chain', 'input': b, 'chain': [[o, list(a)] for o, a in chain]})


def run(ctx):
    ctx.rule = ('every direct call (prune_basis, uncontract_general, uncontract_spdf max_am 0/1/2, make_general with and without '
                'skip_spdf, sort_basis) and every non-empty subset of the get_basis flags {uncontract_general, uncontract_spdf, '
                'make_general} on store basis/versions and generated valid dictionaries; implementation result compared exactly '
                '(raw strings, structure) with the extracted Gallina model, and checked by an independent Decimal-based oracle '
                '(function sets per element, ECP/other data untouched, shape promises, idempotence of sorting). A case is '
                '(input, operation, arguments); non-trivial = the input has a general contraction, a fused shell or a shared exponent')
    ctx.trusted.append("Python float() on the number strings is modelled by exact decimal comparison (coq/Model/Num.v); the two float sort keys of sort.py (_spatial_extent) are inputs to the model, taken from the implementation")
    ctx.assumptions.append('numbers have <= 15 significant digits in generated inputs; store numbers with 16-18 digits are covered by the correspondence run only')
    md = store.metadata()
    if ctx.thorough():
        pairs = store.all_pairs(md)
    else:
        names = store.sample_names(ctx.rng, 45, md)
        pairs = [(n, md[n]['latest_version']) for n in names]
        multi = [k for k, v in md.items() if len(v['versions']) > 1]
        pairs += [(k, sorted(md[k]['versions'])[0]) for k in ctx.rng.sample(multi, 5)]
        pairs += [(k, md[k]['latest_version']) for k in ('jgauss-dzp', 'jgauss-tzp1') if k in md]      # block-general contractions
    store.parallel(ctx, work_store, pairs)
    n = ctx.budget(240, 20000)
    store.parallel(ctx, work_generated, [ctx.seed * 100003 + i for i in range(n)])
    store.parallel(ctx, work_patho, [ctx.seed * 7 + i for i in range(ctx.budget(72, 900))])


def replay(ctx, rec):
    r = rec.get('replay', rec)
    if r.get('kind') == 'chain' and r.get('input'):
        from basis_set_exchange import manip, sort
        cur = copy.deepcopy(r['input'])
        for op, args in r['chain']:
            f = getattr(sort, op) if op == 'sort_basis' else getattr(manip, op)
            res = impl.call(f, cur, *args)
            if res[0] != 'ok':
                return
            cur = res[1]
        ctx.case(('replay', 'chain'), True, 'replay')
        d = oracle.fs_diff(oracle.basis_fs(r['input']), oracle.basis_fs(cur))
        if d:
            ctx.violation('manip.chain', 'function-set:' + '+'.join(o for o, _ in r['chain']), 'chain %s changes the set of contracted functions: %s' % ([o for o, _ in r['chain']], d), r)
    elif r.get('kind') == 'op' and r.get('input'):
        check_op(ctx, r['input'], r['op'], tuple(r.get('args', ())), 'replay', 'replay')
    elif r.get('kind') == 'flags':
        p = store.get_basis(r['name'], r['version'], elements=r.get('elements'))
        if p[0] == 'ok':
            check_flags(ctx, r['name'], r['version'], r.get('elements'), p[1])
    elif r.get('kind') == 'op' and r.get('basis', '').count('/') >= 1 and not r['basis'].startswith(('gen', 'patho', 'replay')):
        name, rest = r['basis'].rsplit('/', 1)
        version, els = rest.split('[')
        p = store.get_basis(name, version, elements=els.rstrip(']').split(','))
        if p[0] == 'ok':
            check_op(ctx, p[1], r['op'], tuple(r.get('args', ())), r['basis'], 'replay')
