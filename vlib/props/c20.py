"""C20 - element, name and angular-momentum notations convert back and forth without loss."""
import json
import os
import string

from .. import impl, paths

OFFICIAL = ("h he li be b c n o f ne na mg al si p s cl ar k ca sc ti v cr mn fe co ni cu zn ga ge as se br kr rb sr y zr "
            "nb mo tc ru rh pd ag cd in sn sb te i xe cs ba la ce pr nd pm sm eu gd tb dy ho er tm yb lu hf ta w re os ir "
            "pt au hg tl pb bi po at rn fr ra ac th pa u np pu am cm bk cf es fm md no lr rf db sg bh hs mt ds rg cn nh fl "
            "mc lv ts og").split()


def _cmp(ctx, op, fn, args, margs=None, nontrivial=True, kind=None):
    """Run implementation and model on the same arguments; returns the implementation result."""
    r = impl.call(fn, *args)
    ctx.case((op, args), nontrivial, kind or op)
    if ctx.model is not None:
        m = ctx.model.call(op, *(margs if margs is not None else args))
        ctx.compare(op, r, m, {'op': op, 'args': args})
    return r


def _intervals_to_set(iv):
    s = set()
    for a, b in iv:
        s.update(range(a, b + 1))
    return sorted(s)


def check_roundtrip(ctx, S, kind):
    """Oracle on the implementation + correspondence for one element list S (ints)."""
    from basis_set_exchange import misc
    margs = [list(S)]
    r = _cmp(ctx, 'compact_elements', misc.compact_elements, [list(S)], margs, nontrivial=len(S) > 1, kind=kind)
    want = sorted(set(S))
    if r[0] != 'ok':
        ctx.violation('misc.compact_elements', 'raises:' + r[1], 'compact_elements raises on a list of valid atomic numbers',
                      {'kind': 'roundtrip', 'S': list(S)})
        return
    comp = r[1]
    if comp is None:
        back = _cmp(ctx, 'expand_elements', misc.expand_elements, [comp], nontrivial=False, kind=kind + ':expand')
        if back != ('ok', want):
            ctx.violation('misc.compact_elements', 'empty-set', 'expand_elements(compact_elements([])) is not []: compact returns None',
                          {'kind': 'roundtrip', 'S': list(S), 'compact': None, 'expand': back})
        return
    back = _cmp(ctx, 'expand_elements', misc.expand_elements, [comp], nontrivial=len(S) > 1, kind=kind + ':expand')
    if back != ('ok', want):
        ctx.violation('misc.expand_elements', 'roundtrip', 'expand_elements(compact_elements(S)) != sorted set S',
                      {'kind': 'roundtrip', 'S': list(S), 'compact': comp, 'expand': back})
    # as_str variant and string members
    back2 = impl.call(misc.expand_elements, comp, True)
    if back2 != ('ok', [str(x) for x in want]):
        ctx.violation('misc.expand_elements', 'roundtrip-as_str', 'expand_elements(.., as_str=True) differs from the strings of the sorted set',
                      {'kind': 'roundtrip', 'S': list(S), 'compact': comp, 'expand': back2})


def gen_selection(rng, malformed=False):
    """A selection in mixed notation together with its expected expansion (None when malformed)."""
    from basis_set_exchange import lut
    items, exp = [], []

    def one(z):
        c = rng.randrange(5)
        if c == 0:
            return z
        if c == 1:
            return str(z)
        s = lut.element_sym_from_Z(z)
        if c == 2:
            return s
        if c == 3:
            return s.upper()
        return s.capitalize()

    for _ in range(rng.randint(1, 5)):
        if rng.random() < 0.5:
            z = rng.randint(1, 118)
            items.append(one(z))
            exp.append(z)
        else:
            a = rng.randint(1, 117)
            b = rng.randint(a, min(118, a + rng.randint(0, 12)))
            items.append('%s-%s' % (one(a), one(b)))
            exp.extend(range(a, b + 1))
    form = rng.randrange(3)
    if form == 0:
        sel = items
    elif form == 1:
        sel = ','.join(str(x) for x in items)
        if rng.random() < 0.3:
            sel = sel.replace(',', rng.choice([', ', ' ,', ',,', ' , ']))
        if rng.random() < 0.2:
            sel = rng.choice([',', ' ', '']) + sel + rng.choice([',', ' ', ''])
    else:
        sel = [','.join(str(x) for x in items[:2])] + items[2:]
    if malformed:
        base = ','.join(str(x) for x in items)
        mut = rng.randrange(9)
        if mut == 0:
            sel = base + '-'
        elif mut == 1:
            sel = '-' + base
        elif mut == 2:
            sel = 'H-Li-C,' + base
        elif mut == 3:
            sel = base + ',Xx'
        elif mut == 4:
            sel = base.replace(',', '-,', 1) if ',' in base else base + '-,H'
        elif mut == 5:
            sel = base.replace(',', ',-', 1) if ',' in base else 'H,-' + base
        elif mut == 6:
            sel = base + ',1-2-3'
        elif mut == 7:
            sel = base + ',h_e'
        else:
            sel = [base, 'Qq-3']
        return sel, None
    return sel, exp


def run(ctx):
    from basis_set_exchange import misc, lut
    rng = ctx.rng
    ctx.rule = ('correspondence: implementation (misc.*, lut.*) vs extracted Gallina model on the same arguments, results compared '
                'exactly (exception = class); inputs: every interval of 1..118, unions of up to 4 intervals, random subsets, '
                'mixed-notation and malformed selections, every symbol/name/Z of the table in three capitalisations, l in -1..30 x '
                'both conventions, every letter, electron counts -2..125, every index name, contraction strings; a case is distinct by '
                'the hash of (operation, arguments) and non-trivial when it is not a single element / single letter / identity input')
    ctx.trusted.append('Python str methods (lower, replace, split, strip, isdecimal, capitalize) and re on ASCII input, re-implemented in Gallina (coq/Model/Val.v, Elements.v)')
    ctx.assumptions.append('inputs are ASCII; Python int() on decimal digit strings')

    # 1. compact / expand round trip
    ivs = [(a, b) for a in range(1, 119) for b in range(a, 119)]
    if not ctx.thorough():
        ivs = [iv for i, iv in enumerate(ivs) if i % 9 == ctx.seed % 9 or iv[1] - iv[0] <= 2 or iv[1] == 118]
    for a, b in ivs:
        check_roundtrip(ctx, list(range(a, b + 1)), 'interval')
    for k in (2, 3, 4):
        for _ in range(ctx.budget(150, 6000)):
            cuts = sorted(rng.sample(range(1, 119), 2 * k))
            iv = [(cuts[2 * i], cuts[2 * i + 1]) for i in range(k)]
            S = _intervals_to_set(iv)
            rng.shuffle(S)
            if rng.random() < 0.3:
                S = S + S[:3]
            check_roundtrip(ctx, S, 'union%d' % k)
    if ctx.thorough():
        # exhaustive unions of two intervals with short gaps (where the "A,B" vs "A-B" rendering decisions live)
        for a in range(1, 119):
            for la in range(0, 4):
                for gap in range(1, 4):
                    for lb in range(0, 4):
                        c = a + la + gap
                        if c + lb <= 118:
                            check_roundtrip(ctx, _intervals_to_set([(a, a + la), (c, c + lb)]), 'union2-exhaustive-short')
    for _ in range(ctx.budget(300, 8000)):
        S = rng.sample(range(1, 119), rng.randint(1, 60))
        check_roundtrip(ctx, S, 'random-subset')
    check_roundtrip(ctx, [], 'empty')
    check_roundtrip(ctx, [str(z) for z in (3, 4, 5, 9)] and [3, 4, 5, 9], 'small')
    # string members are converted by int() inside compact_elements
    r = impl.call(misc.compact_elements, ['3', '1', '2', 7])
    ctx.case(('compact-strs',), True, 'compact-strs')
    if r != ('ok', 'H-Li,N'):
        ctx.violation('misc.compact_elements', 'string-members', 'compact_elements of string members is wrong', {'kind': 'plain', 'got': r})

    # 2. notations
    for _ in range(ctx.budget(400, 10000)):
        sel, exp = gen_selection(rng)
        r = _cmp(ctx, 'expand_elements', misc.expand_elements, [sel], kind='notation')
        ctx.sample({'expand_elements': sel, 'result': r[1] if r[0] == 'ok' and len(str(r[1])) < 200 else r[0]})
        if r != ('ok', exp):
            ctx.violation('misc.expand_elements', 'notation', 'a documented notation is not expanded to the denoted elements',
                          {'kind': 'expand', 'sel': sel, 'expected': exp, 'got': r})
    for _ in range(ctx.budget(200, 4000)):
        sel, _ = gen_selection(rng, malformed=True)
        r = _cmp(ctx, 'expand_elements', misc.expand_elements, [sel], kind='malformed')
        if r[0] == 'ok':
            ctx.violation('misc.expand_elements', 'malformed-accepted', 'a malformed selection is accepted',
                          {'kind': 'expand', 'sel': sel, 'expected': 'error', 'got': r})
    # random junk strings: only model/implementation agreement
    alphabet = 'HhEeLlIi0123456789,,--  \t_xX'
    for _ in range(ctx.budget(400, 10000)):
        s = ''.join(rng.choice(alphabet) for _ in range(rng.randint(0, 10)))
        _cmp(ctx, 'expand_elements', misc.expand_elements, [s], kind='junk')
    for v in (0, 5, 118, 119, -3):
        _cmp(ctx, 'expand_elements', misc.expand_elements, [v], kind='int')
    for v in ([], '', [''], ['', 'H'], [1, '', '2-4'], ',,', ' , '):
        _cmp(ctx, 'expand_elements', misc.expand_elements, [v], kind='emptyish')

    # 3. element table
    table_z = sorted({t[1] for t in lut._data_table})
    for z in range(-2, 126):
        for nrm in (False, True):
            rs = _cmp(ctx, 'element_sym_from_Z', lut.element_sym_from_Z, [z, nrm], kind='Z')
            rn = _cmp(ctx, 'element_name_from_Z', lut.element_name_from_Z, [z, nrm], kind='Z')
        _cmp(ctx, 'element_data_from_Z', lut.element_data_from_Z, [z], kind='Z', margs=[z])
        if 1 <= z <= 118:
            s = impl.call(lut.element_sym_from_Z, z)
            if s != ('ok', OFFICIAL[z - 1]):
                ctx.violation('lut.element_sym_from_Z', 'official', 'Z -> symbol is not the current official symbol',
                              {'kind': 'plain', 'Z': z, 'got': s, 'expected': OFFICIAL[z - 1]})
            if s[0] == 'ok':
                for variant in (s[1], s[1].upper(), s[1].capitalize()):
                    back = impl.call(lut.element_Z_from_sym, variant)
                    if back != ('ok', z):
                        ctx.violation('lut.element_Z_from_sym', 'inverse', 'symbol -> Z is not the inverse of Z -> symbol',
                                      {'kind': 'plain', 'Z': z, 'sym': variant, 'got': back})
            n = impl.call(lut.element_name_from_Z, z)
            if n[0] == 'ok':
                back = impl.call(lut.element_Z_from_name, n[1].upper())
                if back != ('ok', z):
                    ctx.violation('lut.element_Z_from_name', 'inverse', 'name -> Z is not the inverse of Z -> name',
                                  {'kind': 'plain', 'Z': z, 'name': n[1], 'got': back})
            zs = impl.call(lut.element_sym_from_Z, str(z))
            if zs != s:
                ctx.violation('lut.element_sym_from_Z', 'str-Z', 'Z given as a decimal string gives a different symbol',
                              {'kind': 'plain', 'Z': z, 'got': zs})
    syms = sorted({t[0] for t in lut._data_table}) + ['xx', 'q', '', 'hh', 'j']
    names = sorted({t[2] for t in lut._data_table}) + ['unobtainium', '']
    for s in syms:
        for v in {s, s.upper(), s.capitalize()}:
            r = _cmp(ctx, 'element_Z_from_sym', lut.element_Z_from_sym, [v], kind='sym')
            _cmp(ctx, 'element_data_from_sym', lut.element_data_from_sym, [v], kind='sym')
            if r[0] == 'ok' and 1 <= r[1] <= 118 and s in OFFICIAL and OFFICIAL[r[1] - 1] != s:
                ctx.violation('lut.element_Z_from_sym', 'official-sym', 'an official symbol maps to another element', {'kind': 'plain', 'sym': v, 'got': r})
    # every symbol the table knows (older systematic three-letter ones - Uun ... Uuo, Uue, Ubn - included) is a valid item
    # of an element selection, alone and as the end points of a range; 119 and 120 compact to symbols that expand back
    for t in lut._data_table:
        zsym = impl.call(lut.element_Z_from_sym, t[0])
        if zsym[0] != 'ok':
            continue
        for v in (t[0], t[0].upper(), t[0].capitalize()):
            r = impl.call(misc.expand_elements, v)
            ctx.case(('expand-symbol', v), len(v) > 2, 'expand:symbol')
            if r != ('ok', [zsym[1]]):
                ctx.violation('misc.expand_elements', 'symbol', 'the symbol %r of the element table is not expanded to [%d] (%s)' % (v, zsym[1], r), {'kind': 'plain', 'sym': v})
    long_syms = [t[0] for t in lut._data_table if len(t[0]) > 2]
    for a, b_ in zip(long_syms, long_syms[1:]):
        za, zb = lut.element_Z_from_sym(a), lut.element_Z_from_sym(b_)
        if za < zb:
            r = impl.call(misc.expand_elements, '%s-%s' % (a.capitalize(), b_))
            ctx.case(('expand-symbol-range', a, b_), True, 'expand:symbol-range')
            if r != ('ok', list(range(za, zb + 1))):
                ctx.violation('misc.expand_elements', 'symbol-range', 'the range %s-%s is not expanded to %d..%d (%s)' % (a, b_, za, zb, r), {'kind': 'plain'})
    for S in ([119], [120], [119, 120], [117, 118, 119, 120], [1, 119]):
        c = impl.call(misc.compact_elements, S)
        back = impl.call(misc.expand_elements, c[1]) if c[0] == 'ok' else c
        ctx.case(('compact-high', tuple(S)), True, 'compact:Z>118')
        if back != ('ok', S):
            ctx.violation('misc.expand_elements', 'roundtrip:Z>118', 'expand_elements(compact_elements(%s)) = %s (compact form %s)' % (S, back, c), {'kind': 'plain', 'S': S})
    for s in names:
        for v in {s, s.upper(), s.capitalize()}:
            _cmp(ctx, 'element_Z_from_name', lut.element_Z_from_name, [v], kind='name')
            _cmp(ctx, 'element_data_from_name', lut.element_data_from_name, [v], kind='name')

    # 4. angular momentum letters
    for hij in (False, True):
        nmax = len(lut._amchar_map_hij if hij else lut._amchar_map_hik)
        for l in range(-1, 31):
            r = _cmp(ctx, 'amint_to_char', lut.amint_to_char, [[l], hij, False], kind='am')
            if 0 <= l < nmax:
                if r[0] != 'ok' or len(r[1]) != 1:
                    ctx.violation('lut.amint_to_char', 'supported-l', 'a supported l has no letter', {'kind': 'plain', 'l': l, 'hij': hij, 'got': r})
                else:
                    for ch in (r[1], r[1].upper()):
                        back = _cmp(ctx, 'amchar_to_int', lut.amchar_to_int, [ch, hij], kind='am')
                        if back != ('ok', [l]):
                            ctx.violation('lut.amchar_to_int', 'inverse', 'letter -> l is not the inverse of l -> letter',
                                          {'kind': 'plain', 'l': l, 'hij': hij, 'letter': ch, 'got': back})
            elif r[0] == 'ok':
                ctx.violation('lut.amint_to_char', 'unsupported-l', 'an unsupported l is given a letter', {'kind': 'plain', 'l': l, 'hij': hij, 'got': r})
        for ch in string.ascii_lowercase + 'SPDL1 ':
            r = _cmp(ctx, 'amchar_to_int', lut.amchar_to_int, [ch, hij], kind='am')
            if r[0] == 'ok' and len(r[1]) == 1 and 0 <= r[1][0]:
                back = impl.call(lut.amint_to_char, r[1], hij)
                if back != ('ok', ch.lower()):
                    ctx.violation('lut.amint_to_char', 'inverse', 'l -> letter is not the inverse of letter -> l',
                                  {'kind': 'plain', 'letter': ch, 'hij': hij, 'got': back})
        for _ in range(ctx.budget(60, 1000)):
            am = [rng.randint(0, 26) for _ in range(rng.randint(0, 4))]
            useL = rng.random() < 0.5
            if rng.random() < 0.2:
                am = [0, 1]
            r = _cmp(ctx, 'amint_to_char', lut.amint_to_char, [am, hij, useL], kind='am-multi')
            if r[0] == 'ok' and not (useL and am == [0, 1]):
                _cmp(ctx, 'amchar_to_int', lut.amchar_to_int, [r[1], hij], kind='am-multi')

    # 5. electron_shells_start: as it is, then again after its users (the demon2k / crystal writers adjust the counts they get)
    #    and after a caller edited a returned list - the answers may not depend on that history
    def ess_history():
        import basis_set_exchange as bse
        for nm, fmt in (('lanl2dz', 'demon2k'), ('def2-svp', 'demon2k'), ('lanl2dz', 'crystal')):
            impl.call(bse.get_basis, nm, elements=[11, 47] if nm == 'lanl2dz' else [37, 53], fmt=fmt)
        for n in (0, 10, 28, 46):
            r = impl.call(lut.electron_shells_start, n)
            if r[0] == 'ok' and isinstance(r[1], list):
                for i in range(len(r[1])):
                    r[1][i] += 1
    for round_ in (0, 1):
      if round_ == 1:
        ess_history()
      for n in range(-2, 126):
        for mx in (20, 3, 0, 7):
            r = _cmp(ctx, 'electron_shells_start', lut.electron_shells_start, [n, mx], kind='ess' if round_ == 0 else 'ess-after-use', nontrivial=mx == 20)
            if r[0] == 'ok' and 0 <= n <= 118:
                st = r[1]
                covered = sum(2 * (2 * l + 1) * (st[l] - l - 1) for l in range(len(st)))
                if covered != n or len(st) != max(4, mx + 1):
                    ctx.violation('lut.electron_shells_start', 'count' if round_ == 0 else 'count:after-use', 'the start quantum numbers do not account for the electrons given'
                                  + (' (after the writers used the function and a caller edited a result)' if round_ else ''),
                                  {'kind': 'plain', 'nelectrons': n, 'max_am': mx, 'got': st, 'covered': covered})
    # the default max_am spelled out or not: the same answer (also after the history above)
    for n in range(0, 119):
        a, b2 = impl.call(lut.electron_shells_start, n), impl.call(lut.electron_shells_start, n, 20)
        ctx.case(('ess-default', n), True, 'ess-default-argument')
        if a != b2:
            ctx.violation('lut.electron_shells_start', 'default-argument', 'electron_shells_start(%d) = %s but electron_shells_start(%d, 20) = %s'
                          % (n, a, n, b2), {'kind': 'plain', 'nelectrons': n})
    ok_counts = [n for n in range(0, 119) if impl.call(lut.electron_shells_start, n)[0] == 'ok']
    ctx.extra['electron_counts_accepted'] = ok_counts
    for need in (0, 2, 10, 18, 28, 36, 46, 54, 60, 68, 78, 86, 92, 118):
        if need not in ok_counts:
            ctx.violation('lut.electron_shells_start', 'refuses-core', 'a closed-shell core count is refused', {'kind': 'plain', 'nelectrons': need})

    # 6. names
    with open(os.path.join(paths.REPO, 'basis_set_exchange', 'data', 'METADATA.json')) as f:
        md = json.load(f)
    allnames = []
    for k, v in md.items():
        allnames.append(v['display_name'])
        allnames.extend(v.get('other_names', []))
    for nm in allnames:
        t = _cmp(ctx, 'transform_basis_name', misc.transform_basis_name, [nm], kind='name-roundtrip',
                 nontrivial=any(c in nm for c in '*/ (') or nm != nm.lower())
        if t[0] == 'ok':
            back = _cmp(ctx, 'basis_name_from_filename', misc.basis_name_from_filename, [t[1]], kind='name-roundtrip')
            if back != ('ok', nm.lower()):
                ctx.violation('misc.basis_name_from_filename', 'roundtrip', 'file name -> basis name does not recover the lower-cased name',
                              {'kind': 'plain', 'name': nm, 'filename': t[1], 'got': back})
            if any(c in t[1] for c in '/*') or t[1] != t[1].lower():
                ctx.violation('misc.transform_basis_name', 'invalid-char', 'file-name form still contains / * or upper case',
                              {'kind': 'plain', 'name': nm, 'filename': t[1]})
            if misc.transform_basis_name(nm.upper()) != t[1] or misc.transform_basis_name(nm.lower()) != t[1]:
                ctx.violation('misc.transform_basis_name', 'case', 'transform depends on capitalisation', {'kind': 'plain', 'name': nm})
    for _ in range(ctx.budget(200, 5000)):
        s = ''.join(rng.choice('aB6-31+g*/()_slt ') for _ in range(rng.randint(0, 14)))
        t = _cmp(ctx, 'transform_basis_name', misc.transform_basis_name, [s], kind='name-random')
        _cmp(ctx, 'basis_name_from_filename', misc.basis_name_from_filename, [s], kind='name-random')
        # outside the index the escape scheme is ambiguous by construction when an 'sl' / 'st' touches '*', '/' or '_'
        # ("*sl*" -> "_st_sl_st_" also reads as "_st" + "/" + "st_"); the property quantifies over the names in the index,
        # the random stream only demands the round trip where it is well defined
        import re as _re
        if t[0] == 'ok' and not _re.search(r'[*/_]s[lt]|s[lt][*/_]', s.lower()):
            back = impl.call(misc.basis_name_from_filename, t[1])
            if back != ('ok', s.lower()):
                ctx.violation('misc.basis_name_from_filename', 'roundtrip', 'file name -> basis name does not recover the lower-cased name',
                              {'kind': 'plain', 'name': s, 'filename': t[1], 'got': back})

    # 7. contraction strings
    def cstr_case(el, kind):
        shells = el.get('electron_shells')
        marg = None if shells is None else [[list(s['angular_momentum']), len(s['exponents']), len(s['coefficients'])] for s in shells]
        for compact in (False, True):
            r = impl.call(misc.contraction_string, el, compact)
            ctx.case(('cstr', marg, compact), shells is not None and len(shells) > 1, kind)
            if ctx.model is not None:
                ctx.compare('contraction_string', r, ctx.model.call('contraction_string', marg, compact), {'shells': marg, 'compact': compact})
            # oracle: recount
            if r[0] == 'ok' and shells is not None and not compact:
                prim, cont = {}, {}
                for s in shells:
                    for am in s['angular_momentum']:
                        prim[am] = prim.get(am, 0) + len(s['exponents'])
                        cont[am] = cont.get(am, 0) + (len(s['coefficients']) if len(s['angular_momentum']) == 1 else 1)
                want = '(%s) -> [%s]' % (','.join('%d%s' % (prim[a], lut.amint_to_char([a])) for a in sorted(prim)),
                                         ','.join('%d%s' % (cont[a], lut.amint_to_char([a])) for a in sorted(cont)))
                if 0 in prim and r[1] != want:
                    ctx.violation('misc.contraction_string', 'count', 'contraction summary does not count the primitives/contractions present',
                                  {'kind': 'plain', 'shells': marg, 'got': r[1], 'expected': want})

    import basis_set_exchange as bse
    keys = sorted(md.keys())
    pick = keys if ctx.thorough() else rng.sample(keys, 25) + ['6-31g', 'sto-3g', 'lanl2dz', 'def2-ecp', 'cc-pvqz']
    for k in pick:
        r = impl.call(bse.get_basis, k)
        if r[0] != 'ok':
            ctx.dist['store-unreadable'] += 1
            continue
        for z, el in r[1]['elements'].items():
            cstr_case(el, 'cstr-store')
    for _ in range(ctx.budget(150, 3000)):
        shells = []
        for _ in range(rng.randint(0, 6)):
            if rng.random() < 0.25:
                am = list(range(0, rng.randint(2, 4)))
                ng = len(am)
            else:
                am = [rng.randint(0, 9)]
                ng = rng.randint(1, 5)
            np_ = rng.randint(1, 12)
            shells.append({'angular_momentum': am, 'exponents': ['1.0'] * np_, 'coefficients': [['1.0'] * np_] * ng})
        cstr_case({'electron_shells': shells} if rng.random() < 0.95 else {}, 'cstr-generated')


def replay(ctx, rec):
    """Re-run a recorded case on the current tree (implementation + oracle + model)."""
    r = rec.get('replay', rec)
    if r.get('kind') == 'roundtrip':
        check_roundtrip(ctx, r['S'], 'replay')
    elif r.get('kind') == 'expand':
        from basis_set_exchange import misc
        got = _cmp(ctx, 'expand_elements', misc.expand_elements, [r['sel']], kind='replay')
        exp = r.get('expected')
        if (exp == 'error' and got[0] == 'ok') or (isinstance(exp, list) and got != ('ok', exp)):
            ctx.violation('misc.expand_elements', 'replay', 'replayed selection still fails', dict(r, got_now=got))
    else:
        ctx.note('replay record of kind %r is re-checked by the full run' % r.get('kind'))
        run(ctx)
