"""C05 - all spellings of a query select the same data."""
import random

from .. import impl, store, datadir
from .c01 import norm_err
from .c20 import gen_selection


def randcase(rng, s):
    return ''.join(c.upper() if rng.random() < 0.5 else c.lower() for c in s)


def selection_for(rng, zs):
    """a mixed-notation selection over the defined elements zs (ints, sorted) + its expected member set"""
    from basis_set_exchange import lut

    def one(z):
        c = rng.randrange(6)
        s = lut.element_sym_from_Z(z)
        # a number may carry leading zeros ('08'): int() reads it as 8
        return [z, str(z), s, s.upper(), s.capitalize(), rng.choice(['0', '00']) + str(z)][c]

    items, exp = [], set()
    for _ in range(rng.randint(1, 4)):
        if rng.random() < 0.6 or len(zs) < 2:
            z = rng.choice(zs)
            items.append(one(z))
            exp.add(z)
        else:
            i = rng.randrange(len(zs) - 1)
            j = rng.randrange(i, min(len(zs), i + 6))
            a, b = zs[i], zs[j]
            items.append('%s%s-%s%s' % (one(a), rng.choice(['', '', ' ']), rng.choice(['', '', ' ']), one(b)))
            exp.update(range(a, b + 1))
    # blanks anywhere in a string item are not significant ("H - Li", " 1 , 3 ")
    items = [(rng.choice(['', ' ']) + x + rng.choice(['', ' '])) if isinstance(x, str) and rng.random() < 0.3 else x for x in items]
    form = rng.randrange(3)
    if form == 0:
        sel = items
    elif form == 1:
        sel = rng.choice([',', ', ', ' ,']).join(str(x) for x in items)
    else:
        sel = [','.join(str(x) for x in items[:2])] + items[2:]
    return sel, exp


def work(ctx, item):
    name, version = item
    bse = impl.bse()
    md = store.metadata()
    entry = md[name]
    rng = random.Random('%s/%s/%d' % (name, version, ctx.seed // 1000))
    r = store.get_basis(name, version)
    if r[0] != 'ok':
        ctx.dist['store-unreadable'] += 1
        return
    full = r[1]
    disp = entry['display_name']
    site = 'api.get_basis'
    files = None
    if ctx.model is not None:
        files = dict(datadir.chain_files(store.DATA, entry['versions'][version]['file_relpath']))
        files['METADATA.json'] = {name: entry}

    # spellings of the name
    for sp in {disp.upper(), disp.lower(), randcase(rng, disp), name}:
        a = impl.call(bse.get_basis, sp, version=version)
        ctx.case((name, version, sp), sp != disp, 'name-spelling')
        if a != r:
            ctx.violation(site, 'name-spelling', 'get_basis(%r) differs from get_basis(%r)' % (sp, disp),
                          {'kind': 'spelling', 'name': name, 'version': version, 'spelling': sp})
    # aliases: same data, own display name
    for other in entry.get('other_names', []):
        a = impl.call(bse.get_basis, other, version=version)
        ctx.case((name, version, 'alias', other), True, 'alias')
        if a[0] != 'ok' or {k: v for k, v in a[1].items() if k != 'name'} != {k: v for k, v in full.items() if k != 'name'}:
            ctx.violation(site, 'alias', 'alias %r of %r returns different data' % (other, disp),
                          {'kind': 'alias', 'name': name, 'version': version, 'alias': other})
    # version as int / str / default
    if version.isdigit():
        a = impl.call(bse.get_basis, disp, version=int(version))
        ctx.case((name, version, 'int'), True, 'version-int')
        if a != r:
            ctx.violation(site, 'version-int', 'version given as int differs from version given as str', {'kind': 'version', 'name': name, 'version': version})
    if all(v.isdigit() for v in entry['versions']):
        highest = max(entry['versions'], key=int)
        if version == highest:
            a = impl.call(bse.get_basis, disp)
            ctx.case((name, 'default'), len(entry['versions']) > 1, 'version-default')
            if a != r:
                fp = 'default-version:string-max' if max(entry['versions']) != highest else 'default-version'
                ctx.violation(site, fp, 'default version is not the highest listed (%s)' % highest, {'kind': 'version', 'name': name, 'version': None})
    # selections
    zs = sorted(int(z) for z in full['elements'])
    if len(zs) >= 3:
        # a range written downwards denotes no element (range(hi, lo + 1) is empty): beside another item it adds nothing
        from basis_set_exchange import lut
        lo, hi = zs[1], zs[-1]
        for sel in ('%d,%d-%d' % (zs[0], hi, lo), '%s,%s-%s' % (lut.element_sym_from_Z(zs[0]), lut.element_sym_from_Z(hi), lut.element_sym_from_Z(lo)), [zs[0], '%d-%d' % (hi, lo)]):
            a = impl.call(bse.get_basis, disp, elements=sel, version=version)
            b = impl.call(bse.get_basis, disp, elements=[zs[0]], version=version)
            ctx.case((name, version, 'downward-range', repr(sel)), True, 'selection:downward-range')
            if files is not None:
                ctx.compare('get_basis_plain', norm_err(a), norm_err(ctx.model.call('get_basis_plain', files, disp, version, sel)),
                            {'kind': 'selection', 'name': name, 'version': version, 'selection': sel})
            if a != b:
                ctx.violation(site, 'downward-range', 'elements=%r differs from elements=[%d]: a downward range selects elements' % (sel, zs[0]),
                              {'kind': 'selection', 'name': name, 'version': version, 'selection': sel})
    for sel in ('0%d' % zs[0], '00%d' % zs[-1], ' 0%d ' % zs[0]):
        # a bare numeric string with leading zeros is the element of that number
        a = impl.call(bse.get_basis, disp, elements=sel, version=version)
        b = impl.call(bse.get_basis, disp, elements=[int(sel)], version=version)
        ctx.case((name, version, 'zero-padded', sel), True, 'selection:zero-padded')
        if a != b:
            ctx.violation(site, 'zero-padded', 'elements=%r differs from elements=[%d] (%s vs %s)' % (sel, int(sel), a[0] if a[0] == 'ok' else a[1], b[0] if b[0] == 'ok' else b[1]),
                          {'kind': 'selection', 'name': name, 'version': version, 'selection': sel})
    for _ in range(ctx.budget(6, 30)):
        sel, exp = selection_for(rng, zs)
        a = impl.call(bse.get_basis, randcase(rng, disp), elements=sel, version=version)
        undefined = [z for z in exp if str(z) not in full['elements']]
        ctx.case((name, version, repr(sel)), isinstance(sel, list) or ',' in str(sel) or '-' in str(sel), 'selection' + (':crossing-undefined' if undefined else ''))
        replay = {'kind': 'selection', 'name': name, 'version': version, 'selection': sel}
        if files is not None:
            ctx.compare('get_basis_plain', norm_err(a), norm_err(ctx.model.call('get_basis_plain', files, disp, version, sel)), replay)
        if undefined:
            if a != ('error', 'KeyError'):
                ctx.violation(site, 'missing-element', 'selection naming undefined element(s) %s does not raise KeyError' % undefined[:3], replay)
            continue
        if a[0] != 'ok':
            ctx.violation(site, 'selection-raises:' + a[1], 'valid selection %r raises %s' % (sel, a[1]), replay)
            continue
        want = dict(full)
        want['elements'] = {k: v for k, v in full['elements'].items() if int(k) in exp}
        types = set()
        for el in want['elements'].values():
            types.update(s['function_type'] for s in el.get('electron_shells', []))
            types.update(p['ecp_type'] for p in el.get('ecp_potentials', []))
        want['function_types'] = sorted(types)
        if a[1] != want or list(a[1]['elements']) != list(want['elements']):
            ctx.violation(site, 'selection', 'get_basis(elements=%r) is not the full basis restricted to %s' % (sel, sorted(exp)[:10]), replay)
        ctx.sample({'name': disp, 'version': version, 'elements': sel, 'selected': sorted(exp)})
    for empty in (None, [], '', [''], ' ', ',', [',,,'], ['', ' ']):        # a selection that expands to nothing selects everything
        a = impl.call(bse.get_basis, disp, elements=empty, version=version)
        ctx.case((name, version, repr(empty)), False, 'selection-empty')
        if a != r:
            ctx.violation(site, 'selection-empty', 'elements=%r does not mean all elements' % (empty, ), {'kind': 'selection', 'name': name, 'version': version, 'selection': empty})
    # malformed selections
    for _ in range(2):
        sel, _x = gen_selection(rng, malformed=True)
        a = impl.call(bse.get_basis, disp, elements=sel, version=version)
        ctx.case((name, version, repr(sel)), True, 'selection-malformed')
        if files is not None:
            ctx.compare('get_basis_plain', norm_err(a), norm_err(ctx.model.call('get_basis_plain', files, disp, version, sel)),
                        {'kind': 'selection', 'name': name, 'version': version, 'selection': sel})
        if a[0] == 'ok':
            ctx.violation(site, 'malformed-accepted', 'malformed selection %r accepted' % (sel, ), {'kind': 'selection', 'name': name, 'version': version, 'selection': sel})
    # unknown things raise KeyError
    z1 = int(next(iter(full['elements'])))
    for kw, fp in (({'version': '99'}, 'unknown-version'), ({'version': 1.5}, 'unknown-version:1.5'), ({'version': 0.3}, 'unknown-version:0.3'), ({'elements': [119 if '119' not in full['elements'] else 120]}, 'unknown-element'),
                   ({'elements': [0]}, 'unknown-element:[0]'), ({'elements': [0, z1]}, 'unknown-element:[0,z]'), ({'elements': ['0']}, "unknown-element:['0']"),
                   ({'elements': '0,%d' % z1}, "unknown-element:'0,z'"), ({'elements': [z1, 0, 'X']}, 'unknown-element:[z,0,X]')):
        args = dict(version=version)
        args.update(kw)
        a = impl.call(bse.get_basis, disp, **args)
        ctx.case((name, version, fp), True, fp)
        if a != ('error', 'KeyError'):
            ctx.violation(site, fp, '%s gives %s instead of KeyError' % (fp, a[0] if a[0] == 'ok' else a[1]), {'kind': 'unknown', 'name': name, 'args': args})
    # get_references: spellings
    ref = impl.call(bse.get_references, disp, version=version)
    for sp in (disp.upper(), randcase(rng, disp)):
        a = impl.call(bse.get_references, sp, version=version)
        ctx.case((name, version, 'refs', sp), True, 'references-spelling')
        if a != ref:
            ctx.violation('api.get_references', 'name-spelling', 'get_references(%r) differs from get_references(%r)' % (sp, disp),
                          {'kind': 'spelling', 'name': name, 'version': version, 'spelling': sp})
    if ref[0] == 'ok':
        # a bare integer is an accepted notation of one element, for get_references as for get_basis; an undefined one is a KeyError
        a = impl.call(bse.get_references, disp, elements=zs[0], version=version)
        b = impl.call(bse.get_references, disp, elements=[zs[0]], version=version)
        u = impl.call(bse.get_references, disp, elements=119 if 119 not in zs else 120, version=version)
        ctx.case((name, version, 'refs-int'), True, 'references-selection:int')
        if a != b or u != ('error', 'KeyError'):
            ctx.violation('api.get_references', 'selection:int', 'get_references(elements=%d) gives %s, elements=[%d] gives %s; an undefined integer gives %s'
                          % (zs[0], a[0] if a[0] == 'ok' else a[1], zs[0], b[0] if b[0] == 'ok' else b[1], u[0] if u[0] == 'ok' else u[1]),
                          {'kind': 'selection', 'name': name, 'version': version, 'selection': zs[0]})
    if ref[0] == 'ok' and len(zs) > 1:
        sel, exp = selection_for(rng, zs)
        if all(str(z) in full['elements'] for z in exp):
            a = impl.call(bse.get_references, disp, elements=sel, version=version)
            b = impl.call(bse.get_references, disp, elements=sorted(exp), version=version)
            ctx.case((name, version, 'refs-sel', repr(sel)), True, 'references-selection')
            if a != b:
                ctx.violation('api.get_references', 'selection', 'get_references differs between two notations of one selection',
                              {'kind': 'selection', 'name': name, 'version': version, 'selection': sel})


def run(ctx):
    ctx.rule = ('per (name, version): every capitalisation and alias, version as int/str/default, mixed-notation element selections '
                '(ints, numeric strings, symbols in any case, ranges, comma lists, lists), ranges crossing undefined elements, malformed '
                'strings, unknown name/version/element; get_basis compared with the extracted model get_basis_plain on the raw files and '
                'with the restriction of the full result; get_references compared across spellings. Non-trivial = a spelling different '
                'from the display name / a selection with more than one item')
    md = store.metadata()
    bse = impl.bse()
    for bad in ('no-such-basis', '6-31g**x', ''):
        a = impl.call(bse.get_basis, bad)
        ctx.case(('unknown-name', bad), True, 'unknown-name')
        if a != ('error', 'KeyError'):
            ctx.violation('api.get_basis', 'unknown-name', 'unknown name %r gives %s' % (bad, a), {'kind': 'unknown', 'name': bad})
    if ctx.thorough():
        pairs = store.all_pairs(md)
    else:
        names = store.sample_names(ctx.rng, 70, md)
        withalias = [k for k, v in md.items() if v.get('other_names')]
        names += ctx.rng.sample(withalias, min(10, len(withalias)))
        pairs = [(n, md[n]['latest_version']) for n in names]
        multi = [k for k, v in md.items() if len(v['versions']) > 1]
        pairs += [(k, sorted(md[k]['versions'])[0]) for k in ctx.rng.sample(multi, 8)]
    store.parallel(ctx, work, pairs)


def replay(ctx, rec):
    r = rec.get('replay', rec)
    if r.get('name') in store.metadata():
        v = r.get('version') or store.metadata()[r['name']]['latest_version']
        work(ctx, (r['name'], v))
