"""C14 - the information header can never change or corrupt the payload."""
import copy
import random

from .. import impl, store, gen, oracle

BOUNDARIES = ['\n', '\r', '\r\n', '\x0b', '\x0c', '\x1c', '\x1d', '\x1e', '\x85', ' ', ' ']


def nasty_text(rng, n=None):
    """descriptions with every kind of line boundary, comment / section markers, non-ASCII"""
    words = ['basis', '****', '!', '#', '*', '$end', 'END', 'BASIS "ao basis" PRINT', 'H     0', '1.0 2.0', 'é', 'Å', '–', '$basis', '&', 'spherical', '',
             '    #2 indented', '  *-type functions', '   !experimental', '    $basis', '\t# tab']      # lines that begin with blanks and then a comment / section marker
    out = []
    for _ in range(n or rng.randint(1, 8)):
        out.append(rng.choice(words))
        out.append(rng.choice(BOUNDARIES + [' ', ' ', '']))
    if rng.random() < 0.3:
        # a line longer than any fixed-format column limit: a long unbreakable word (URL / DOI) or a long sentence
        out.append(rng.choice(['https://example.org/' + 'a' * rng.randint(70, 120), ' '.join(['word%d' % i for i in range(rng.randint(15, 30))])]))
        out.append(rng.choice(['\n', '', ' tail']))
    return ''.join(out)


def formats():
    from basis_set_exchange.writers import write
    return dict(write._writer_map)


def check_text(ctx, fmt, basis, header, label):
    """one (format, basis, header) case: model assembly vs implementation, and the line-level oracle"""
    from basis_set_exchange import writers
    wm = formats()
    bare = impl.call(writers.write_formatted_basis_str, copy.deepcopy(basis), fmt, None)
    headed = impl.call(writers.write_formatted_basis_str, copy.deepcopy(basis), fmt, header)
    ctx.case((label, fmt, header), any(b in header for b in BOUNDARIES if b != '\n'), 'assemble:' + fmt)
    replay = {'kind': 'text', 'label': label, 'fmt': fmt, 'header': header}
    if bare[0] != headed[0]:
        ctx.violation('writers.write_formatted_basis_str', 'outcome', 'the header changes whether %s output can be produced (%s vs %s)' % (fmt, bare, headed), replay)
        return None
    if bare[0] != 'ok':
        ctx.dist['unsupported:' + fmt] += 1
        return None
    comment = wm[fmt]['comment']
    # body = bare text without the psi4 keyword line
    pre = ''
    if fmt == 'psi4':
        # psi4 needs spherical / cartesian as its first non-comment line: with and without a header the text starts with it
        pre = ('cartesian' if 'gto_cartesian' in basis['function_types'] else 'spherical') + '\n\n'
        for which, txt in (('without a header', bare[1]), ('with a header', headed[1])):
            if not txt.startswith(pre):
                ctx.violation('writers.write_formatted_basis_str', 'psi4-keyword', 'the psi4 text %s does not start with the line %r (it starts %r)'
                              % (which, pre.strip(), txt[:30]), replay)
                return None
    body = bare[1][len(pre):]
    if ctx.model is not None and len(bare[1]) < 150000:
        m = ctx.model.call('write_formatted', fmt, list(basis['function_types']), body, header)
        got = ('ok', headed[1].encode('utf-8').decode('utf-8', 'surrogateescape'))
        ctx.compare('write_formatted(headed)', got, m, replay)
    if comment is None:
        if headed[1] != bare[1]:
            ctx.violation('writers.write_formatted_basis_str', 'commentless', 'format %s has no comment marker but the header changes the output' % fmt, replay)
        return bare[1], headed[1]
    # oracle: headed = pre + H + body, every line of H starts with the comment marker (or is blank)
    if not (headed[1].startswith(pre) and headed[1].endswith(body)):
        ctx.violation('writers.write_formatted_basis_str', 'payload', 'with a header the %s payload is not the bare payload' % fmt, replay)
        return bare[1], headed[1]
    H = headed[1][len(pre):len(headed[1]) - len(body)]
    if H and not H.endswith('\n'):
        # the last header line runs into the first payload line: that payload line is now part of a comment
        ctx.violation('writers.write_formatted_basis_str', 'payload-line-in-header',
                      'the header of the %s output does not end at a line end: the first payload line %r is appended to a comment line'
                      % (fmt, body.split('\n', 1)[0][:40]), replay)
        return bare[1], headed[1]
    for line in H.splitlines():
        if line.strip() and not line.startswith(comment):
            ctx.violation('writers.write_formatted_basis_str', 'uncommented-line',
                          'a header line of the %s output does not start with the comment marker %r: %r' % (fmt, comment, line[:60]), replay)
            break
    return bare[1], headed[1]


def readback_same(ctx, fmt, bare, headed, label, header):
    from basis_set_exchange import readers
    rfmt = {'gaussian94lib': 'gaussian94'}.get(fmt, fmt)       # the system-library form of the Gaussian format is read by the gaussian94 reader
    if rfmt not in readers.read._reader_map:
        return
    a = impl.call(readers.read_formatted_basis_str, bare, rfmt)
    b = impl.call(readers.read_formatted_basis_str, headed, rfmt)
    ctx.case((label, fmt, 'readback'), True, 'readback:' + fmt)
    if a[0] == 'ok' and b[0] == 'ok':
        if a[1]['elements'] != b[1]['elements']:
            ctx.violation('readers.read_formatted_basis_str', 'headed-readback', 'reading back headed %s text gives different data than reading the bare text' % fmt,
                          {'kind': 'readback', 'label': label, 'fmt': fmt, 'header': header})
    elif a[0] != b[0]:
        ctx.violation('readers.read_formatted_basis_str', 'headed-outcome:' + fmt, 'the header changes whether %s text can be read back (%s vs %s)' % (fmt, a[0], b[0]),
                      {'kind': 'readback', 'label': label, 'fmt': fmt, 'header': header})


def work_store(ctx, item):
    name, version = item
    bse = impl.bse()
    from basis_set_exchange import api
    r = store.get_basis(name, version)
    if r[0] != 'ok':
        ctx.dist['store-unreadable'] += 1
        return
    rng = random.Random('%s/%s/%d' % (name, version, ctx.seed // 1000))
    b = store.restrict(r[1], rng, 200 if ctx.thorough() else 3)
    els = list(b['elements'])
    label = '%s/%s' % (name, version)
    fmts = list(formats())
    if not ctx.thorough():
        fmts = rng.sample(fmts, 10) + ['psi4', 'gaussian94lib', 'json']
    for fmt in fmts:
        # the real header, through get_basis(header=True/False)
        others = [v for v in store.metadata()[name]['versions'] if v != version]
        if others and fmt in fmts[:3]:
            # history: another version of this basis was headed before in this process
            impl.call(bse.get_basis, name, version=others[0], fmt=fmt, header=True)
        h = impl.call(bse.get_basis, name, elements=els, version=version, fmt=fmt, header=True)
        n = impl.call(bse.get_basis, name, elements=els, version=version, fmt=fmt, header=False)
        ctx.case((label, fmt, 'get_basis'), True, 'get_basis-header:' + fmt)
        if h[0] != n[0]:
            ctx.violation('api.get_basis', 'outcome', 'header=True/False changes the outcome for %s' % fmt, {'kind': 'get_basis', 'name': name, 'fmt': fmt})
            continue
        if h[0] != 'ok':
            continue
        real_header = api._header_string(b)
        out = check_text(ctx, fmt, b, real_header, label)
        if out:
            if out[1] != h[1] or out[0] != n[1]:
                ctx.violation('api.get_basis', 'differs-from-writer', 'get_basis(fmt=%s) text differs from write_formatted_basis_str with the API header' % fmt,
                              {'kind': 'get_basis', 'name': name, 'fmt': fmt})
            if formats()[fmt]['comment'] is not None and ('Basis set: ' + b['name'] + '\n') not in h[1][:len(h[1]) - len(n[1])]:
                # the name the header states is the name of the dictionary (the one the payload carries), also for a basis
                # requested under a name that is not the first of its family's list of names
                ctx.violation('api._header_string', 'states-name', 'the header does not state the name %r of the basis it heads' % b['name'],
                              {'kind': 'get_basis', 'name': name, 'fmt': fmt})
            if formats()[fmt]['comment'] is not None and b.get('revision_description') and \
                    ' '.join(b['revision_description'].split())[:30] not in ' '.join(h[1][:len(h[1]) - len(n[1])].replace(formats()[fmt]['comment'], ' ').split()):
                # the header of version v carries v's own revision text (also when another version was headed before in this process)
                ctx.violation('api._header_string', 'states-revision', 'the header of version %s does not carry its revision description %r'
                              % (b['version'], b['revision_description'][:40]), {'kind': 'get_basis', 'name': name, 'fmt': fmt})
            for needle in (b['name'], b['role'], b['version'], api.version()):
                if formats()[fmt]['comment'] is not None and needle not in h[1][:len(h[1]) - len(n[1]) + 80]:
                    ctx.violation('api._header_string', 'states', 'the header does not state %r' % needle, {'kind': 'get_basis', 'name': name, 'fmt': fmt})
            readback_same(ctx, fmt, n[1], h[1], label, real_header)
        # the format name in another capitalisation: the same text
        odd = ''.join(c.upper() if i % 2 == 0 else c for i, c in enumerate(fmt)) if rng.random() < 0.5 else fmt.capitalize()
        for hdr in (True, False):
            o = impl.call(bse.get_basis, name, elements=els, version=version, fmt=odd, header=hdr)
            ctx.case((label, odd, hdr), True, 'format-capitalisation')
            if o != (h if hdr else n):
                ctx.violation('api.get_basis', 'format-capitalisation:' + ('header' if hdr else 'bare'),
                              'fmt=%r and fmt=%r give different text (header=%s)' % (odd, fmt, hdr), {'kind': 'get_basis', 'name': name, 'fmt': fmt})
        # hostile headers
        hh = nasty_text(rng)
        out = check_text(ctx, fmt, b, hh, label)
        if out and rng.random() < 0.5:
            readback_same(ctx, fmt, out[0], out[1], label, hh)
    # the header describes the basis that is in the text, also when that is a generated auxiliary basis
    if b.get('role') == 'orbital' and any('electron_shells' in el for el in b['elements'].values()):
        for aux in (1, 2):
            dct = impl.call(bse.get_basis, name, elements=els, version=version, get_aux=aux)
            for fmt in ('nwchem', rng.choice([f for f in fmts if formats()[f]['comment'] is not None])):
                hx = impl.call(bse.get_basis, name, elements=els, version=version, get_aux=aux, fmt=fmt, header=True)
                nx = impl.call(bse.get_basis, name, elements=els, version=version, get_aux=aux, fmt=fmt, header=False)
                ctx.case((label, fmt, 'get_aux', aux), True, 'get_aux-header')
                if dct[0] != 'ok' or hx[0] != 'ok' or nx[0] != 'ok':
                    continue
                head = hx[1][:len(hx[1]) - len(nx[1]) + 80]
                for needle in (dct[1]['name'], 'Role: ' + dct[1]['role']):
                    if needle not in head:
                        ctx.violation('api._header_string', 'states:get_aux', 'with get_aux=%d the header does not state %r (the text holds that basis)' % (aux, needle),
                                      {'kind': 'get_basis', 'name': name, 'fmt': fmt})
    ctx.sample({'store': label, 'formats': fmts[:5], 'hostile_header': nasty_text(rng, 3)})


def work_generated(ctx, seed):
    rng = random.Random(seed)
    b = gen.gen_basis(rng, nel=1)
    b['description'] = nasty_text(rng)
    b['revision_description'] = nasty_text(rng, 3)
    from basis_set_exchange import api
    hdr = impl.call(api._header_string, b)
    for fmt in rng.sample(list(formats()), 6):
        if hdr[0] == 'ok':
            out = check_text(ctx, fmt, b, hdr[1], 'gen:%d' % seed)
            if out:
                readback_same(ctx, fmt, out[0], out[1], 'gen:%d' % seed, hdr[1])
        check_text(ctx, fmt, b, nasty_text(rng), 'gen:%d' % seed)
    # the text primitives on their own
    if ctx.model is not None:
        for _ in range(6):
            t = nasty_text(rng)
            ctx.compare('splitlines', ('ok', t.splitlines(True)), ctx.model.call('splitlines', t, True), {'text': t})
            ctx.compare('splitlines', ('ok', t.splitlines()), ctx.model.call('splitlines', t, False), {'text': t})
            from basis_set_exchange.readers import helpers
            lines = [x for x in t.replace('\x1c', '\n').replace('\x85', '\n').split('\n')]
            asc = [''.join(ch for ch in x if ord(ch) < 128) for x in lines]
            for sk, pb in (('#!', True), ('*', False), ('', True)):
                ctx.compare('prune_lines', impl.call(helpers.prune_lines, list(asc), sk, pb), ctx.model.call('prune_lines', asc, sk, pb, True), {'lines': asc, 'sk': sk})
            ctx.case(('text', t), True, 'text-primitives')


def run(ctx):
    ctx.rule = ('for store basis sets x output formats: get_basis(fmt, header=True/False) and write_formatted_basis_str with the API header '
                'and with hostile headers (every Python line boundary, comment and section markers of the formats, non-ASCII): the headed '
                'text must be [psi4 keyword] + commented lines + the bare payload, commentless formats unchanged, read-back of headed and '
                'bare text gives the same data or the same refusal; the assembly is compared byte for byte with the extracted model over '
                'the translated writer table; str.splitlines and prune_lines are compared with the model on hostile text. Non-trivial = '
                'a header containing a boundary other than \\n')
    ctx.trusted.append('textwrap.fill inside api._header_string is not modelled: the header text is taken from the implementation; only its commenting and placement are modelled')
    if ctx.model is not None:
        wt = ctx.model.call('writer_table')[1]
        mine = {k: {'comment': v['comment'], 'valid': None if v['valid'] is None else sorted(v['valid']), 'extension': v['extension']}
                for k, v in formats().items()}
        ctx.compare('writer_table', ('ok', mine), ('ok', wt), {})
    md = store.metadata()
    if ctx.thorough():
        pairs = store.all_pairs(md)
    else:
        pairs = [(n, md[n]['latest_version']) for n in store.sample_names(ctx.rng, 30, md)]
        # names that are not the first entry of their family's list of names (ten in the store)
        pairs += [(n, md[n]['latest_version']) for n in ('6-31g(d,p)', 'midix') if n in md]
        # a description with curly braces ("10^{-5}"), and both versions of a basis in one process (the header states each one's own)
        pairs += [(n, md[n]['latest_version']) for n in ('ahgbs-5', 'hgbs-5', 'lanl2dz') if n in md]      # lanl2dz: ECP blocks (blank lines inside the payload)
        multi = sorted(k for k, v in md.items() if len(v['versions']) > 1)
        for k in ctx.rng.sample(multi, min(3, len(multi))):
            pairs += [(k, v) for v in sorted(md[k]['versions'])]
    store.parallel(ctx, work_store, pairs)
    store.parallel(ctx, work_generated, [ctx.seed * 53 + i for i in range(ctx.budget(60, 3000))])


def replay(ctx, rec):
    r = rec.get('replay', rec)
    if r.get('name'):
        work_store(ctx, (r['name'], store.metadata()[r['name']]['latest_version']))
