"""C07 - primitive-level operations do exactly what they are defined to do."""
import copy
import itertools
from decimal import Decimal

from .. import impl, store, gen, oracle
from .c02 import nontrivial

OPS = ['uncontract_segmented', 'remove_free_primitives', 'optimize_general']
OTHER_FLAGS = ['uncontract_general', 'uncontract_spdf', 'make_general']


def has_mixed_fused(b):
    for el in b['elements'].values():
        for sh in el.get('electron_shells', []):
            if len(sh['angular_momentum']) > 1:
                singles = [sum(1 for c in col if oracle.dec(c) != 0) == 1 for col in sh['coefficients']]
                if any(singles) and not all(singles):
                    return True
    return False


def expected_unc_seg(el):
    s = set()
    for sh in el.get('electron_shells', []):
        for l in sh['angular_momentum']:
            for x in sh['exponents']:
                s.add((l, frozenset([(oracle.dec(x), Decimal(1))])))
    return s


def expected_rm_free(el):
    return {f for f in oracle.element_fs(el) if len(f[1]) >= 2}


def oracle_op(ctx, op, b, out, label, site, replay):
    for z, el in b['elements'].items():
        o = out['elements'].get(z)
        if o is None:
            ctx.violation(site, 'element-lost', '%s drops element %s' % (op, z), replay)
            continue
        if oracle.ecp_canon(el) != oracle.ecp_canon(o) or \
                {k: v for k, v in el.items() if k != 'electron_shells'} != {k: v for k, v in o.items() if k != 'electron_shells'}:
            ctx.violation(site, 'ecp', '%s changes ECP/reference data of element %s' % (op, z), replay)
        got = oracle.element_fs(o)
        if op == 'uncontract_segmented':
            want = expected_unc_seg(el)
            if got != want:
                ctx.violation(site, 'unit-functions', 'uncontract_segmented: element %s does not hold exactly one unit function per (l, primitive): %d extra, %d missing'
                              % (z, len(got - want), len(want - got)), replay)
        elif op == 'remove_free_primitives':
            if has_mixed_fused({'elements': {z: el}}):
                fp = 'mixed-fused'
            else:
                fp = 'functions'
            want = expected_rm_free(el)
            if got != want:
                ctx.violation(site, fp, 'remove_free_primitives: element %s: result is not exactly the functions contracting >= 2 primitives (%d extra, %d missing)'
                              % (z, len(got - want), len(want - got)), replay)
            probs = [p for p in oracle.wellformed_problems({'elements': {z: o}, 'function_types': None}, True) if 'unused primitive' in p or 'momenta and' in p]
            if probs:
                ctx.violation(site, fp + ':shape', 'remove_free_primitives leaves an unused primitive or an inconsistent fused shell: %s' % probs[0], replay)
        elif op == 'optimize_general':
            if not oracle.same_span(el.get('electron_shells', []), o.get('electron_shells', [])):
                ctx.violation(site, 'span', 'optimize_general changes the linear span of element %s' % z, replay)


def check_direct(ctx, b, label, kind):
    from basis_set_exchange import manip
    for op in OPS:
        r = impl.call(getattr(manip, op), copy.deepcopy(b))
        ctx.case((label, op), nontrivial(b), kind + ':' + op)
        if ctx.model is not None:
            ctx.compare(op, r, ctx.model.call(op, b), {'basis': label, 'op': op})
        site = 'manip.' + op
        replay = {'kind': 'op', 'basis': label, 'op': op, 'input': b if len(str(b)) < 20000 else None}
        if r[0] != 'ok':
            if op == 'optimize_general' and r[1] == 'RuntimeError' and kind == 'patho:patho_dup_function':
                ctx.dist['documented-refusal:optimize_general-duplicate-free-primitive'] += 1
                continue    # "Badly-formatted basis. Row k makes duplicate shells": the documented refusal
            fp = 'raises:' + r[1] + ':' + kind.split(':')[0]
            ctx.violation(site, fp, '%s raises %s' % (op, r[1]), replay)
            continue
        oracle_op(ctx, op, b, r[1], label, site, replay)
        if op == 'optimize_general':
            mg = impl.call(manip.make_general, copy.deepcopy(b), True)
            if mg[0] == 'ok':
                for z in b['elements']:
                    if oracle.nnz(r[1]['elements'][z].get('electron_shells', [])) > oracle.nnz(mg[1]['elements'][z].get('electron_shells', [])):
                        ctx.violation(site, 'nnz', 'optimize_general has more non-zero coefficients than the general-contracted input (element %s)' % z, replay)


def check_flags(ctx, name, version, elements, plain):
    """the three operations through get_basis, alone and combined with the other flags"""
    bse = impl.bse()
    for op in OPS:
        for k in range(0, 3):
            for sub in itertools.combinations(OTHER_FLAGS, k):
                if ctx.tier == 'quick' and k == 2 and ctx.rng.random() < 0.5:
                    continue
                kw = {f: True for f in (op, ) + sub}
                r = impl.call(bse.get_basis, name, version=version, elements=elements, **kw)
                ctx.case((name, version, tuple(elements), op, sub), nontrivial(plain), 'get_basis:' + op)
                site = 'api.get_basis[' + '+'.join((op, ) + sub) + ']'
                replay = {'kind': 'flags', 'name': name, 'version': version, 'elements': elements, 'flags': [op] + list(sub)}
                if ctx.model is not None:
                    m = ctx.model.call('get_basis_options', plain, kw)
                    ctx.compare('get_basis_options', r, m, replay)
                if r[0] != 'ok':
                    ctx.violation(site, 'raises:' + r[1], 'get_basis(%s) raises %s' % (kw, r[1]), replay)
                    continue
                out = r[1]
                for z, el in plain['elements'].items():
                    o = out['elements'][z]
                    if oracle.ecp_canon(el) != oracle.ecp_canon(o):
                        ctx.violation(site, 'ecp', 'ECP data changed', replay)
                    got = oracle.element_fs(o)
                    if op == 'uncontract_segmented':
                        # the other flags only re-group the same unit functions
                        if got != expected_unc_seg(el):
                            ctx.violation(site, 'unit-functions', 'element %s: not exactly one unit function per (l, primitive)' % z, replay)
                    elif op == 'remove_free_primitives':
                        fp = 'mixed-fused' if has_mixed_fused({'elements': {z: el}}) else 'functions'
                        if got != expected_rm_free(el):
                            ctx.violation(site, fp, 'element %s: not exactly the functions contracting >= 2 primitives' % z, replay)
                    else:
                        if not oracle.same_span(el.get('electron_shells', []), o.get('electron_shells', [])):
                            ctx.violation(site, 'span', 'element %s: linear span changed' % z, replay)


def fs_shells(fs):
    """one pseudo-shell per function of a function set (for the span oracle)"""
    out = []
    for l, f in fs:
        pairs = sorted(f)
        out.append({'angular_momentum': [l], 'exponents': [str(x) for x, _ in pairs], 'coefficients': [[str(c) for _, c in pairs]]})
    return out


def check_op_pairs(ctx, name, version, elements, plain):
    """the three operations combined with each other through get_basis.  What the combination must return does not depend
    on the order in which the library applies them: with remove_free_primitives the functions contracting >= 2 primitives
    (optimize_general may re-express them: same span), with uncontract_segmented the unit functions of whatever is left"""
    bse = impl.bse()
    for combo in (('remove_free_primitives', 'optimize_general'), ('remove_free_primitives', 'uncontract_segmented'),
                  ('uncontract_segmented', 'optimize_general'), ('remove_free_primitives', 'optimize_general', 'uncontract_segmented')):
        kw = {f: True for f in combo}
        r = impl.call(bse.get_basis, name, version=version, elements=elements, **kw)
        ctx.case((name, version, tuple(elements), combo), nontrivial(plain), 'get_basis:' + '+'.join(combo))
        site = 'api.get_basis[' + '+'.join(combo) + ']'
        replay = {'kind': 'flags', 'name': name, 'version': version, 'elements': elements, 'flags': list(combo)}
        if ctx.model is not None:
            ctx.compare('get_basis_options', r, ctx.model.call('get_basis_options', plain, kw), replay)
        if r[0] != 'ok':
            ctx.violation(site, 'raises:' + r[1], 'get_basis(%s) raises %s' % (kw, r[1]), replay)
            continue
        for z, el in plain['elements'].items():
            if has_mixed_fused({'elements': {z: el}}):
                continue
            o = r[1]['elements'][z]
            kept = expected_rm_free(el) if 'remove_free_primitives' in combo else oracle.element_fs(el)
            if 'uncontract_segmented' in combo:
                want = {(l, frozenset([(x, Decimal(1))])) for l, f in kept for x, _ in f}
                if oracle.element_fs(o) != want:
                    ctx.violation(site, 'unit-functions', 'element %s: not exactly the unit functions of the primitives of the functions that are kept' % z, replay)
            elif not oracle.same_span(fs_shells(kept), o.get('electron_shells', [])):
                ctx.violation(site, 'span', 'element %s: the result does not span the functions contracting >= 2 primitives' % z, replay)


def work_store(ctx, item):
    name, version = item
    r = store.get_basis(name, version)
    if r[0] != 'ok':
        ctx.dist['store-unreadable'] += 1
        return
    nmax = 200 if ctx.thorough() else 3
    b = store.restrict(r[1], ctx.rng, nmax)
    label = '%s/%s[%s]' % (name, version, ','.join(b['elements']))
    ctx.sample({'store': label, 'ops': OPS})
    check_direct(ctx, b, label, 'store')
    p = store.get_basis(name, version, elements=list(b['elements']))
    if p[0] == 'ok':
        check_flags(ctx, name, version, list(b['elements']), p[1])
        check_op_pairs(ctx, name, version, list(b['elements']), p[1])


def work_generated(ctx, seed):
    import random
    rng = random.Random(seed)
    b = gen.gen_basis(rng)
    if seed % 40 == 0:
        ctx.sample({'generated': seed, 'basis': b})
    check_direct(ctx, b, 'gen:%d' % seed, 'generated')


def work_patho(ctx, seed):
    import random
    rng = random.Random(seed)
    pool = [f for f in gen.PATHOLOGICAL if f not in (gen.patho_spd, gen.patho_pd_fused)]
    which = pool[seed % len(pool)]
    check_direct(ctx, which(rng), 'patho:%s:%d' % (which.__name__, seed), 'patho:' + which.__name__)


def run(ctx):
    ctx.rule = ('uncontract_segmented, remove_free_primitives, optimize_general called directly and through get_basis alone and '
                'combined with subsets of {uncontract_general, uncontract_spdf, make_general}, on store basis/versions and generated '
                'valid dictionaries; implementation vs extracted model (exact), plus independent oracles: unit-function set by Decimal, '
                'functions with >= 2 non-zero coefficients, exact-rational span equality (Fraction elimination), non-zero count, ECP '
                'untouched. Non-trivial = input has a general contraction, fused shell or shared exponent')
    ctx.trusted.append("Python float() modelled by exact decimal comparison (coq/Model/Num.v)")
    md = store.metadata()
    if ctx.thorough():
        pairs = store.all_pairs(md)
    else:
        pairs = [(n, md[n]['latest_version']) for n in store.sample_names(ctx.rng, 40, md)]
        pairs += [(n, md[n]['latest_version']) for n in ('cc-pvdz', 'lanl2dz') if n in md]     # free primitives shared with contractions
    store.parallel(ctx, work_store, pairs)
    store.parallel(ctx, work_generated, [ctx.seed * 100019 + i for i in range(ctx.budget(240, 20000))])
    store.parallel(ctx, work_patho, [ctx.seed * 11 + i for i in range(ctx.budget(64, 900))])


def replay(ctx, rec):
    r = rec.get('replay', rec)
    if r.get('input'):
        check_direct(ctx, r['input'], 'replay', 'replay')
    elif r.get('kind') == 'flags':
        p = store.get_basis(r['name'], r['version'], elements=r.get('elements'))
        if p[0] == 'ok':
            check_flags(ctx, r['name'], r['version'], r.get('elements'), p[1])
