"""Python side of coq/Model/Wire.v."""


def enc(v, out):
    if v is None:
        out.append(b'N')
    elif v is True:
        out.append(b'T')
    elif v is False:
        out.append(b'F')
    elif isinstance(v, int):
        out.append(b'I%d;' % v)
    elif isinstance(v, str):
        b = v.encode('utf-8')
        out.append(b'S%d:' % len(b))
        out.append(b)
    elif isinstance(v, bytes):
        out.append(b'S%d:' % len(v))
        out.append(v)
    elif isinstance(v, (list, tuple)):
        out.append(b'L%d:' % len(v))
        for x in v:
            enc(x, out)
    elif isinstance(v, dict):
        out.append(b'D%d:' % len(v))
        for k, x in v.items():
            kb = str(k).encode('utf-8')
            out.append(b'%d:' % len(kb))
            out.append(kb)
            enc(x, out)
    else:
        raise TypeError('cannot encode %r' % type(v))


def encode(v):
    out = []
    enc(v, out)
    return b''.join(out)


def decode(b):
    v, i = _dec(b, 0)
    if i != len(b):
        raise ValueError('trailing bytes')
    return v


def _num(b, i, stop):
    j = b.index(stop, i)
    return int(b[i:j]), j + 1


def _dec(b, i):
    c = b[i:i + 1]
    i += 1
    if c == b'N':
        return None, i
    if c == b'T':
        return True, i
    if c == b'F':
        return False, i
    if c == b'I':
        return _num(b, i, b';')
    if c == b'S':
        n, i = _num(b, i, b':')
        return b[i:i + n].decode('utf-8', 'surrogateescape'), i + n
    if c == b'L':
        n, i = _num(b, i, b':')
        out = []
        for _ in range(n):
            v, i = _dec(b, i)
            out.append(v)
        return out, i
    if c == b'D':
        n, i = _num(b, i, b':')
        out = {}
        for _ in range(n):
            kn, i = _num(b, i, b':')
            k = b[i:i + kn].decode('utf-8', 'surrogateescape')
            i += kn
            v, i = _dec(b, i)
            out[k] = v
        return out, i
    raise ValueError('bad tag %r at %d' % (c, i))
