"""Calling the implementation under test (always /repo's working tree)."""
import os
import sys

from . import paths

os.environ.setdefault('PYTHONHASHSEED', '0')
if sys.path[0] != paths.REPO:
    sys.path.insert(0, paths.REPO)

ERR_CLASSES = [
    (KeyError, 'KeyError'), (NotImplementedError, 'NotImplementedError'), (RuntimeError, 'RuntimeError'),
    (TypeError, 'TypeError'), (IndexError, 'IndexError'), (AssertionError, 'AssertionError'),
    (ValueError, 'ValueError'),
]


def err_class(e):
    for cls, name in ERR_CLASSES:
        if isinstance(e, cls):
            return name
    return 'Other:' + type(e).__name__


class _Sink:
    def write(self, s):
        return len(s)

    def flush(self):
        pass


_SINK = _Sink()


def call(f, *args, **kw):
    """('ok', value) or ('error', class name).  What the implementation prints is dropped (the check's own stdout carries
    the VIOLATION / KNOWN-FINDING lines)."""
    old = sys.stdout
    sys.stdout = _SINK
    try:
        return ('ok', f(*args, **kw))
    except Exception as e:  # noqa
        return ('error', err_class(e))
    finally:
        sys.stdout = old


def bse():
    import basis_set_exchange
    assert os.path.realpath(basis_set_exchange.__file__).startswith(os.path.realpath(paths.REPO)), \
        'implementation not imported from ' + paths.REPO
    return basis_set_exchange


def call_printed(f, *args, **kw):
    """like call, but also returns what the implementation printed to stdout while it ran: (result, text)"""
    import io
    old = sys.stdout
    buf = io.StringIO()
    sys.stdout = buf
    try:
        r = ('ok', f(*args, **kw))
    except Exception as e:  # noqa
        r = ('error', err_class(e))
    finally:
        sys.stdout = old
    return r, buf.getvalue()
