"""Translate /repo -> coq/Gen, build the Coq development, extract and build the OCaml driver.

Everything is rebuilt from /repo's current working tree on every call; unchanged translator
output leaves the Gen files untouched so that make does nothing.
"""
import fcntl
import hashlib
import importlib
import os
import re
import subprocess
import sys
import time

from . import paths

# (translator module, output file under coq/Gen)
TRANSLATORS = [
    ('translator.gen_lut', 'GenLut.v'),
    ('translator.gen_consts', 'GenConsts.v'),
    ('translator.gen_api', 'GenApi.v'),
    ('translator.gen_memo', 'GenMemo.v'),
    ('translator.gen_schema', 'GenSchema.v'),
    ('translator.gen_index', 'GenIndex.v'),
    ('translator.gen_writers', 'GenWriters.v'),
    ('translator.gen_readers', 'GenReaders.v'),
    ('translator.gen_effects', 'GenEffects.v'),
    ('translator.gen_cli', 'GenCli.v'),
]

FORBIDDEN = re.compile(r'\b(Admitted|admit|Axiom|Axioms|Parameter|Parameters|Conjecture|Conjectures|Abort All)\b'
                       r'|Unset\s+Guard|bypass_check|Admit\s+Obligations|-type-in-type|-impredicative-set'
                       r'|Unset\s+Universe\s+Checking|Unset\s+Positivity')


class BuildStatus:
    def __init__(self):
        self.translate_errors = {}   # Gen file -> message
        self.make_ok = False
        self.make_failed_files = []  # .v files whose compilation failed
        self.model_ok = False        # extracted driver is available and current
        self.forbidden = []          # grep gate hits
        self.log = ''
        self.wall = {}

    def summary(self):
        return {'translate_errors': self.translate_errors, 'make_ok': self.make_ok,
                'failed_files': self.make_failed_files, 'model_ok': self.model_ok,
                'forbidden': self.forbidden, 'wall': self.wall}


def _write_if_changed(path, text):
    try:
        with open(path, encoding='utf-8') as f:
            if f.read() == text:
                return False
    except FileNotFoundError:
        pass
    tmp = path + '.tmp'
    with open(tmp, 'w', encoding='utf-8') as f:
        f.write(text)
    os.replace(tmp, path)
    return True


def _run(cmd, cwd, timeout):
    p = subprocess.run(cmd, cwd=cwd, stdout=subprocess.PIPE, stderr=subprocess.STDOUT, timeout=timeout,
                       env=dict(os.environ, LC_ALL='C'))
    return p.returncode, p.stdout.decode('utf-8', 'replace')


def v_files(include_properties=False):
    out = []
    for sub in ('Gen', 'Model', 'Ops', 'Proofs', 'Extract') + (('Properties', ) if include_properties else ()):
        d = os.path.join(paths.COQ, sub)
        if os.path.isdir(d):
            for f in sorted(os.listdir(d)):
                if f.endswith('.v'):
                    out.append(sub + '/' + f)
    return out


def grep_gate():
    hits = []
    for rel in v_files(include_properties=True):
        with open(os.path.join(paths.COQ, rel), encoding='utf-8') as f:
            text = f.read()
        # strip comments (non-nested is enough for the gate: a hit inside a comment is still reported)
        for i, line in enumerate(text.split('\n'), 1):
            if FORBIDDEN.search(line):
                hits.append('%s:%d: %s' % (rel, i, line.strip()[:100]))
    return hits


def translate(status):
    if paths.VERIF not in sys.path:
        sys.path.insert(0, paths.VERIF)
    from translator.common import TranslateError
    t0 = time.time()
    for mod, out in TRANSLATORS:
        target = os.path.join(paths.COQ, 'Gen', out)
        try:
            m = importlib.import_module(mod)
            text = m.generate(paths.REPO)
            _write_if_changed(target, text)
        except TranslateError as e:
            status.translate_errors[out] = str(e)
        except Exception as e:  # fail closed on anything unexpected too
            status.translate_errors[out] = 'translator crashed: %s: %s' % (type(e).__name__, e)
        if out in status.translate_errors:
            # a stale Gen file must not be used: replace it by one that cannot compile
            _write_if_changed(target, '(* translation failed: %s *)\nDefinition translation_failed : False := I.\n' %
                              status.translate_errors[out].replace('*)', '* )'))
    status.wall['translate'] = round(time.time() - t0, 2)


def build(log=None):
    """Translate, make, extract, compile the driver.  Returns a BuildStatus."""
    status = BuildStatus()
    os.makedirs(os.path.join(paths.COQ, 'Gen'), exist_ok=True)
    lock = open(os.path.join(paths.COQ, '.lock'), 'w')
    fcntl.flock(lock, fcntl.LOCK_EX)
    try:
        translate(status)
        status.forbidden = grep_gate()
        t0 = time.time()
        with open(os.path.join(paths.COQ, '_CoqProject')) as f:
            head = f.read()
        full = head + '\n'.join(v_files()) + '\n'
        changed = _write_if_changed(os.path.join(paths.COQ, '_CoqProject.full'), full)
        if changed or not os.path.exists(os.path.join(paths.COQ, 'Makefile')):
            rc, out = _run(['coq_makefile', '-f', '_CoqProject.full', '-o', 'Makefile'], paths.COQ, 120)
            status.log += out
        rc, out = _run(['timeout', '3000', 'make', '-k', '-j16'], paths.COQ, 3100)
        status.log += out
        status.make_ok = (rc == 0)
        status.make_failed_files = sorted(set(re.findall(r'File "\./([^"]+\.v)", line \d+, characters [^\n]*\n(?:[^\n]*\n)*?Error', out)))
        if not status.make_ok and not status.make_failed_files:
            status.make_failed_files = sorted(set(re.findall(r'\*\*\* \[[^\]]*: ([^\]]+\.vo)\] Error', out)))
        for rel in status.make_failed_files:
            # a stale .vo of a file that no longer compiles must not be taken for a proof
            vo = os.path.join(paths.COQ, rel[:-2] + '.vo') if rel.endswith('.v') else os.path.join(paths.COQ, rel)
            if os.path.exists(vo):
                os.unlink(vo)
        status.wall['make'] = round(time.time() - t0, 2)
        # extraction + driver
        t0 = time.time()
        status.model_ok = _build_driver(status)
        status.wall['ocaml'] = round(time.time() - t0, 2)
        with open(paths.BUILD_LOG, 'w') as f:
            f.write(status.log)
    finally:
        fcntl.flock(lock, fcntl.LOCK_UN)
        lock.close()
    return status


def _build_driver(status):
    ml = os.path.join(paths.COQ, 'model.ml')
    mli = os.path.join(paths.COQ, 'model.mli')
    vo = os.path.join(paths.COQ, 'Extract', 'Extract.vo')
    if not (os.path.exists(vo) and os.path.exists(ml) and os.path.exists(mli)):
        return False
    rc, _ = _run(['make', '-q', 'Extract/Extract.vo'], paths.COQ, 300)
    if rc != 0:
        return False
    gen = os.path.join(paths.OCAML, 'gen')
    os.makedirs(gen, exist_ok=True)
    h = hashlib.sha256()
    for p in (ml, mli, os.path.join(paths.OCAML, 'driver.ml')):
        with open(p, 'rb') as f:
            h.update(f.read())
    stamp = os.path.join(paths.OCAML, 'driver.stamp')
    drv = os.path.join(paths.OCAML, 'driver')
    try:
        with open(stamp) as f:
            if f.read() == h.hexdigest() and os.path.exists(drv):
                return True
    except FileNotFoundError:
        pass
    for p in (ml, mli):
        with open(p, 'rb') as f, open(os.path.join(gen, os.path.basename(p)), 'wb') as g:
            g.write(f.read())
    rc, out = _run(['ocamlfind', 'ocamlopt', '-O2', '-w', '-a', '-I', 'gen', 'gen/model.mli', 'gen/model.ml',
                    'driver.ml', '-o', 'driver'], paths.OCAML, 600)
    status.log += out
    if rc != 0:
        return False
    with open(stamp, 'w') as f:
        f.write(h.hexdigest())
    return True


THEOREM_RE = re.compile(r'^\s*(Theorem|Example)\s+([A-Za-z0-9_\']+)', re.M)


def check_properties(prop_id):
    """Compile coq/Properties/<prop_id>.v on its own and account for its theorems.

    Returns dict(ok, theorems=[{name, kind, assumptions}], output, cmd)."""
    rel = 'Properties/%s.v' % prop_id
    path = os.path.join(paths.COQ, rel)
    cmd = ['timeout', '900', 'coqc', '-R', '.', 'BSE', '-w', '-notation-overridden,-deprecated-hint-without-locality', rel]
    res = {'ok': False, 'theorems': [], 'output': '', 'cmd': 'cd %s && %s' % (paths.COQ, ' '.join(cmd)), 'wall': 0}
    if not os.path.exists(path):
        res['output'] = 'missing ' + rel
        return res
    with open(path, encoding='utf-8') as f:
        src = f.read()
    t0 = time.time()
    lock = open(os.path.join(paths.COQ, '.lock'), 'w')
    fcntl.flock(lock, fcntl.LOCK_SH)
    try:
        rc, out = _run(cmd, paths.COQ, 1000)
    finally:
        fcntl.flock(lock, fcntl.LOCK_UN)
        lock.close()
    res['wall'] = round(time.time() - t0, 2)
    res['output'] = out
    names = [(m.group(2), m.group(1)) for m in THEOREM_RE.finditer(src)]
    printed = re.findall(r'(?m)^\s*Print Assumptions\s+([A-Za-z0-9_\']+)\s*\.', src)
    # split the output into Print Assumptions blocks, in order
    blocks = re.split(r'(?m)^(?=Closed under the global context|Axioms:)', out)
    blocks = [b for b in blocks if b.startswith('Closed under') or b.startswith('Axioms:')]
    assumptions = {}
    if rc == 0 and len(blocks) == len(printed):
        for nm, b in zip(printed, blocks):
            if b.startswith('Closed under'):
                assumptions[nm] = []
            else:
                assumptions[nm] = [l.split(':')[0].strip() for l in b.split('\n')[1:] if re.match(r'^\S.* :', l) or re.match(r'^\S+$', l.strip() or ' ')]
    for nm, kind in names:
        res['theorems'].append({'name': nm, 'kind': kind, 'discharged': rc == 0 and nm in assumptions,
                                'assumptions': assumptions.get(nm)})
    res['ok'] = (rc == 0)
    return res


def coqchk(prop_id):
    """Thorough tier: re-check the compiled property file and everything it depends on with the independent checker.

    Returns dict(ok, axioms=[...], summary, wall)."""
    t0 = time.time()
    # coqchk takes minutes (for C03 / C04, which load every format development, much longer): it runs on a private snapshot of
    # the compiled files, taken under the lock, so that it neither blocks nor is disturbed by a rebuild
    import shutil
    import tempfile
    snap = tempfile.mkdtemp(prefix='vcoqchk')
    lock = open(os.path.join(paths.COQ, '.lock'), 'w')
    fcntl.flock(lock, fcntl.LOCK_SH)
    try:
        for root, _dirs, files in os.walk(paths.COQ):
            rel = os.path.relpath(root, paths.COQ)
            for f in files:
                if f.endswith('.vo'):
                    os.makedirs(os.path.join(snap, rel), exist_ok=True)
                    shutil.copy2(os.path.join(root, f), os.path.join(snap, rel, f))
    finally:
        fcntl.flock(lock, fcntl.LOCK_UN)
        lock.close()
    try:
        rc, out = _run(['timeout', '6000', 'coqchk', '-o', '-silent', '-R', '.', 'BSE', 'BSE.Properties.%s' % prop_id], snap, 6100)
    finally:
        shutil.rmtree(snap, ignore_errors=True)
    tail = out[out.rfind('CONTEXT SUMMARY'):] if 'CONTEXT SUMMARY' in out else out[-1500:]
    m = re.search(r'\* Axioms:\s*(.*?)\n\s*\n\* Constants', tail, re.S)
    axioms = []
    if m and '<none>' not in m.group(1):
        axioms = [l.strip() for l in m.group(1).split('\n') if l.strip()]
    unsafe = [k for k in ('type-in-type', 'unsafe (co)fixpoints', 'positivity is assumed')
              if re.search(re.escape(k) + r':\s*(?!<none>)\S', tail)]
    return {'ok': rc == 0 and not unsafe, 'rc': rc, 'axioms': axioms, 'unsafe': unsafe, 'summary': tail[-1200:], 'wall': round(time.time() - t0, 1)}
