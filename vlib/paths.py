import os
VERIF = os.path.dirname(os.path.dirname(os.path.abspath(__file__)))
REPO = os.environ.get('VERIF_REPO', '/repo')
COQ = os.path.join(VERIF, 'coq')
OCAML = os.path.join(VERIF, 'ocaml')
EVIDENCE = os.path.join(VERIF, 'evidence')
REPLAYS = os.path.join(EVIDENCE, 'replays')
CORPUS = os.path.join(VERIF, 'corpus')
BUILD_LOG = os.path.join(VERIF, 'coq', 'build.log')
FINDINGS = os.path.join(VERIF, 'KNOWN_FINDINGS.jsonl')
PY = '/venv/bin/python'
