"""Independent Python oracles (share no code with the model): exact decimal function sets, spans."""
from decimal import Decimal
from fractions import Fraction


def dec(s):
    return Decimal(s.strip())


def shell_functions(sh):
    """contracted functions of one shell: list of (l, frozenset of (exponent, coefficient) with non-zero coefficient)"""
    am = sh['angular_momentum']
    xs = [dec(x) for x in sh['exponents']]
    out = []
    if len(am) == 1:
        pairs = [(am[0], c) for c in sh['coefficients']]
    else:
        pairs = list(zip(am, sh['coefficients']))
    for l, col in pairs:
        f = frozenset((x, dec(c)) for x, c in zip(xs, col) if dec(c) != 0)
        out.append((l, f))
    return out


def function_set(shells):
    s = set()
    for sh in shells:
        s.update(shell_functions(sh))
    return s


def element_fs(el):
    return function_set(el.get('electron_shells', []))


def basis_fs(b):
    return {z: element_fs(el) for z, el in b['elements'].items()}


def fs_diff(a, b):
    """human-readable difference of two per-element function sets (None when equal)"""
    if a.keys() != b.keys():
        return 'elements differ: %s vs %s' % (sorted(a), sorted(b))
    for z in a:
        if a[z] != b[z]:
            lost = a[z] - b[z]
            new = b[z] - a[z]
            return 'element %s: %d function(s) lost, %d new; e.g. lost %s new %s' % (
                z, len(lost), len(new), _show(next(iter(lost), None)), _show(next(iter(new), None)))
    return None


def _show(f):
    if f is None:
        return '-'
    l, ps = f
    return 'l=%d{%s}' % (l, ','.join('%s:%s' % (x, c) for x, c in sorted(ps)[:4]))


def non_shell_part(b):
    """everything of a basis dict except the electron shells (must be untouched by re-contraction)"""
    out = {k: v for k, v in b.items() if k != 'elements'}
    out['elements'] = {z: {k: v for k, v in el.items() if k != 'electron_shells'} for z, el in b['elements'].items()}
    return out


def ecp_canon(el):
    """ECP of an element as a comparable value (set of potentials by exact value)"""
    pots = []
    for p in el.get('ecp_potentials', []):
        rows = list(zip(p['r_exponents'], [dec(x) for x in p['gaussian_exponents']],
                        *[[dec(c) for c in col] for col in p['coefficients']]))
        pots.append((p.get('ecp_type'), tuple(p['angular_momentum']), tuple(sorted(rows))))
    return (el.get('ecp_electrons'), frozenset(pots))


# ---------------------------------------------------------------- spans (C07)
def columns_by_l(shells):
    """per l: list of columns as dict exponent -> Fraction"""
    out = {}
    for sh in shells:
        for l, f in shell_functions(sh):
            out.setdefault(l, []).append({Fraction(x): Fraction(c) for x, c in f})
    return out


def rank_of(cols):
    keys = sorted({k for c in cols for k in c})
    m = [[c.get(k, Fraction(0)) for k in keys] for c in cols]
    r = 0
    for j in range(len(keys)):
        piv = next((i for i in range(r, len(m)) if m[i][j] != 0), None)
        if piv is None:
            continue
        m[r], m[piv] = m[piv], m[r]
        for i in range(len(m)):
            if i != r and m[i][j] != 0:
                f = m[i][j] / m[r][j]
                m[i] = [a - f * b for a, b in zip(m[i], m[r])]
        r += 1
    return r


def same_span(shells_a, shells_b):
    a, b = columns_by_l(shells_a), columns_by_l(shells_b)
    if set(a) != set(b):
        return False
    for l in a:
        ra, rb, rab = rank_of(a[l]), rank_of(b[l]), rank_of(a[l] + b[l])
        if not (ra == rb == rab):
            return False
    return True


def nnz(shells):
    return sum(len(f) for sh in shells for _, f in shell_functions(sh))
