"""Independent Python oracles (share no code with the model): exact decimal function sets, spans."""
from decimal import Decimal
from fractions import Fraction


def dec(s):
    return Decimal(s.strip())


def shell_functions(sh):
    """contracted functions of one shell: list of (l, frozenset of (exponent, coefficient) with non-zero coefficient)"""
    am = sh['angular_momentum']
    xs = [dec(x) for x in sh['exponents']]
    out = []
    if len(am) == 1:
        pairs = [(am[0], c) for c in sh['coefficients']]
    else:
        pairs = list(zip(am, sh['coefficients']))
    for l, col in pairs:
        f = frozenset((x, dec(c)) for x, c in zip(xs, col) if dec(c) != 0)
        out.append((l, f))
    return out


def function_set(shells):
    s = set()
    for sh in shells:
        # a contraction whose coefficients are all zero is no function (the Gallina FS ignores it in the same way)
        s.update(f for f in shell_functions(sh) if f[1])
    return s


def element_fs(el):
    return function_set(el.get('electron_shells', []))


def basis_fs(b):
    return {z: element_fs(el) for z, el in b['elements'].items()}


def fs_diff(a, b):
    """human-readable difference of two per-element function sets (None when equal)"""
    if a.keys() != b.keys():
        return 'elements differ: %s vs %s' % (sorted(a), sorted(b))
    for z in a:
        if a[z] != b[z]:
            lost = a[z] - b[z]
            new = b[z] - a[z]
            return 'element %s: %d function(s) lost, %d new; e.g. lost %s new %s' % (
                z, len(lost), len(new), _show(next(iter(lost), None)), _show(next(iter(new), None)))
    return None


def _show(f):
    if f is None:
        return '-'
    l, ps = f
    return 'l=%d{%s}' % (l, ','.join('%s:%s' % (x, c) for x, c in sorted(ps)[:4]))


def non_shell_part(b):
    """everything of a basis dict except the electron shells (must be untouched by re-contraction)"""
    out = {k: v for k, v in b.items() if k != 'elements'}
    out['elements'] = {z: {k: v for k, v in el.items() if k != 'electron_shells'} for z, el in b['elements'].items()}
    return out


def ecp_canon(el):
    """ECP of an element as a comparable value (set of potentials by exact value)"""
    pots = []
    for p in el.get('ecp_potentials', []):
        rows = list(zip(p['r_exponents'], [dec(x) for x in p['gaussian_exponents']],
                        *[[dec(c) for c in col] for col in p['coefficients']]))
        # a term whose coefficients are all zero contributes nothing to the potential (same convention as for
        # zero coefficients of contracted functions)
        rows = [r for r in rows if any(c != 0 for c in r[2:])]
        pots.append((p.get('ecp_type'), tuple(p['angular_momentum']), tuple(sorted(rows))))
    return (el.get('ecp_electrons'), frozenset(pots))


# ---------------------------------------------------------------- spans (C07)
def columns_by_l(shells):
    """per l: list of columns as dict exponent -> Fraction"""
    out = {}
    for sh in shells:
        for l, f in shell_functions(sh):
            out.setdefault(l, []).append({Fraction(x): Fraction(c) for x, c in f})
    return out


def rank_of(cols):
    keys = sorted({k for c in cols for k in c})
    m = [[c.get(k, Fraction(0)) for k in keys] for c in cols]
    r = 0
    for j in range(len(keys)):
        piv = next((i for i in range(r, len(m)) if m[i][j] != 0), None)
        if piv is None:
            continue
        m[r], m[piv] = m[piv], m[r]
        for i in range(len(m)):
            if i != r and m[i][j] != 0:
                f = m[i][j] / m[r][j]
                m[i] = [a - f * b for a, b in zip(m[i], m[r])]
        r += 1
    return r


def same_span(shells_a, shells_b):
    a, b = columns_by_l(shells_a), columns_by_l(shells_b)
    if set(a) != set(b):
        return False
    for l in a:
        ra, rb, rab = rank_of(a[l]), rank_of(b[l]), rank_of(a[l] + b[l])
        if not (ra == rb == rab):
            return False
    return True


def nnz(shells):
    return sum(len(f) for sh in shells for _, f in shell_functions(sh))


# ---------------------------------------------------------------- well-formedness (C08), re-stated from the property text
def wellformed_problems(b, allow_empty_elements=False):
    """list of rule violations of a basis dictionary (independent of validator.py)"""
    out = []
    types = set()
    for z, el in b['elements'].items():
        shells = el.get('electron_shells')
        if shells is not None:
            if not shells and not allow_empty_elements:
                out.append('%s: empty electron_shells' % z)
            seen_shells = []
            for i, sh in enumerate(shells):
                tag = '%s shell %d' % (z, i)
                am = sh['angular_momentum']
                ft = sh['function_type']
                types.add(ft)
                xs = sh['exponents']
                cs = sh['coefficients']
                if not xs:
                    out.append(tag + ': no exponents')
                try:
                    xv = [dec(x) for x in xs]
                    cv = [[dec(c) for c in col] for col in cs]
                except Exception:
                    out.append(tag + ': unparsable number')
                    continue
                if any(x <= 0 for x in xv):
                    out.append(tag + ': non-positive exponent')
                if len(set(xv)) != len(xv):
                    out.append(tag + ': duplicate exponents')
                if not cs:
                    out.append(tag + ': no coefficients')
                if any(len(col) != len(xs) for col in cs):
                    out.append(tag + ': coefficient row length differs from number of exponents')
                    continue
                if any(all(c == 0 for c in col) for col in cv):
                    out.append(tag + ': all-zero contraction')
                for k in range(len(xs)):
                    if cv and all(col[k] == 0 for col in cv):
                        out.append(tag + ': unused primitive')
                if len(am) > 1:
                    if len(cs) != len(am):
                        out.append(tag + ': fused shell with %d momenta and %d contractions' % (len(am), len(cs)))
                else:
                    if len({tuple(col) for col in cv}) != len(cv):
                        out.append(tag + ': duplicated contraction')
                if not am or any(a < 0 for a in am):
                    out.append(tag + ': bad angular momentum')
                elif ft.startswith('gto'):
                    if max(am) <= 1 and ft != 'gto':
                        out.append(tag + ': am %s marked %s' % (am, ft))
                    if max(am) >= 2 and ft not in ('gto_spherical', 'gto_cartesian'):
                        out.append(tag + ': am %s marked %s' % (am, ft))
                key = (tuple(am), ft, tuple(xv), tuple(tuple(c) for c in cv))
                if key in seen_shells:
                    out.append(tag + ': duplicated shell')
                seen_shells.append(key)
        for p in el.get('ecp_potentials', []):
            types.add(p['ecp_type'])
    # "a function_types list naming every type actually present" (a type no longer present after
    # remove_free_primitives may still be listed: the text does not forbid that)
    if b.get('function_types') is not None and not set(types) <= set(b.get('function_types', [])):
        out.append('function_types %s does not name every type present %s' % (b.get('function_types'), sorted(types)))
    return out
