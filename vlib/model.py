"""Run the executable model: the extracted OCaml driver (volume) and in-Coq vm_compute (cross-check)."""
import os
import subprocess
import tempfile

from . import paths, wire


class ModelUnavailable(Exception):
    pass


class Driver:
    def __init__(self):
        exe = os.path.join(paths.OCAML, 'driver')
        if not os.path.exists(exe):
            raise ModelUnavailable('no driver binary')
        def _big_stack():
            import resource
            try:
                resource.setrlimit(resource.RLIMIT_STACK, (resource.RLIM_INFINITY, resource.RLIM_INFINITY))
            except Exception:
                try:
                    soft, hard = resource.getrlimit(resource.RLIMIT_STACK)
                    resource.setrlimit(resource.RLIMIT_STACK, (hard, hard))
                except Exception:
                    pass
        # the extracted functions over char lists are not tail recursive: large requests need a large stack
        self.p = subprocess.Popen([exe], stdin=subprocess.PIPE, stdout=subprocess.PIPE, preexec_fn=_big_stack)
        self.log = []      # (request bytes, reply bytes) kept for the in-Coq cross-check
        self.keep = 400
        self.calls = 0

    def call_raw(self, payload):
        self.p.stdin.write(b'%d\n' % len(payload))
        self.p.stdin.write(payload)
        self.p.stdin.write(b'\n')
        self.p.stdin.flush()
        line = self.p.stdout.readline()
        if not line:
            raise ModelUnavailable('driver died (stack overflow or crash) on a request of %d bytes' % len(payload))
        n = int(line)
        out = self.p.stdout.read(n)
        self.p.stdout.read(1)
        return out

    def call(self, op, *args):
        """Returns ('ok', value) or ('error', class name)."""
        payload = wire.encode([op] + list(args))
        out = self.call_raw(payload)
        self.calls += 1
        if len(self.log) < self.keep and len(payload) < 4000 and len(out) < 4000:
            self.log.append((payload, out))
        r = wire.decode(out)
        if 'ok' in r:
            return ('ok', r['ok'])
        return ('error', r['error'])

    def close(self):
        try:
            self.p.stdin.close()
            self.p.wait(timeout=10)
        except Exception:
            self.p.kill()


def _coq_bytes(b):
    """Gallina string literal (or concatenation) for arbitrary bytes."""
    parts, cur = [], []
    for ch in b:
        if ch == 0x22:
            cur.append('""')
        elif 32 <= ch < 127:
            cur.append(chr(ch))
        else:
            if cur:
                parts.append('"' + ''.join(cur) + '"')
                cur = []
            parts.append('(String (Ascii.ascii_of_nat %d) EmptyString)' % ch)
    if cur:
        parts.append('"' + ''.join(cur) + '"')
    if not parts:
        return '""'
    return '(' + ' +++ '.join(parts) + ')' if len(parts) > 1 else parts[0]


def coq_crosscheck(pairs, limit=200, byte_budget=60000):
    """Evaluate `handle` inside Coq (vm_compute) on recorded requests and compare with the replies the
    extracted program gave.  Returns (n_checked, n_equal, log)."""
    # string literals are expensive for coqc (one constructor per byte): smallest requests first, bounded volume
    pairs = sorted(pairs, key=lambda ab: len(ab[0]) + len(ab[1]))
    chosen, vol = [], 0
    for a, b in pairs:
        if len(chosen) >= limit or vol + len(a) + len(b) > byte_budget:
            break
        chosen.append((a, b))
        vol += len(a) + len(b)
    pairs = chosen
    if not pairs:
        return 0, 0, ''
    lines = ['From BSE Require Import Model.Val Extract.Dispatch.',
             'Definition cases : list (string * string) := [']
    lines.append(';\n'.join('  (%s, %s)' % (_coq_bytes(a), _coq_bytes(b)) for a, b in pairs))
    lines.append('].')
    lines.append('Definition agree := List.length (List.filter (fun c => String.eqb (handle (fst c)) (snd c)) cases).')
    lines.append('Eval vm_compute in agree.')
    d = tempfile.mkdtemp(prefix='vcases')
    try:
        f = os.path.join(d, 'cases.v')
        with open(f, 'w') as fh:
            fh.write('\n'.join(lines) + '\n')
        p = subprocess.run(['timeout', '600', 'coqc', '-R', paths.COQ, 'BSE', '-w', '-notation-overridden', f],
                           stdout=subprocess.PIPE, stderr=subprocess.STDOUT)
        out = p.stdout.decode('utf-8', 'replace')
    finally:
        for x in os.listdir(d):
            os.unlink(os.path.join(d, x))
        os.rmdir(d)
    import re
    m = re.search(r'=\s*(\d+)\s*\n?\s*:\s*nat', out)
    if p.returncode != 0 or not m:
        return len(pairs), -1, out[-2000:]
    return len(pairs), int(m.group(1)), ''
