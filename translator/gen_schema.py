"""schema/*.json -> coq/Gen/GenSchema.v : each schema as a term of the `schema` inductive of Model/Schema.v, $ref resolved."""
import json
import os
from .common import *

KNOWN = {'type', 'required', 'properties', 'additionalProperties', 'patternProperties', 'items', 'minItems', 'uniqueItems',
         'enum', 'minimum', 'propertyNames', 'anyOf', 'pattern', '$ref'}
ANNOT = {'description', '$schema', 'name', 'version', 'url', 'title'}
PATTERNS = {r'^\d+$': 'PDigits', '.*': 'PAny', '^[a-z0-9A-Z]+$': 'PAlnum', '^[0-9]{4}-[0-9]{2}-[0-9]{2}$': 'PDate'}
TYPES = {'object': 'TObject', 'array': 'TArray', 'string': 'TString', 'integer': 'TInteger', 'boolean': 'TBoolean',
         'number': 'TNumber', 'null': 'TNull'}


def enc_val(v, where):
    if v is None:
        return 'VNone'
    if isinstance(v, bool):
        return '(VBool %s)' % coq_bool(v)
    if isinstance(v, int):
        return '(VInt %s)' % coq_z(v)
    if isinstance(v, str):
        return '(VStr %s)' % coq_string(v)
    raise TranslateError('%s: enum value of unsupported type %r' % (where, v))


class Tr:
    def __init__(self, sdir):
        self.sdir = sdir
        self.files = {}

    def load(self, fn):
        if fn not in self.files:
            with open(os.path.join(self.sdir, fn), encoding='utf-8') as f:
                self.files[fn] = json.load(f)
        return self.files[fn]

    def pat(self, p, where):
        if p not in PATTERNS:
            raise TranslateError('%s: regular expression %r is not one the model knows' % (where, p))
        return PATTERNS[p]

    def tr(self, s, fn, where, depth=0):
        if depth > 30:
            raise TranslateError('%s: $ref cycle' % where)
        if s is True or s == {}:
            return 'SAny'
        if not isinstance(s, dict):
            raise TranslateError('%s: schema is not an object' % where)
        if '$ref' in s:
            extra = set(s) - {'$ref'} - ANNOT
            if extra:
                raise TranslateError('%s: keywords beside $ref: %s' % (where, sorted(extra)))
            ref = s['$ref']
            rf, _, frag = ref.partition('#')
            rf = rf or fn
            doc = self.load(rf)
            if frag not in doc:
                raise TranslateError('%s: unresolved $ref %s' % (where, ref))
            return self.tr(doc[frag], rf, where + '->' + ref, depth + 1)
        unknown = set(s) - KNOWN - ANNOT
        if unknown:
            raise TranslateError('%s: unknown schema keyword(s) %s' % (where, sorted(unknown)))
        ty = s.get('type')
        if ty is not None and ty not in TYPES:
            raise TranslateError('%s: unknown type %r' % (where, ty))
        ap = s.get('additionalProperties', True)
        if ap not in (True, False):
            raise TranslateError('%s: additionalProperties is a schema (not modelled)' % where)
        pn = s.get('propertyNames')
        if pn is not None and set(pn) - ANNOT != {'enum'}:
            raise TranslateError('%s: propertyNames other than an enum' % where)
        fields = [
            ('s_type', coq_option(TYPES[ty]) if ty else 'None'),
            ('s_required', coq_list(coq_string(r) for r in s.get('required', []))),
            ('s_props', coq_list('(%s, %s)' % (coq_string(k), self.tr(v, fn, where + '.' + k, depth)) for k, v in s.get('properties', {}).items())),
            ('s_addl', coq_bool(ap)),
            ('s_patprops', coq_list('(%s, %s)' % (self.pat(k, where), self.tr(v, fn, where + '~' + k, depth)) for k, v in s.get('patternProperties', {}).items())),
            ('s_propnames', coq_option(coq_list(coq_string(x) for x in pn['enum'])) if pn else 'None'),
            ('s_items', coq_option(self.tr(s['items'], fn, where + '[]', depth)) if 'items' in s else 'None'),
            ('s_minitems', coq_option(coq_nat(s['minItems'])) if 'minItems' in s else 'None'),
            ('s_unique', coq_bool(bool(s.get('uniqueItems', False)))),
            ('s_enum', coq_option(coq_list(enc_val(x, where) for x in s['enum'])) if 'enum' in s else 'None'),
            ('s_minimum', coq_option(coq_z(s['minimum'])) if 'minimum' in s else 'None'),
            ('s_pattern', coq_option(self.pat(s['pattern'], where)) if 'pattern' in s else 'None'),
            ('s_anyof', coq_list(self.tr(x, fn, where + '|', depth) for x in s.get('anyOf', []))),
        ]
        return '(SNode ' + ' '.join(v for _, v in fields) + ')'


def generate(repo):
    sdir = pkg(repo, 'schema')
    t = Tr(sdir)
    out = [header([os.path.join(sdir, '*.json')]).replace('Model.Val.', 'Model.Val Model.Schema.')]
    for kind in ('component', 'element', 'table', 'metadata', 'complete', 'minimal', 'references'):
        fn = kind + '-schema.json'
        out.append('Definition schema_%s : schema :=\n  %s.\n' % (kind, t.tr(t.load(fn), fn, fn)))
    return '\n'.join(out)
