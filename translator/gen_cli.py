"""cli/bse_cli.py + cli/bse_handlers.py -> coq/Gen/GenCli.v:
   argparse table (subcommand -> option strings -> dest, action, type, default), handler map, and for each handler the
   wiring of its library call (callee, parameter or position -> args.<dest>, negated?)."""
import ast
from .common import *


def dest_of(option_strings):
    longs = [o for o in option_strings if o.startswith('--')]
    if longs:
        return longs[0][2:].replace('-', '_')
    if option_strings[0].startswith('-'):
        return option_strings[0][1:]
    return option_strings[0]


def generate(repo):
    cli = pkg(repo, 'cli', 'bse_cli.py')
    tree = parse(cli)
    fn = find_func(tree, 'run_bse_cli', cli)
    subcmds = {}        # var 'subp' is reassigned: walk statements in order
    current = None
    order = []

    def handle_add_argument(call, target):
        opts = [literal(a, cli) for a in call.args]
        kw = {k.arg: k.value for k in call.keywords}
        action = literal(kw['action'], cli) if 'action' in kw else 'store'
        default = None
        if 'default' in kw:
            default = literal(kw['default'], cli)
        ty = 'str'
        if 'type' in kw:
            t = kw['type']
            if isinstance(t, ast.Name):
                ty = t.id
            elif isinstance(t, ast.Attribute):
                ty = ast.unparse(t)
            elif isinstance(t, ast.Call):
                ty = ast.unparse(t.func)
            else:
                fail(cli, t, 'unknown argparse type')
        dest = literal(kw['dest'], cli) if 'dest' in kw else dest_of(opts)
        target.append((opts, dest, action, ty, default))

    globals_ = []
    for st in fn.body:
        # subp = subparsers.add_parser('name', ...)   |   subparsers.add_parser('name', ...)
        for node in ast.walk(st):
            if isinstance(node, ast.Call) and isinstance(node.func, ast.Attribute) and node.func.attr == 'add_parser':
                name = literal(node.args[0], cli)
                subcmds[name] = []
                order.append(name)
                current = name if isinstance(st, ast.Assign) else None
        for node in ast.walk(st):
            if isinstance(node, ast.Call) and isinstance(node.func, ast.Attribute) and node.func.attr == 'add_argument' \
                    and isinstance(node.func.value, ast.Name):
                if node.func.value.id == 'subp':
                    if current is None:
                        fail(cli, node, 'add_argument on subp without a current subcommand')
                    handle_add_argument(node, subcmds[current])
                elif node.func.value.id == 'parser':
                    if not any(isinstance(k.value, ast.Constant) and k.value.value == 'version' for k in node.keywords if k.arg == 'action'):
                        handle_add_argument(node, globals_)
                else:
                    fail(cli, node, 'add_argument on an unknown parser object')

    def enc_default(d):
        if d is None:
            return 'VNone'
        if isinstance(d, bool):
            return '(VBool %s)' % coq_bool(d)
        if isinstance(d, int):
            return '(VInt %s)' % coq_z(d)
        return '(VStr %s)' % coq_string(str(d))

    def enc_args(lst):
        return coq_list('(%s, %s, %s, %s, %s)' % (coq_list(coq_string(o) for o in o_), coq_string(d), coq_string(a), coq_string(t), enc_default(df))
                        for o_, d, a, t, df in lst)

    out = [header([cli, pkg(repo, 'cli', 'bse_handlers.py')])]
    out.append('(* option strings, dest, action, type, default *)')
    out.append('Definition cli_arg := (list string * string * string * string * val)%type.')
    out.append('Definition cli_global_args : list cli_arg :=\n  %s.' % enc_args(globals_))
    out.append('Definition cli_subcommands : list (string * list cli_arg) :=\n  [ ' +
               ';\n    '.join('(%s, %s)' % (coq_string(n), enc_args(subcmds[n])) for n in order) + ' ].')

    # ---- handlers
    hp = pkg(repo, 'cli', 'bse_handlers.py')
    ht = parse(hp)
    hfn = find_func(ht, 'bse_cli_handle_subcmd', hp)
    hm = find_assign(hfn, 'handler_map', hp)
    if not isinstance(hm, ast.Dict):
        fail(hp, hm, 'handler_map is not a dict display')
    hmap = []
    for k, v in zip(hm.keys, hm.values):
        if not isinstance(v, ast.Name):
            fail(hp, v, 'handler is not a function name')
        hmap.append((literal(k, hp), v.id))
    out.append('Definition cli_handler_map : list (string * string) :=\n  %s.' %
               coq_list('(%s, %s)' % (coq_string(a), coq_string(b)) for a, b in hmap))

    def arg_ref(node):
        """args.<dest> or `not args.<dest>` -> (dest, negated)"""
        neg = False
        if isinstance(node, ast.UnaryOp) and isinstance(node.op, ast.Not):
            neg = True
            node = node.operand
        if isinstance(node, ast.Attribute) and isinstance(node.value, ast.Name) and node.value.id == 'args':
            return (node.attr, neg)
        return None

    # parameter names of the library functions, to resolve positional arguments
    sigs = {}
    for mod, rel in (('api', 'api.py'), ('convert', 'convert.py'), ('bundle', 'bundle.py'), ('manip', 'manip.py')):
        mt = parse(pkg(repo, rel))
        for d in mt.body:
            if isinstance(d, ast.FunctionDef):
                sigs[mod + '.' + d.name] = [a.arg for a in d.args.args]

    wiring = []
    for st in ht.body:
        if isinstance(st, ast.FunctionDef) and st.name.startswith('_bse_cli_'):
            calls = []
            for node in ast.walk(st):
                if isinstance(node, ast.Call) and isinstance(node.func, ast.Attribute) and isinstance(node.func.value, ast.Name) \
                        and node.func.value.id in ('api', 'convert', 'bundle', 'readers', 'writers', 'manip', 'refconverters'):
                    binds = []
                    for i, a in enumerate(node.args):
                        r = arg_ref(a)
                        if r:
                            binds.append(('#%d' % i, r[0], r[1]))
                    for k in node.keywords:
                        r = arg_ref(k.value)
                        if r:
                            binds.append((k.arg, r[0], r[1]))
                    callee = node.func.value.id + '.' + node.func.attr
                    if callee in sigs:
                        resolved = []
                        for p_, d_, n_ in binds:
                            if p_.startswith('#'):
                                i = int(p_[1:])
                                if i >= len(sigs[callee]):
                                    fail(hp, node, 'positional argument %d beyond the parameters of %s' % (i, callee))
                                p_ = sigs[callee][i]
                            elif p_ not in sigs[callee]:
                                fail(hp, node, 'keyword %s is not a parameter of %s' % (p_, callee))
                            resolved.append((p_, d_, n_))
                        binds = resolved
                    calls.append((callee, binds))
            wiring.append((st.name, calls))
    out.append('(* handler -> library calls -> (parameter name or #position, dest of the command-line argument, negated) *)')
    out.append('Definition cli_wiring : list (string * list (string * list (string * string * bool))) :=\n  [ ' + ';\n    '.join(
        '(%s, %s)' % (coq_string(h), coq_list('(%s, %s)' % (coq_string(c), coq_list('(%s, %s, %s)' % (coq_string(p), coq_string(d), coq_bool(n))
                                                                                      for p, d, n in b)) for c, b in calls))
        for h, calls in wiring) + ' ].')
    return '\n'.join(out) + '\n'
