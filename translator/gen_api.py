"""api.get_basis option pipeline -> coq/Gen/GenApi.v (ordered guarded steps), fail-closed."""
import ast
from .common import *

FLAG_PARAMS = {'uncontract_general', 'uncontract_spdf', 'uncontract_segmented', 'remove_free_primitives',
               'make_general', 'optimize_general'}
COUNT_PARAMS = {'augment_diffuse', 'augment_steep'}


def cond(node, path):
    if isinstance(node, ast.Name):
        if node.id == 'needs_pruning':
            return 'CNeedsPruning'
        if node.id in FLAG_PARAMS:
            return '(CFlag %s)' % coq_string(node.id)
        fail(path, node, 'unknown condition name ' + node.id)
    if isinstance(node, ast.Compare) and len(node.ops) == 1 and isinstance(node.left, ast.Name):
        c = literal(node.comparators[0], path)
        if isinstance(node.ops[0], ast.Gt) and c == 0 and node.left.id in COUNT_PARAMS:
            return '(CPos %s)' % coq_string(node.left.id)
        if isinstance(node.ops[0], ast.Eq) and node.left.id == 'get_aux':
            return '(CAuxIs %s)' % coq_z(c)
        fail(path, node, 'unknown comparison')
    if isinstance(node, ast.BoolOp):
        op = 'COr' if isinstance(node.op, ast.Or) else 'CAnd'
        r = cond(node.values[0], path)
        for v in node.values[1:]:
            r = '(%s %s %s)' % (op, r, cond(v, path))
        return r
    fail(path, node, 'unknown condition')


def arg(node, path):
    if isinstance(node, ast.Name):
        if node.id in COUNT_PARAMS:
            return '(ACount %s)' % coq_string(node.id)
        fail(path, node, 'unknown argument name ' + node.id)
    v = literal(node, path)
    if isinstance(v, bool):
        return '(ABool %s)' % coq_bool(v)
    if isinstance(v, int):
        return '(AInt %s)' % coq_z(v)
    fail(path, node, 'unknown argument literal')


def stmt(st, path):
    # needs_pruning = True
    if isinstance(st, ast.Assign) and len(st.targets) == 1 and isinstance(st.targets[0], ast.Name):
        tgt = st.targets[0].id
        if tgt == 'needs_pruning':
            if literal(st.value, path) is True:
                return 'SSetPrune'
            fail(path, st, 'needs_pruning set to something else than True')
        if tgt == 'basis_dict' and isinstance(st.value, ast.Call) and isinstance(st.value.func, ast.Attribute) \
                and isinstance(st.value.func.value, ast.Name) and st.value.func.value.id in ('manip', 'sort'):
            call = st.value
            if not (call.args and isinstance(call.args[0], ast.Name) and call.args[0].id == 'basis_dict'):
                fail(path, st, 'first argument is not basis_dict')
            args = [arg(a, path) for a in call.args[1:]]
            kws = ['(%s, %s)' % (coq_string(k.arg), arg(k.value, path)) for k in call.keywords]
            return '(SCall %s %s %s %s)' % (coq_string(call.func.value.id), coq_string(call.func.attr),
                                            coq_list(args), coq_list(kws))
    fail(path, st, 'unknown statement in the option pipeline: ' + ast.dump(st)[:100])


def chain(ifnode, path):
    """if / elif chain -> list of (cond, steps)"""
    out = []
    node = ifnode
    while True:
        out.append('(%s, %s)' % (cond(node.test, path), coq_list(stmt(s, path) for s in node.body)))
        if not node.orelse:
            break
        if len(node.orelse) == 1 and isinstance(node.orelse[0], ast.If):
            node = node.orelse[0]
        else:
            fail(path, node, 'else branch in the option pipeline')
    return coq_list(out)


def generate(repo):
    path = pkg(repo, 'api.py')
    tree = parse(path)
    fn = find_func(tree, 'get_basis', path)
    body = fn.body
    # locate `needs_pruning = False` ... up to `if fmt is None`
    start = end = None
    for i, st in enumerate(body):
        if isinstance(st, ast.Assign) and isinstance(st.targets[0], ast.Name) and st.targets[0].id == 'needs_pruning' \
                and literal(st.value, path) is False:
            start = i
        if isinstance(st, ast.If) and isinstance(st.test, ast.Compare) and isinstance(st.test.left, ast.Name) \
                and st.test.left.id == 'fmt':
            end = i
            break
    if start is None or end is None or end <= start:
        raise TranslateError(path + ': option pipeline of get_basis not found')
    chains = []
    for st in body[start + 1:end]:
        if not isinstance(st, ast.If):
            fail(path, st, 'non-if statement inside the option pipeline')
        chains.append(chain(st, path))
    # parameter defaults of get_basis (for the flag table)
    names = [a.arg for a in fn.args.args]
    defaults = [literal(d, path) for d in fn.args.defaults]
    params = list(zip(names[len(names) - len(defaults):], defaults))
    out = [header([path])]
    out.append('Inductive cond := CFlag (n : string) | CPos (n : string) | CAuxIs (v : Z) | CNeedsPruning '
               '| COr (a b : cond) | CAnd (a b : cond).')
    out.append('Inductive argv := ABool (b : bool) | AInt (z : Z) | ACount (n : string).')
    out.append('Inductive step := SSetPrune | SCall (module op : string) (args : list argv) (kw : list (string * argv)).')
    out.append('Definition get_basis_pipeline : list (list (cond * list step)) :=\n  ' + coq_list(chains) + '.')
    out.append('Definition get_basis_flag_params : list string := %s.' %
               coq_list(coq_string(n) for n, d in params if d is False))
    out.append('Definition get_basis_count_params : list string := %s.' %
               coq_list(coq_string(n) for n, d in params if d == 0 and d is not False))
    # get_roles(): the literal dict returned
    fr = find_func(tree, 'get_roles', path)
    rets = [st for st in fr.body if isinstance(st, ast.Return)]
    if len(rets) != 1:
        raise TranslateError(path + ': get_roles has no unique return')
    roles = literal(rets[0].value, path)
    if not isinstance(roles, dict):
        raise TranslateError(path + ': get_roles does not return a dict literal')
    out.append('Definition roles : list (string * string) := %s.' %
               coq_list('(%s, %s)' % (coq_string(k), coq_string(v)) for k, v in roles.items()))
    return '\n'.join(out) + '\n'
