"""writers/write.py and every writer module -> coq/Gen/GenWriters.v:
   per format: comment marker, valid function types, extension, writer function, and the writer's normalisation pipeline
   (the leading `basis = manip.x(basis, ...)` / `sort.x(basis, ...)` statements)."""
import ast
import os
from .common import *


def writer_pipeline(mod_path, func_name):
    tree = parse(mod_path)
    fn = find_func(tree, func_name, mod_path)
    steps = []
    param = fn.args.args[0].arg
    local_funcs = {st.name for st in tree.body if isinstance(st, ast.FunctionDef)}

    def manip_calls(node):
        return [n for n in ast.walk(node) if isinstance(n, ast.Call) and isinstance(n.func, ast.Attribute)
                and isinstance(n.func.value, ast.Name) and n.func.value.id in ('manip', 'sort')]

    # resolve wrappers: no manip/sort call of its own, exactly one call of a function of the same module on the basis
    if not manip_calls(fn):
        inner = [n for n in ast.walk(fn) if isinstance(n, ast.Call) and isinstance(n.func, ast.Name) and n.func.id in local_funcs
                 and n.args and isinstance(n.args[0], ast.Name) and n.args[0].id == param]
        if len(inner) == 1:
            return writer_pipeline(mod_path, inner[0].func.id)
        if len(inner) > 1:
            fail(mod_path, fn, 'writer %s hands the basis to several local functions' % func_name)
        # ... or of a function imported from a sibling writer module
        sib = {}
        for st in tree.body:
            if isinstance(st, ast.ImportFrom) and st.level == 1 and st.module:
                for a in st.names:
                    sib[a.asname or a.name] = (st.module, a.name)
        outer = [n for n in ast.walk(fn) if isinstance(n, ast.Call) and isinstance(n.func, ast.Name) and n.func.id in sib
                 and n.args and isinstance(n.args[0], ast.Name) and n.args[0].id == param]
        if len(outer) == 1:
            m, nm = sib[outer[0].func.id]
            return writer_pipeline(os.path.join(os.path.dirname(mod_path), m + '.py'), nm)
        if len(outer) > 1:
            fail(mod_path, fn, 'writer %s hands the basis to several imported writer functions' % func_name)
    body = fn.body
    step_nodes = []
    for st in body:
        if isinstance(st, ast.Assign) and len(st.targets) == 1 and isinstance(st.targets[0], ast.Name) \
                and st.targets[0].id == param and isinstance(st.value, ast.Call) \
                and isinstance(st.value.func, ast.Attribute) and isinstance(st.value.func.value, ast.Name) \
                and st.value.func.value.id in ('manip', 'sort'):
            call = st.value
            if not (call.args and isinstance(call.args[0], ast.Name) and call.args[0].id == param):
                fail(mod_path, st, 'normalisation call whose first argument is not the basis')
            args = []
            for a in call.args[1:]:
                v = literal(a, mod_path)
                args.append('(WBool %s)' % coq_bool(v) if isinstance(v, bool) else '(WInt %s)' % coq_z(v))
            kws = []
            for k in call.keywords:
                v = literal(k.value, mod_path)
                kws.append('(%s, %s)' % (coq_string(k.arg), '(WBool %s)' % coq_bool(v) if isinstance(v, bool) else '(WInt %s)' % coq_z(v)))
            steps.append('(%s, %s, %s, %s)' % (coq_string(call.func.value.id), coq_string(call.func.attr), coq_list(args), coq_list(kws)))
            step_nodes.append(call)
    # fail closed: every manip/sort call of the writer must be one of these top-level steps, and the basis parameter
    # must not be rebound anywhere else
    others = [c for c in manip_calls(fn) if c not in step_nodes]
    if others:
        fail(mod_path, others[0], 'writer %s calls manip/sort outside a top-level `%s = manip.f(%s, ...)` statement' % (func_name, param, param))
    rebinds = [n for n in ast.walk(fn) if isinstance(n, (ast.Assign, ast.AugAssign)) and any(
        isinstance(t, ast.Name) and t.id == param for t in (n.targets if isinstance(n, ast.Assign) else [n.target]))]
    if len(rebinds) != len(step_nodes):
        fail(mod_path, fn, 'writer %s rebinds its basis parameter outside the normalisation steps' % func_name)
    return steps


def generate(repo):
    path = pkg(repo, 'writers', 'write.py')
    tree = parse(path)
    # from .module import write_a, write_b
    where = {}
    for st in tree.body:
        if isinstance(st, ast.ImportFrom) and st.level == 1 and st.module:
            for a in st.names:
                where[a.asname or a.name] = st.module
    wm = find_assign(tree, '_writer_map', path)
    if not isinstance(wm, ast.Dict):
        raise TranslateError(path + ': _writer_map is not a dict display')
    rows = []
    for k, v in zip(wm.keys, wm.values):
        fmt = literal(k, path)
        if not isinstance(v, ast.Dict):
            fail(path, v, 'writer entry is not a dict display')
        ent = {}
        for kk, vv in zip(v.keys, v.values):
            name = literal(kk, path)
            if name == 'function':
                if not isinstance(vv, ast.Name):
                    fail(path, vv, 'writer function is not a name')
                ent['function'] = vv.id
            elif name == 'valid':
                if isinstance(vv, ast.Call) and isinstance(vv.func, ast.Name) and vv.func.id == 'set':
                    ent['valid'] = sorted(literal(vv.args[0], path))
                else:
                    val = literal(vv, path)
                    ent['valid'] = None if val is None else sorted(val)
            else:
                ent[name] = literal(vv, path)
        for need in ('display', 'extension', 'comment', 'valid', 'function'):
            if need not in ent:
                fail(path, v, 'writer entry %s lacks %s' % (fmt, need))
        if ent['function'] not in where:
            fail(path, v, 'writer function %s is not imported from a writer module' % ent['function'])
        mod_path = pkg(repo, 'writers', where[ent['function']] + '.py')
        steps = writer_pipeline(mod_path, ent['function'])
        rows.append('(%s, {| w_comment := %s; w_valid := %s; w_extension := %s; w_function := %s; w_pipeline := %s |})' % (
            coq_string(fmt), coq_option(coq_string(ent['comment'])) if ent['comment'] is not None else 'None',
            coq_option(coq_list(coq_string(x) for x in ent['valid'])) if ent['valid'] is not None else 'None',
            coq_string(ent['extension']), coq_string(where[ent['function']] + '.' + ent['function']), coq_list(steps)))
    # the assembly of header and body in write_formatted_basis_str: the two special cases by format name
    fn = find_func(tree, 'write_formatted_basis_str', path)
    specials = sorted({n.comparators[0].value for n in ast.walk(fn) if isinstance(n, ast.Compare) and isinstance(n.left, ast.Name)
                       and n.left.id == 'fmt' and isinstance(n.ops[0], ast.Eq) and isinstance(n.comparators[0], ast.Constant)})
    if specials != ['gaussian94lib', 'psi4']:
        raise TranslateError('%s: write_formatted_basis_str special-cases %s (the model knows gaussian94lib and psi4)' % (path, specials))
    out = [header([path, pkg(repo, 'writers', '*.py')])]
    out.append('Inductive warg := WBool (b : bool) | WInt (z : Z).')
    out.append('Record writer := { w_comment : option string; w_valid : option (list string); w_extension : string; w_function : string;\n'
               '  w_pipeline : list (string * string * list warg * list (string * warg)) }.')
    out.append('Definition writer_map : list (string * writer) :=\n  [ ' + ';\n    '.join(rows) + ' ].')
    return '\n'.join(out) + '\n'
