"""data/METADATA.json (data, not code) -> coq/Gen/GenIndex.v : the shipped index as a Gallina list (small strings only)."""
import json
from .common import *


def generate(repo):
    path = pkg(repo, 'data', 'METADATA.json')
    with open(path, encoding='utf-8') as f:
        md = json.load(f)
    out = [header([path])]
    out.append('Record ientry := { i_display : string; i_others : list string; i_basename : string; i_relpath : string;\n'
               '  i_family : string; i_role : string; i_ftypes : list string; i_aux : list (string * list string); i_latest : string;\n'
               '  i_versions : list (string * string * nat) }.')
    rows = []
    for k, e in md.items():
        for fld in ('display_name', 'other_names', 'basename', 'relpath', 'family', 'role', 'function_types', 'auxiliaries',
                    'latest_version', 'versions'):
            if fld not in e:
                raise TranslateError('%s: entry %s lacks %s' % (path, k, fld))
        aux = []
        for r, v in e['auxiliaries'].items():
            aux.append('(%s, %s)' % (coq_string(r), coq_list(coq_string(x) for x in ([v] if isinstance(v, str) else v))))
        vers = ['(%s, %s, %s)' % (coq_string(ver), coq_string(vi['file_relpath']), coq_nat(len(vi['elements'])))
                for ver, vi in e['versions'].items()]
        rows.append('(%s, {| i_display := %s; i_others := %s; i_basename := %s; i_relpath := %s; i_family := %s; i_role := %s; '
                    'i_ftypes := %s; i_aux := %s; i_latest := %s; i_versions := %s |})' % (
                        coq_string(k), coq_string(e['display_name']), coq_list(coq_string(x) for x in e['other_names']),
                        coq_string(e['basename']), coq_string(e['relpath']), coq_string(e['family']), coq_string(e['role']),
                        coq_list(coq_string(x) for x in e['function_types']), coq_list(aux), coq_string(e['latest_version']),
                        coq_list(vers)))
    out.append('Definition shipped_index : list (string * ientry) :=\n  [ ' + ';\n    '.join(rows) + ' ].')
    return '\n'.join(out) + '\n'
