"""readers/read.py and reader modules -> coq/Gen/GenReaders.v: reader table (format, extension, function) and the union of the
skipchars of the helpers.prune_lines calls of each reader function."""
import ast
from .common import *


def first_skipchars(mod_path, func_name, depth=0):
    tree = parse(mod_path)
    fn = find_func(tree, func_name, mod_path)
    local_funcs = {st.name for st in tree.body if isinstance(st, ast.FunctionDef)}
    found = None
    for n in ast.walk(fn):
        if isinstance(n, ast.Call) and isinstance(n.func, ast.Attribute) and n.func.attr == 'prune_lines':
            chars = ''
            if len(n.args) >= 2:
                chars = literal(n.args[1], mod_path)
            for k in n.keywords:
                if k.arg == 'skipchars':
                    chars = literal(k.value, mod_path)
            if not isinstance(chars, str):
                fail(mod_path, n, 'skipchars is not a string literal')
            found = (found or '') + ''.join(c for c in chars if c not in (found or ''))
    return found


def generate(repo):
    path = pkg(repo, 'readers', 'read.py')
    tree = parse(path)
    where = {}
    for st in tree.body:
        if isinstance(st, ast.ImportFrom) and st.level == 1 and st.module:
            for a in st.names:
                where[a.asname or a.name] = st.module
    rm = find_assign(tree, '_reader_map', path)
    if not isinstance(rm, ast.Dict):
        raise TranslateError(path + ': _reader_map is not a dict display')
    rows = []
    for k, v in zip(rm.keys, rm.values):
        fmt = literal(k, path)
        ent = {}
        for kk, vv in zip(v.keys, v.values):
            name = literal(kk, path)
            if name == 'reader':
                if not isinstance(vv, ast.Name):
                    fail(path, vv, 'reader is not a name')
                ent['reader'] = vv.id
            else:
                ent[name] = literal(vv, path)
        if ent['reader'] not in where:
            fail(path, v, 'reader %s is not imported from a reader module' % ent['reader'])
        sk = first_skipchars(pkg(repo, 'readers', where[ent['reader']] + '.py'), ent['reader'])
        rows.append('(%s, {| r_extension := %s; r_function := %s; r_skipchars := %s |})' % (
            coq_string(fmt), coq_string(ent['extension']), coq_string(where[ent['reader']] + '.' + ent['reader']),
            coq_option(coq_string(sk)) if sk is not None else 'None'))
    out = [header([path, pkg(repo, 'readers', '*.py')])]
    out.append('Record reader := { r_extension : string; r_function : string; r_skipchars : option string }.')
    out.append('Definition reader_map : list (string * reader) :=\n  [ ' + ';\n    '.join(rows) + ' ].')
    return '\n'.join(out) + '\n'
