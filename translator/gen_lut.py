"""lut.py -> coq/Gen/GenLut.v : element table, angular-momentum letter tables and the
tables / bounds of electron_shells_start."""
import ast
from .common import *


def generate(repo):
    path = pkg(repo, 'lut.py')
    tree = parse(path)
    out = [header([path])]

    table = literal(find_assign(tree, '_data_table', path), path)
    if not isinstance(table, list) or not table:
        raise TranslateError(path + ': _data_table is not a non-empty list')
    rows = []
    for t in table:
        if not (isinstance(t, tuple) and len(t) == 3 and isinstance(t[0], str) and isinstance(t[1], int)
                and isinstance(t[2], str)):
            raise TranslateError(path + ': _data_table entry of unexpected shape: %r' % (t, ))
        rows.append('(%s, %s, %s)' % (coq_string(t[0]), coq_z(t[1]), coq_string(t[2])))
    out.append('Definition data_table : list (string * Z * string) :=\n  [ ' + ';\n    '.join(rows) + ' ].\n')

    # the three lookup maps must be built as {x[i]: x for x in _data_table}
    for name, idx in (('_element_Z_map', 1), ('_element_sym_map', 0), ('_element_name_map', 2)):
        node = find_assign(tree, name, path)
        ok = (isinstance(node, ast.DictComp) and isinstance(node.key, ast.Subscript)
              and isinstance(node.key.value, ast.Name) and node.key.value.id == 'x'
              and literal(node.key.slice, path) == idx and isinstance(node.value, ast.Name)
              and node.value.id == 'x' and len(node.generators) == 1
              and isinstance(node.generators[0].iter, ast.Name) and node.generators[0].iter.id == '_data_table'
              and not node.generators[0].ifs)
        if not ok:
            fail(path, node, name + ' is not the expected dict comprehension over _data_table')

    for name, cname in (('_amchar_map_hik', 'amchar_map_hik'), ('_amchar_map_hij', 'amchar_map_hij')):
        v = literal(find_assign(tree, name, path), path)
        if not isinstance(v, str):
            raise TranslateError(path + ': %s is not a string' % name)
        out.append('Definition %s : string := %s.\n' % (cname, coq_string(v)))

    fn = find_func(tree, 'electron_shells_start', path)
    aminfo = literal(find_assign(fn, 'aminfo', path), path)
    special = literal(find_assign(fn, 'special_am', path), path)
    if not (isinstance(aminfo, tuple) and all(isinstance(p, tuple) and len(p) == 2 for p in aminfo)):
        raise TranslateError(path + ': aminfo of unexpected shape')
    out.append('Definition aminfo : list (nat * Z) :=\n  ' +
               coq_list('(%s, %s)' % (coq_nat(a), coq_z(n)) for a, n in aminfo) + '.\n')
    if not (isinstance(special, dict) and all(isinstance(k, int) and isinstance(v, list) for k, v in special.items())):
        raise TranslateError(path + ': special_am of unexpected shape')
    out.append('Definition special_am : list (Z * list nat) :=\n  ' +
               coq_list('(%s, %s)' % (coq_z(k), coq_list(coq_nat(a) for a in v)) for k, v in special.items()) + '.\n')

    # bounds: `if nelectrons < 0: raise RuntimeError` and `if nelectrons > N: raise NotImplementedError`
    lo = hi = None
    for st in fn.body:
        if isinstance(st, ast.If) and isinstance(st.test, ast.Compare) and isinstance(st.test.left, ast.Name) \
                and st.test.left.id == 'nelectrons' and len(st.test.ops) == 1 \
                and len(st.body) == 1 and isinstance(st.body[0], ast.Raise):
            c = literal(st.test.comparators[0], path)
            exc = st.body[0].exc.func.id
            if isinstance(st.test.ops[0], ast.Lt) and exc == 'RuntimeError':
                lo = c
            elif isinstance(st.test.ops[0], ast.Gt) and exc == 'NotImplementedError':
                hi = c
            else:
                fail(path, st, 'unexpected guard on nelectrons')
    if lo is None or hi is None:
        raise TranslateError(path + ': electron_shells_start bounds not found')
    out.append('Definition ess_lower_bound : Z := %s.\nDefinition ess_upper_bound : Z := %s.\n' % (coq_z(lo), coq_z(hi)))

    # start = [contained_am.count(i) + (i+1) for i in 0..3]; start.extend(range(5, max_am + 2))
    start = find_assign(fn, 'start', path)
    if not isinstance(start, ast.List):
        fail(path, start, 'start is not a list display')
    offs = []
    for i, e in enumerate(start.elts):
        ok = (isinstance(e, ast.BinOp) and isinstance(e.op, ast.Add) and isinstance(e.left, ast.Call)
              and isinstance(e.left.func, ast.Attribute) and e.left.func.attr == 'count'
              and isinstance(e.left.func.value, ast.Name) and e.left.func.value.id == 'contained_am'
              and literal(e.left.args[0], path) == i)
        if not ok:
            fail(path, e, 'unexpected entry of start')
        offs.append(literal(e.right, path))
    out.append('Definition ess_start_offsets : list Z := %s.\n' % coq_list(coq_z(o) for o in offs))
    ext = None
    for st in fn.body:
        if isinstance(st, ast.Expr) and isinstance(st.value, ast.Call) and isinstance(st.value.func, ast.Attribute) \
                and st.value.func.attr == 'extend' and isinstance(st.value.func.value, ast.Name) \
                and st.value.func.value.id == 'start':
            r = st.value.args[0]
            ok = (isinstance(r, ast.Call) and isinstance(r.func, ast.Name) and r.func.id == 'range'
                  and len(r.args) == 2 and isinstance(r.args[1], ast.BinOp) and isinstance(r.args[1].op, ast.Add)
                  and isinstance(r.args[1].left, ast.Name) and r.args[1].left.id == 'max_am')
            if not ok:
                fail(path, st, 'unexpected start.extend')
            ext = (literal(r.args[0], path), literal(r.args[1].right, path))
    if ext is None:
        raise TranslateError(path + ': start.extend(range(..)) not found')
    out.append('Definition ess_extend_from : Z := %s.\nDefinition ess_extend_plus : Z := %s.\n' %
               (coq_z(ext[0]), coq_z(ext[1])))
    return '\n'.join(out)
