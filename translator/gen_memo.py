"""Signatures of every @memo.BSEMemoize function -> coq/Gen/GenMemo.v (parameter names in order, default values)."""
import ast
import os
from .common import *


def enc_default(v, path, node):
    if v is None:
        return 'VNone'
    if isinstance(v, bool):
        return '(VBool %s)' % coq_bool(v)
    if isinstance(v, int):
        return '(VInt %s)' % coq_z(v)
    if isinstance(v, str):
        return '(VStr %s)' % coq_string(v)
    fail(path, node, 'default value of unsupported type')


def generate(repo):
    rows = []
    srcs = []
    root = pkg(repo)
    for dirpath, dirs, files in sorted(os.walk(root)):
        dirs[:] = sorted(d for d in dirs if d not in ('tests', 'data', '__pycache__'))
        for fn in sorted(files):
            if not fn.endswith('.py'):
                continue
            path = os.path.join(dirpath, fn)
            tree = parse(path)
            for node in ast.walk(tree):
                if isinstance(node, ast.FunctionDef):
                    for dec in node.decorator_list:
                        if isinstance(dec, ast.Attribute) and dec.attr == 'BSEMemoize' or isinstance(dec, ast.Name) and dec.id == 'BSEMemoize':
                            a = node.args
                            if a.vararg or a.kwarg or a.kwonlyargs or a.posonlyargs:
                                fail(path, node, 'memoised function with *args/**kwargs/keyword-only parameters')
                            names = [x.arg for x in a.args]
                            defaults = [enc_default(literal(d, path), path, d) for d in a.defaults]
                            mod = os.path.relpath(path, root)[:-3].replace(os.sep, '.')
                            rows.append('(%s, {| s_args := %s; s_defaults := %s |})' % (
                                coq_string(mod + '.' + node.name), coq_list(coq_string(n) for n in names), coq_list(defaults)))
                            srcs.append(path)
    if not rows:
        raise TranslateError('no @BSEMemoize function found')
    out = [header(sorted(set(srcs)))]
    out.append('Record sig := { s_args : list string; s_defaults : list val }.')
    out.append('Definition memoised : list (string * sig) :=\n  [ ' + ';\n    '.join(rows) + ' ].')
    return '\n'.join(out) + '\n'
