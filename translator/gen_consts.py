"""Literals used by the hand-modelled algorithms -> coq/Gen/GenConsts.v"""
import ast
from .common import *


def _str_consts(fn):
    return [n.value for n in ast.walk(fn) if isinstance(n, ast.Constant) and isinstance(n.value, str)]


def generate(repo):
    path = pkg(repo, 'manip.py')
    tree = parse(path)
    out = [header([path])]

    # make_general: zero = '<literal>'
    fn = find_func(tree, 'make_general', path)
    zero = literal(find_assign(fn, 'zero', path), path)
    if not isinstance(zero, str):
        raise TranslateError(path + ': make_general zero literal is not a string')
    out.append('Definition lit_make_general_zero : string := %s.' % coq_string(zero))

    # uncontract_segmented: newsh['coefficients'] = [["<literal>"] * nam]
    fn = find_func(tree, 'uncontract_segmented', path)
    lits = []
    for n in ast.walk(fn):
        if isinstance(n, ast.BinOp) and isinstance(n.op, ast.Mult) and isinstance(n.left, ast.List) \
                and len(n.left.elts) == 1 and isinstance(n.left.elts[0], ast.Constant):
            lits.append(n.left.elts[0].value)
    if len(lits) != 1 or not isinstance(lits[0], str):
        raise TranslateError(path + ': uncontract_segmented unit literal not found uniquely: %r' % lits)
    out.append('Definition lit_unc_seg_one : string := %s.' % coq_string(lits[0]))

    # optimize_general: col[row_idx] = '<literal>'
    fn = find_func(tree, 'optimize_general', path)
    lits = []
    for n in ast.walk(fn):
        if isinstance(n, ast.Assign) and len(n.targets) == 1 and isinstance(n.targets[0], ast.Subscript) \
                and isinstance(n.value, ast.Constant) and isinstance(n.value.value, str):
            lits.append(n.value.value)
    if len(lits) != 1:
        raise TranslateError(path + ': optimize_general zero literal not found uniquely: %r' % lits)
    out.append('Definition lit_optimize_zero : string := %s.' % coq_string(lits[0]))

    # geometric_augmentation: coefficient literal and format
    fn = find_func(tree, 'geometric_augmentation', path)
    lits = [n.value for n in ast.walk(fn) if isinstance(n, ast.Constant) and isinstance(n.value, str)
            and n.value.replace('.', '').isdigit()]
    if len(lits) != 1:
        raise TranslateError(path + ': geometric_augmentation unit literal not found uniquely: %r' % lits)
    out.append('Definition lit_aug_one : string := %s.' % coq_string(lits[0]))

    # truhlar months
    fn = find_func(tree, 'truhlar_calendarize', path)
    months = literal(find_assign(fn, 'valid_months', path), path)
    out.append('Definition truhlar_months : list string := %s.' % coq_list(coq_string(m) for m in months))
    return '\n'.join(out) + '\n'
