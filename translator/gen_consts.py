"""Literals used by the hand-modelled algorithms -> coq/Gen/GenConsts.v"""
import ast
from .common import *


def _str_consts(fn):
    return [n.value for n in ast.walk(fn) if isinstance(n, ast.Constant) and isinstance(n.value, str)]


def generate(repo):
    path = pkg(repo, 'manip.py')
    tree = parse(path)
    out = [header([path])]

    # make_general: zero = '<literal>'
    fn = find_func(tree, 'make_general', path)
    zero = literal(find_assign(fn, 'zero', path), path)
    if not isinstance(zero, str):
        raise TranslateError(path + ': make_general zero literal is not a string')
    out.append('Definition lit_make_general_zero : string := %s.' % coq_string(zero))

    # uncontract_segmented: newsh['coefficients'] = [["<literal>"] for _ in new_am]      (before 2a196434: [["<literal>"] * nam])
    fn = find_func(tree, 'uncontract_segmented', path)
    lits = []
    for n in ast.walk(fn):
        if isinstance(n, ast.BinOp) and isinstance(n.op, ast.Mult) and isinstance(n.left, ast.List) \
                and len(n.left.elts) == 1 and isinstance(n.left.elts[0], ast.Constant):
            lits.append(n.left.elts[0].value)
        if isinstance(n, ast.ListComp) and isinstance(n.elt, ast.List) and len(n.elt.elts) == 1 and isinstance(n.elt.elts[0], ast.Constant):
            lits.append(n.elt.elts[0].value)
    if len(lits) != 1 or not isinstance(lits[0], str):
        raise TranslateError(path + ': uncontract_segmented unit literal not found uniquely: %r' % lits)
    out.append('Definition lit_unc_seg_one : string := %s.' % coq_string(lits[0]))

    # optimize_general: col[row_idx] = '<literal>'
    fn = find_func(tree, 'optimize_general', path)
    lits = []
    for n in ast.walk(fn):
        if isinstance(n, ast.Assign) and len(n.targets) == 1 and isinstance(n.targets[0], ast.Subscript) \
                and isinstance(n.value, ast.Constant) and isinstance(n.value.value, str):
            lits.append(n.value.value)
    if len(lits) != 1:
        raise TranslateError(path + ': optimize_general zero literal not found uniquely: %r' % lits)
    out.append('Definition lit_optimize_zero : string := %s.' % coq_string(lits[0]))

    # geometric_augmentation: coefficient literal and format
    fn = find_func(tree, 'geometric_augmentation', path)
    lits = [n.value for n in ast.walk(fn) if isinstance(n, ast.Constant) and isinstance(n.value, str)
            and n.value.replace('.', '').isdigit()]
    if len(lits) != 1:
        raise TranslateError(path + ': geometric_augmentation unit literal not found uniquely: %r' % lits)
    out.append('Definition lit_aug_one : string := %s.' % coq_string(lits[0]))

    # truhlar months
    fn = find_func(tree, 'truhlar_calendarize', path)
    months = literal(find_assign(fn, 'valid_months', path), path)
    out.append('Definition truhlar_months : list string := %s.' % coq_list(coq_string(m) for m in months))
    # ---- AutoAux / AutoABS tables and thresholds
    from fractions import Fraction
    from decimal import Decimal

    def qlit(v):
        f = Fraction(Decimal(repr(v)))
        return '(%s, %s)' % (coq_z(f.numerator), coq_z(f.denominator))

    def thresholds(fn, var):
        """`var = a` followed by `if Z > t: var = b` ... -> (initial, [(t, b)])"""
        init, steps = None, []
        for st in fn.body[0].body if False else ast.walk(fn):
            pass
        for st in ast.walk(fn):
            if isinstance(st, ast.Assign) and len(st.targets) == 1 and isinstance(st.targets[0], ast.Name) and st.targets[0].id == var \
                    and isinstance(st.value, ast.Constant) and init is None:
                init = st.value.value
            if isinstance(st, ast.If) and isinstance(st.test, ast.Compare) and isinstance(st.test.left, ast.Name) and st.test.left.id == 'Z' \
                    and isinstance(st.test.ops[0], ast.Gt) and len(st.body) == 1 and isinstance(st.body[0], ast.Assign) \
                    and isinstance(st.body[0].targets[0], ast.Name) and st.body[0].targets[0].id == var:
                steps.append((literal(st.test.comparators[0], path), literal(st.body[0].value, path)))
        if init is None or not steps:
            raise TranslateError('%s: thresholds of %s in %s not found' % (path, var, fn.name))
        return init, steps

    def find_local(fn, name):
        for st in ast.walk(fn):
            if isinstance(st, ast.Assign) and len(st.targets) == 1 and isinstance(st.targets[0], ast.Name) and st.targets[0].id == name:
                return literal(st.value, path)
        raise TranslateError('%s: %s not found in %s' % (path, name, fn.name))

    fa = find_func(tree, 'autoaux_basis', path)
    out.append('Definition autoaux_flaux : list (Z * Z) := %s.' % coq_list(qlit(v) for v in find_local(fa, 'flaux')))
    out.append('Definition autoaux_blaux_big : list (Z * Z) := %s.' % coq_list(qlit(v) for v in find_local(fa, 'blaux_big')))
    out.append('Definition autoaux_b_small : Z * Z := %s.' % qlit(find_local(fa, 'b_small')))
    for var in ('lval', 'linc'):
        init, steps = thresholds(fa, var)
        out.append('Definition autoaux_%s_init : Z := %s.' % (var, coq_z(init)))
        out.append('Definition autoaux_%s_steps : list (Z * Z) := %s.' % (var, coq_list('(%s, %s)' % (coq_z(t), coq_z(v)) for t, v in steps)))
    fb = find_func(tree, 'autoabs_basis', path)
    init, steps = thresholds(fb, 'lval')
    out.append('Definition autoabs_lval_init : Z := %s.' % coq_z(init))
    out.append('Definition autoabs_lval_steps : list (Z * Z) := %s.' % coq_list('(%s, %s)' % (coq_z(t), coq_z(v)) for t, v in steps))
    nd = len(fb.args.defaults)
    names = [a.arg for a in fb.args.args]
    dflt = dict(zip(names[len(names) - nd:], [literal(d, path) for d in fb.args.defaults]))
    out.append('Definition autoabs_lmaxinc_default : Z := %s.' % coq_z(dflt['lmaxinc']))
    out.append('Definition autoabs_fsam_default : Z * Z := %s.' % qlit(dflt['fsam']))
    return '\n'.join(out) + '\n'
