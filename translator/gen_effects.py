"""Copy discipline of the modules named by C10 -> coq/Gen/GenEffects.v.

For every function of the listed modules a conservative, flow-insensitive-within-branches summary is extracted:
  * how each function with a `use_copy` parameter treats it (default value; guard `if use_copy: p = copy.deepcopy(p)` before
    anything else touches p; or delegation of the flag to a callee as first use),
  * every call of a use_copy-function with use_copy=False (literal) on a PARAMETER that has not been re-bound to a fresh copy,
  * every direct mutation (item assignment / del / mutating method) of an object reached from a parameter that has not been
    re-bound to a fresh copy.
Unknown constructs are reported as mutations (fail-closed)."""
import ast
import os
from .common import *

MODULES = ['manip.py', 'sort.py', 'convert.py', 'validator.py', 'references.py', 'api.py', 'curate/compare.py', 'curate/diff.py', 'curate/compare_report.py',
           'refconverters/convert.py', 'writers/write.py']
MUTATORS = {'append', 'extend', 'pop', 'insert', 'sort', 'update', 'remove', 'clear', 'setdefault', 'reverse', 'popitem'}


def use_copy_functions(repo):
    """name -> (index of use_copy among positional params, default) for manip.* and sort.*"""
    out = {}
    for mod in ('manip', 'sort'):
        path = pkg(repo, mod + '.py')
        tree = parse(path)
        for st in tree.body:
            if isinstance(st, ast.FunctionDef):
                names = [a.arg for a in st.args.args]
                if 'use_copy' in names:
                    i = names.index('use_copy')
                    nd = len(st.args.defaults)
                    d = None
                    j = i - (len(names) - nd)
                    if j >= 0:
                        d = literal(st.args.defaults[j], path)
                    out[mod + '.' + st.name] = (i, d)
    return out


def root_name(node):
    """the variable an expression is reached from through subscripts / attributes / .items() style calls"""
    while True:
        if isinstance(node, ast.Name):
            return node.id
        if isinstance(node, (ast.Subscript, ast.Attribute, ast.Starred)):
            node = node.value
        elif isinstance(node, ast.Call) and isinstance(node.func, ast.Attribute) and node.func.attr in (
                'items', 'values', 'keys', 'get', 'copy'):
            node = node.func.value
        else:
            return None


class FuncScan:
    def __init__(self, modname, fn, ucf, path):
        self.modname, self.fn, self.ucf, self.path = modname, fn, ucf, path
        self.params = [a.arg for a in fn.args.args if a.arg not in ('self', )]
        self.tainted = {p: p for p in self.params}      # name -> root parameter
        self.uncopied = []
        self.mutations = []

    def callee_name(self, call):
        f = call.func
        if isinstance(f, ast.Attribute) and isinstance(f.value, ast.Name) and f.value.id in ('manip', 'sort'):
            return f.value.id + '.' + f.attr
        if isinstance(f, ast.Name) and self.modname in ('manip', 'sort') and (self.modname + '.' + f.id) in self.ucf:
            return self.modname + '.' + f.id
        if isinstance(f, ast.Name) and ('sort.' + f.id) in self.ucf and f.id.startswith('sort_'):
            return 'sort.' + f.id
        return None

    def flag_of(self, call, callee):
        idx, default = self.ucf[callee]
        for k in call.keywords:
            if k.arg == 'use_copy':
                return k.value
        if len(call.args) > idx:
            return call.args[idx]
        return ast.Constant(default)

    def is_fresh_value(self, node):
        """the value is a new object not sharing mutable nodes with a parameter"""
        if isinstance(node, ast.Call):
            f = node.func
            if isinstance(f, ast.Attribute) and f.attr == 'deepcopy':
                return True
            c = self.callee_name(node)
            if c in self.ucf:
                fl = self.flag_of(node, c)
                if isinstance(fl, ast.Constant) and fl.value is True:
                    return True
        return False

    def visit_call(self, call):
        c = self.callee_name(call)
        if c in self.ucf and call.args:
            r = root_name(call.args[0])
            if r in self.tainted:
                fl = self.flag_of(call, c)
                if isinstance(fl, ast.Constant) and fl.value is False:
                    self.uncopied.append((c, self.tainted[r]))
                elif isinstance(fl, ast.Name) and fl.id == 'use_copy' and 'use_copy' in self.params:
                    pass      # the caller's own flag is handed down
                elif not (isinstance(fl, ast.Constant) and fl.value is True):
                    self.uncopied.append((c + ':non-literal-flag', self.tainted[r]))
        f = call.func
        if isinstance(f, ast.Attribute) and f.attr in MUTATORS:
            r = root_name(f.value)
            if r in self.tainted:
                self.mutations.append((self.tainted[r], f.attr))

    def run(self):
        guard_seen = {}
        for st in ast.walk(self.fn):
            pass
        self.block(self.fn.body, under_use_copy=False)
        return self

    def block(self, stmts, under_use_copy):
        for st in stmts:
            if isinstance(st, ast.If):
                cond_uc = isinstance(st.test, ast.Name) and st.test.id == 'use_copy'
                for n in ast.walk(st.test):
                    if isinstance(n, ast.Call):
                        self.visit_call(n)
                self.block(st.body, under_use_copy or cond_uc)
                self.block(st.orelse, under_use_copy)
                continue
            if isinstance(st, (ast.For, ast.While, ast.With, ast.Try)):
                if isinstance(st, ast.For):
                    r = root_name(st.iter) if not isinstance(st.iter, ast.Call) or not isinstance(st.iter.func, ast.Name) else \
                        (root_name(st.iter.args[0]) if st.iter.args else None)
                    for n in ast.walk(st.iter):
                        if isinstance(n, ast.Call):
                            self.visit_call(n)
                    if r in self.tainted:
                        for t in ast.walk(st.target):
                            if isinstance(t, ast.Name):
                                self.tainted[t.id] = self.tainted[r]
                for body in ('body', 'orelse', 'finalbody'):
                    self.block(getattr(st, body, []) or [], under_use_copy)
                for h in getattr(st, 'handlers', []) or []:
                    self.block(h.body, under_use_copy)
                continue
            if isinstance(st, ast.FunctionDef):
                continue        # nested helpers work on their own arguments
            # calls anywhere in the statement
            for n in ast.walk(st):
                if isinstance(n, ast.Call):
                    self.visit_call(n)
            if isinstance(st, (ast.Assign, ast.AugAssign, ast.AnnAssign)):
                targets = st.targets if isinstance(st, ast.Assign) else [st.target]
                for t in targets:
                    if isinstance(t, (ast.Subscript, ast.Attribute)):
                        r = root_name(t)
                        if r in self.tainted:
                            self.mutations.append((self.tainted[r], 'item-assignment'))
                    elif isinstance(t, ast.Name):
                        if st.value is not None and self.is_fresh_value(st.value):
                            # p = copy.deepcopy(p) under `if use_copy:` cleans p for use_copy=True; unconditional cleans always
                            self.tainted.pop(t.id, None)
                        elif st.value is not None:
                            r = root_name(st.value)
                            if r in self.tainted and not isinstance(st, ast.AugAssign):
                                self.tainted[t.id] = self.tainted[r]
                            elif isinstance(st.value, (ast.ListComp, ast.DictComp, ast.List, ast.Dict, ast.Constant, ast.JoinedStr,
                                                       ast.BinOp, ast.Compare, ast.BoolOp)) or r is None:
                                # a comprehension / display builds a new container but may still hold the argument's inner objects
                                inner = {root_name(n) for n in ast.walk(st.value) if isinstance(n, (ast.Name, ast.Subscript))}
                                roots = [self.tainted[x] for x in inner if x in self.tainted]
                                if roots and isinstance(st.value, (ast.ListComp, ast.DictComp, ast.List, ast.Dict)):
                                    self.tainted[t.id] = roots[0]
                                else:
                                    self.tainted.pop(t.id, None)
                    elif isinstance(t, ast.Tuple):
                        r = root_name(st.value) if st.value is not None else None
                        for e in t.elts:
                            if isinstance(e, ast.Name):
                                if r in self.tainted:
                                    self.tainted[e.id] = self.tainted[r]
                                else:
                                    self.tainted.pop(e.id, None)
            elif isinstance(st, ast.Delete):
                for t in st.targets:
                    r = root_name(t)
                    if r in self.tainted and not isinstance(t, ast.Name):
                        self.mutations.append((self.tainted[r], 'del'))


def first_use_kind(fn, path):
    """how a use_copy function treats its flag: 'guard' = the first statement after the docstring and argument checks is
    `if use_copy: p = copy.deepcopy(p)`; 'delegate' = the first statement using the data parameter hands use_copy down"""
    p = fn.args.args[0].arg
    for st in fn.body:
        if isinstance(st, ast.Expr) and isinstance(st.value, ast.Constant):
            continue
        uses_p = any(isinstance(n, ast.Name) and n.id == p for n in ast.walk(st))
        if isinstance(st, ast.If) and isinstance(st.test, ast.Name) and st.test.id == 'use_copy' and len(st.body) == 1 \
                and isinstance(st.body[0], ast.Assign) and isinstance(st.body[0].value, ast.Call) \
                and isinstance(st.body[0].value.func, ast.Attribute) and st.body[0].value.func.attr == 'deepcopy' \
                and isinstance(st.body[0].targets[0], ast.Name) and st.body[0].targets[0].id == p and not st.orelse:
            return 'guard'
        if not uses_p:
            continue
        for n in ast.walk(st):
            if isinstance(n, ast.Call) and n.args and isinstance(n.args[0], ast.Name) and n.args[0].id == p:
                for k in n.keywords:
                    if k.arg == 'use_copy' and (isinstance(k.value, ast.Name) and k.value.id == 'use_copy'
                                                or isinstance(k.value, ast.Constant) and k.value.value is True):
                        return 'delegate'
                if any(isinstance(a, ast.Name) and a.id == 'use_copy' for a in n.args[1:]):
                    return 'delegate'
        return 'other'
    return 'other'


def generate(repo):
    ucf = use_copy_functions(repo)
    out = [header([pkg(repo, m) for m in MODULES])]
    rows_uc, rows_calls, rows_mut = [], [], []
    for m in MODULES:
        path = pkg(repo, m)
        tree = parse(path)
        modname = m[:-3].replace('/', '.')
        short = modname.split('.')[-1] if modname in ('manip', 'sort') else modname
        for st in tree.body:
            if not isinstance(st, ast.FunctionDef):
                continue
            qual = modname + '.' + st.name
            if qual in ucf:
                idx, d = ucf[qual]
                rows_uc.append('(%s, %s, %s)' % (coq_string(qual), coq_bool(d is True), coq_string(first_use_kind(st, path))))
            sc = FuncScan(short, st, ucf, path).run()
            for callee, param in sc.uncopied:
                rows_calls.append('(%s, %s, %s)' % (coq_string(qual), coq_string(callee), coq_string(param)))
            if st.name.startswith('_'):
                continue        # internal helpers are not part of the property's quantifier
            for param, how in sorted(set(sc.mutations)):
                # inside manip/sort a mutation after the use_copy guard is the function's job; report only functions
                # WITHOUT a use_copy guard/delegation there, and everything elsewhere
                if qual in ucf and first_use_kind(st, path) in ('guard', 'delegate'):
                    continue
                rows_mut.append('(%s, %s, %s)' % (coq_string(qual), coq_string(param), coq_string(how)))
    out.append('(* position of use_copy among the arguments after the first (the data) *)')
    out.append('Definition use_copy_index : list (string * nat) :=\n  ' +
               coq_list('(%s, %s)' % (coq_string(k), coq_nat(v[0] - 1)) for k, v in ucf.items()) + '.')
    out.append('(* (function, default of use_copy is True, treatment of the flag) *)')
    out.append('Definition use_copy_functions : list (string * bool * string) :=\n  [ ' + ';\n    '.join(rows_uc) + ' ].')
    out.append('(* (function, callee, parameter): calls with use_copy=False on an argument of the caller that was not copied before *)')
    out.append('Definition uncopied_calls : list (string * string * string) :=\n  ' + coq_list(rows_calls) + '.')
    out.append('(* (function, parameter, how): direct mutation of an object reached from a parameter that was not copied before *)')
    out.append('Definition direct_mutations : list (string * string * string) :=\n  [ ' + ';\n    '.join(rows_mut) + ' ].')
    return '\n'.join(out) + '\n'
