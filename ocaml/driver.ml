(* Trusted glue around the extracted model: frames on stdin are "<nbytes>\n<payload>\n",
   each answered by a frame of the same shape on stdout. *)
let explode s = List.init (String.length s) (String.get s)
let implode l = let b = Buffer.create 256 in List.iter (Buffer.add_char b) l; Buffer.contents b

let () =
  set_binary_mode_in stdin true; set_binary_mode_out stdout true;
  (try
    while true do
      let n = int_of_string (String.trim (input_line stdin)) in
      let payload = really_input_string stdin n in
      let _ = input_char stdin in
      let out = implode (Model.handle (explode payload)) in
      print_string (string_of_int (String.length out)); print_char '\n';
      print_string out; print_char '\n'; flush stdout
    done
  with End_of_file -> ())
