#!/venv/bin/python
"""Regenerates /verif/MANIFEST.json from the table below (kept valid at all times)."""
import json
import os

HERE = os.path.dirname(os.path.dirname(os.path.abspath(__file__)))
BASELINE = "cd /repo && /venv/bin/python -m pytest -ra -q -p no:cacheprovider --timeout=900 --continue-on-collection-errors"

# property -> (claimed?, level text, level note, technique, design ref)
CHECKS = {}
NOT_YET = {}


def claim(pid, text, note, technique, ref):
    CHECKS[pid] = (text, note, technique, ref)


exec(open(os.path.join(HERE, 'tools', 'manifest_table.py')).read())

props = [json.loads(l)['id'] for l in open(os.path.join(HERE, 'properties.jsonl'))]
checks = []
na = []
for pid in props:
    if pid in CHECKS:
        text, note, technique, ref = CHECKS[pid]
        checks.append({
            'property_id': pid,
            'quick_cmd': 'bin/vcheck %s --tier quick' % pid,
            'thorough_cmd': 'bin/vcheck %s --tier thorough' % pid,
            'evidence_file': '/verif/evidence/%s.json' % pid,
            'replay_cmd_template': 'bin/vcheck %s --replay {path}' % pid,
            'engine': 'coq-model+correspondence',
            'level_claimed': {'category': 'proof', 'text': text, 'design_ref': ref},
            'level_note': note,
            'technique': technique,
        })
    else:
        na.append({'property_id': pid, 'reason': NOT_YET.get(pid, 'check not built yet in this development (planned, see DESIGN.md section 6); not claimed until its theorems and correspondence run exist')})

m = {
    'version': 1,
    'setup_cmd': 'bin/vcheck --setup',
    'hooks': {'guard': 'BSE_VERIF_HOOKS', 'enable': 'no instrumentation of /repo is used: every observation is a return value, a written file or stdout of public entry points; bin/vcheck sets BSE_VERIF_HOOKS=1 for uniformity', 
              'baseline_off_cmd': BASELINE, 'source_commits': [], 'add_only': True},
    'engines': [{'name': 'coq-model+correspondence', 'path': 'bin/vcheck',
                 'serves_properties': sorted(CHECKS),
                 'kind_free_text': 'Coq 8.16.1 theorems over a Gallina model (coq/Model, tables regenerated from /repo by /verif/translator into coq/Gen on every run) + differential correspondence of the extracted model (OCaml) against the implementation + independent Python property oracle for the failing-input search'}],
    'checks': checks,
    'notes': 'See DESIGN.md. Known findings: KNOWN_FINDINGS.txt. Seeded changes used to validate the checks: seeded/.',
    'not_applicable': na,
}
with open(os.path.join(HERE, 'MANIFEST.json'), 'w') as f:
    json.dump(m, f, indent=1)
print('MANIFEST.json: %d checks, %d not claimed' % (len(checks), len(na)))
