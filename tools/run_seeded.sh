#!/bin/bash
# usage: run_seeded.sh <label> <patch.diff> <tier> <Cxx> [Cyy ...]
# Runs checks against a seeded change without touching /repo: scratch worktree of /repo + patch, private copy of /verif (so
# that several seeded changes can be tried in parallel), VERIF_REPO pointing at the worktree.  Prints one line per check.
# (The registered commands themselves always read /repo; `git -C /repo apply` + bin/vcheck + `git -C /repo checkout -- .`
#  is the same thing done serially.)
set -u
label=$1; patch=$2; tier=$3; shift 3
wt=/tmp/srun_wt_$label; vc=/tmp/srun_v_$label
git -C /repo worktree remove --force $wt >/dev/null 2>&1; rm -rf $wt $vc
git -C /repo worktree add --detach $wt HEAD >/dev/null 2>&1 || { echo "$label: worktree-failed"; exit 2; }
git -C $wt apply $patch || { echo "$label: patch-does-not-apply"; git -C /repo worktree remove --force $wt; exit 2; }
mkdir -p $vc && rsync -a --exclude .git --exclude evidence /verif/ $vc/ && mkdir -p $vc/evidence
for p in "$@"; do
  (cd $vc && VERIF_REPO=$wt timeout 7200 bin/vcheck $p --tier $tier > /tmp/srun_$label.$p.log 2>&1; echo "$label $p exit=$? $(grep -c '^VIOLATION' /tmp/srun_$label.$p.log) violation line(s): $(grep '^VIOLATION' /tmp/srun_$label.$p.log | head -2 | tr '\n' ' ')"; tail -1 /tmp/srun_$label.$p.log)
  mkdir -p /tmp/srun_replays/$label; cp -r $vc/evidence/replays/. /tmp/srun_replays/$label/ 2>/dev/null; cp $vc/evidence/$p.json /tmp/srun_replays/$label/ 2>/dev/null
done
git -C /repo worktree remove --force $wt >/dev/null 2>&1; rm -rf $wt $vc; git -C /repo worktree prune
