#!/venv/bin/python
"""Collects confirmed seeded changes into /verif/seeded/<id>/ and regenerates the table in DESIGN.md (section 0.6).

Sources (all produced by tools/confirm_seeded.sh and tools/run_seeded.sh during the campaign):
  /tmp/mutants/Cxx/out/<v>/{patch.diff,demo.py,meta.json}     what the sub-agent delivered
  /tmp/confirm_results*.txt                                     my confirmation (demo without / with, full pinned suite)
  /tmp/srun_results*.txt                                        runs of my checks against the change, in chronological order
A change is kept only if confirmed: patch applies, demo exits 0 without and non-zero with it, suite same as baseline."""
import glob
import json
import os
import re
import shutil
import sys

HERE = os.path.dirname(os.path.dirname(os.path.abspath(__file__)))
SEEDED = os.path.join(HERE, 'seeded')


def load_confirm():
    out = {}
    for f in sorted(glob.glob('/tmp/confirm_results*.txt')):
        for line in open(f):
            m = re.match(r'(C\d\d_\w): applied=(\w+) demo_without=(\S+) demo_with=(\S+) suite=(.*)', line.strip())
            if m:
                out[m.group(1)] = {'applied': m.group(2) == 'yes', 'demo_without': m.group(3), 'demo_with': m.group(4), 'suite': m.group(5)}
    return out


def load_runs():
    runs = {}
    # batches are numbered in the order they were started; within a pair (30 = first runs, 31 = re-runs after strengthening) the
    # number, not the modification time, is the chronological order per change
    for f in sorted(glob.glob('/tmp/srun_results*.txt'), key=lambda f: int(re.search(r'(\d*)\.txt$', f).group(1) or 0)):
        for line in open(f):
            m = re.match(r'(C\d\d_\w) (C\d\d) exit=(\d+) (\d+) violation line\(s\): ?(.*)', line.strip())
            if m:
                runs.setdefault(m.group(1), []).append({'check': m.group(2), 'tier': 'quick', 'exit': int(m.group(3)),
                                                        'violation_lines': int(m.group(4)),
                                                        'no_failing_input_found': 'no-failing-input-found' in m.group(5),
                                                        'batch': os.path.basename(f)})
    return runs


def main():
    confirm = load_confirm()
    runs = load_runs()
    notes = {}
    np = os.path.join(SEEDED, 'NOTES.json')
    if os.path.exists(np):
        notes = json.load(open(np))
    rows = []
    for d in sorted(glob.glob('/tmp/mutants/C*/out/*')):
        if not os.path.exists(os.path.join(d, 'meta.json')):
            continue
        prop = d.split('/')[3]
        label = '%s_%s' % (prop, os.path.basename(d))
        c = confirm.get(label)
        if not c:
            continue
        ok = c['applied'] and c['demo_without'] == '0' and c['demo_with'] not in ('0', 'NA') and c['suite'].startswith('same-as-baseline')
        dst = os.path.join(SEEDED, label)
        if not ok:
            print('NOT KEPT %s: %s' % (label, c))
            if os.path.isdir(dst):
                shutil.rmtree(dst)
            continue
        os.makedirs(dst, exist_ok=True)
        for f in ('patch.diff', 'demo.py'):
            shutil.copy(os.path.join(d, f), os.path.join(dst, f))
        meta = json.load(open(os.path.join(d, 'meta.json')))
        rs = runs.get(label, [])
        final = {}
        for r in rs:
            final[r['check']] = r
        caught = sorted(k for k, r in final.items() if r['exit'] == 1 and r['violation_lines'] > 0)
        first = {}
        for r in rs:
            first.setdefault(r['check'], r)
        missed_first = sorted(k for k, r in first.items() if r['exit'] == 0 and k == prop)
        import subprocess
        head = subprocess.run(['git', '-C', '/repo', 'rev-parse', '--short', 'HEAD'], stdout=subprocess.PIPE).stdout.decode().strip()
        applies = subprocess.run(['git', '-C', '/repo', 'apply', '--check', os.path.join(d, 'patch.diff')], stderr=subprocess.DEVNULL).returncode == 0
        base = None
        if not applies:
            for cand in ('423d865b', '2a196434', '43557cf9', 'e4a5aa5e', '644784cd'):
                wt = '/tmp/_applycheck'
                subprocess.run(['git', '-C', '/repo', 'worktree', 'remove', '--force', wt], stderr=subprocess.DEVNULL, stdout=subprocess.DEVNULL)
                subprocess.run(['git', '-C', '/repo', 'worktree', 'add', '--detach', wt, cand], stderr=subprocess.DEVNULL, stdout=subprocess.DEVNULL)
                ok = subprocess.run(['git', '-C', wt, 'apply', '--check', os.path.join(d, 'patch.diff')], stderr=subprocess.DEVNULL).returncode == 0
                subprocess.run(['git', '-C', '/repo', 'worktree', 'remove', '--force', wt], stderr=subprocess.DEVNULL, stdout=subprocess.DEVNULL)
                if ok:
                    base = cand
                    break
        out = {
            'applies_to_repo_head': {'head': head, 'applies': applies,
                                     'note': None if applies else 'the change touches lines that a later fix: commit rewrote; it applies to /repo at commit %s, where it was confirmed and where the checks were run against it' % base},
            'id': label, 'property': prop, 'summary': meta.get('summary'), 'needs_to_manifest': meta.get('needs'),
            'files': meta.get('files'), 'author': 'fresh sub-agent given only the property text and a scratch worktree',
            'agent_tests_run': meta.get('tests_run'),
            'confirmed_by_me': {'how': 'tools/confirm_seeded.sh: scratch worktree of /repo, demo.py without and with the patch, then the pinned suite '
                                       '(pytest -q -p no:cacheprovider --timeout=900 --continue-on-collection-errors) compared test-by-test with tools/baseline_failures.txt',
                                'demo_exit_without': c['demo_without'], 'demo_exit_with': c['demo_with'], 'suite': c['suite']},
            'checks_run': rs,
            'how_checks_were_run': 'tools/run_seeded.sh: scratch worktree of /repo HEAD + patch, private copy of /verif, VERIF_REPO=<worktree> bin/vcheck <check> --tier quick '
                                   '(equivalent to git -C /repo apply; bin/vcheck; git -C /repo checkout -- .)',
            'caught_by': caught,
            'missed_at_first_by_own_check': bool(missed_first),
            'strengthening': notes.get(label, ''),
        }
        with open(os.path.join(dst, 'meta.json'), 'w') as f:
            json.dump(out, f, indent=1)
        rows.append(out)
    # table
    lines = ['%d seeded changes written by fresh sub-agents (each given only one property text and a scratch worktree) were confirmed '
             '(demo fails with / passes without the change; the pinned suite has exactly the baseline\'s 18 908 passes and 107 failures with it) and kept under '
             '`seeded/<id>/`. "caught by" lists the quick-tier checks that exit 1 with a VIOLATION line when the change is applied; '
             '"first run" says whether the property\'s own check caught it before any strengthening.' % len(rows), '',
             '| id | what the change does | caught by (quick tier) | first run | strengthening made |', '|---|---|---|---|---|']
    for r in rows:
        summ = (r['summary'] or '').replace('|', '/').replace('\n', ' ')
        if len(summ) > 230:
            summ = summ[:227] + '...'
        lines.append('| %s | %s | %s | %s | %s |' % (r['id'], summ, ', '.join(r['caught_by']) or '**none**',
                                                    'missed' if r['missed_at_first_by_own_check'] else 'caught', r['strengthening'] or '—'))
    n_c = sum(1 for r in rows if r['caught_by'])
    lines += ['', '%d of %d are caught by the current checks; %d were missed by the first run of the property\'s own check and led to the strengthening in the last column.'
              % (n_c, len(rows), sum(1 for r in rows if r['missed_at_first_by_own_check']))]
    p = os.path.join(HERE, 'DESIGN.md')
    s = open(p).read()
    b, e = '<!-- SEEDED-TABLE -->', '<!-- /SEEDED-TABLE -->'
    s = s[:s.index(b) + len(b)] + '\n' + '\n'.join(lines) + '\n' + s[s.index(e):]
    open(p, 'w').write(s)
    print('kept %d, caught %d' % (len(rows), n_c))


if __name__ == '__main__':
    main()
