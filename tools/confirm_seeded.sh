#!/bin/bash
# usage: confirm_seeded.sh <label> <dir-with-patch.diff-and-demo.py | HEAD>
# Confirms a seeded change in a scratch worktree of /repo (outside /repo and /verif): the patch applies, demo.py exits 0 without
# and non-zero with it, and the pinned test suite has exactly the baseline's passes/failures with it.  Prints one summary line.
set -u
label=$1; src=$2
wt=/tmp/confirm_$label
out=/tmp/confirm_$label.out
git -C /repo worktree remove --force $wt >/dev/null 2>&1
rm -rf $wt
git -C /repo worktree add --detach $wt HEAD >/dev/null 2>&1 || { echo "$label: worktree-failed"; exit 2; }
cd $wt
demo0=NA; demo1=NA; applied=yes
if [ "$src" != HEAD ]; then
  PYTHONPATH=$wt PYTHONHASHSEED=0 timeout 600 /venv/bin/python $src/demo.py >$out.demo0 2>&1; demo0=$?
  git apply $src/patch.diff 2>$out.apply || applied=no
  if [ $applied = yes ]; then
    PYTHONPATH=$wt PYTHONHASHSEED=0 timeout 600 /venv/bin/python $src/demo.py >$out.demo1 2>&1; demo1=$?
  fi
fi
suite=skipped
if [ $applied = yes ] && [ "${SKIP_SUITE:-0}" = 0 ]; then
  timeout 3600 /venv/bin/python -m pytest -q -p no:cacheprovider --timeout=900 --continue-on-collection-errors --junitxml=$out.xml >$out.pytest 2>&1
  /venv/bin/python - $out.xml $wt > $out.failed <<'PY'
import sys, xml.etree.ElementTree as ET
t = ET.parse(sys.argv[1]); n = 0; bad = []
for tc in t.iter('testcase'):
    n += 1
    if any(c.tag in ('failure', 'error') for c in tc):
        bad.append('%s::%s' % (tc.get('classname'), tc.get('name')))
print('TOTAL %d FAILED %d' % (n, len(bad)))
for b in sorted(bad): print(b.replace(sys.argv[2], '/repo'))
PY
  if [ -f /verif/tools/baseline_failures.txt ]; then
    if diff <(tail -n +2 $out.failed) <(tail -n +2 /verif/tools/baseline_failures.txt) >$out.diff; then suite="same-as-baseline($(head -1 $out.failed))"; else suite="DIFFERS($(head -1 $out.failed); $(grep -c '^<' $out.diff) new failures)"; fi
  else
    suite="$(head -1 $out.failed)"
  fi
fi
cd /
git -C /repo worktree remove --force $wt >/dev/null 2>&1; rm -rf $wt; git -C /repo worktree prune
echo "$label: applied=$applied demo_without=$demo0 demo_with=$demo1 suite=$suite"
