(* Model of lut.py over the translated tables (Gen/GenLut.v). *)
From BSE Require Import Model.Val Gen.GenLut.

Definition entry := (string * Z * string)%type.
Definition e_sym (e : entry) : string := fst (fst e).
Definition e_Z (e : entry) : Z := snd (fst e).
Definition e_name (e : entry) : string := snd e.

(* {key(x): x for x in _data_table}[k] : the LAST entry with that key wins *)
Fixpoint last_by {K} (eqb : K -> K -> bool) (key : entry -> K) (k : K) (t : list entry) (acc : option entry)
  : option entry :=
  match t with
  | [] => acc
  | e :: r => last_by eqb key k r (if eqb (key e) k then Some e else acc)
  end.

Definition element_data_from_Z (z : Z) : res entry :=
  match last_by Z.eqb e_Z z data_table None with Some e => ok e | None => fail EKey end.
Definition element_data_from_sym (s : string) : res entry :=
  match last_by String.eqb e_sym (lower s) data_table None with Some e => ok e | None => fail EKey end.
Definition element_data_from_name (s : string) : res entry :=
  match last_by String.eqb e_name (lower s) data_table None with Some e => ok e | None => fail EKey end.

Definition norm (normalize : bool) (s : string) : string := if normalize then capitalize s else s.
Definition element_sym_from_Z (z : Z) (normalize : bool) : res string :=
  do e <- element_data_from_Z z; ok (norm normalize (e_sym e)).
Definition element_name_from_Z (z : Z) (normalize : bool) : res string :=
  do e <- element_data_from_Z z; ok (norm normalize (e_name e)).
Definition element_Z_from_sym (s : string) : res Z := do e <- element_data_from_sym s; ok (e_Z e).
Definition element_Z_from_name (s : string) : res Z := do e <- element_data_from_name s; ok (e_Z e).

(* ---- angular momentum letters ---- *)
Fixpoint snth (n : nat) (s : string) : option ascii :=
  match s, n with
  | EmptyString, _ => None
  | String c _, O => Some c
  | String _ t, S k => snth k t
  end.
Fixpoint sindex (c : ascii) (s : string) : option nat :=
  match s with
  | EmptyString => None
  | String a t => if Ascii.eqb a c then Some O else option_map S (sindex c t)
  end.
Definition amchar_map (hij : bool) : string := if hij then amchar_map_hij else amchar_map_hik.

(* am is a list of (possibly negative) integers *)
Fixpoint amint_chars (m : string) (am : list Z) : res string :=
  match am with
  | [] => ok ""
  | a :: t =>
    if (a <? 0)%Z then fail EIndex else
    match snth (Z.to_nat a) m with
    | None => fail EIndex
    | Some c => do r <- amint_chars m t; ok (String c r)
    end
  end.
Definition list_Z_eqb (a b : list Z) : bool :=
  if list_eq_dec Z.eq_dec a b then true else false.
Definition amint_to_char (am : list Z) (hij use_L : bool) : res string :=
  if andb use_L (list_Z_eqb am [0%Z; 1%Z]) then ok "l" else amint_chars (amchar_map hij) am.

Fixpoint amchar_ints (m : string) (s : string) : res (list Z) :=
  match s with
  | EmptyString => ok []
  | String c t =>
    match sindex c m with
    | None => fail EKey
    | Some i => do r <- amchar_ints m t; ok (Z.of_nat i :: r)
    end
  end.
Definition amchar_to_int (s : string) (hij : bool) : res (list Z) := amchar_ints (amchar_map hij) (lower s).

(* ---- electron_shells_start ---- *)
Fixpoint assocZ {V} (k : Z) (d : list (Z * V)) : option V :=
  match d with [] => None | (k', v) :: t => if Z.eqb k k' then Some v else assocZ k t end.

(* the `for am, n in aminfo` loop with its break; returns the contained am list and what is left *)
Fixpoint fill_shells (info : list (nat * Z)) (rest : Z) (acc : list nat) : list nat * Z :=
  match info with
  | [] => (acc, rest)
  | (am, n) :: t => if (rest >=? n)%Z then fill_shells t (rest - n)%Z (acc ++ [am]) else (acc, rest)
  end.

Definition count_nat (a : nat) (l : list nat) : Z := Z.of_nat (count_occ Nat.eq_dec l a).

Fixpoint start_counts (l : nat) (offs : list Z) (contained : list nat) : list Z :=
  match offs with
  | [] => []
  | o :: t => (count_nat l contained + o)%Z :: start_counts (S l) t contained
  end.

(* range(a, b) *)
Definition zrange_excl (a b : Z) : list Z := zrange a (Z.to_nat (b - a)).

Definition electron_shells_start (nelectrons max_am : Z) : res (list Z) :=
  if (nelectrons <? ess_lower_bound)%Z then fail ERuntime else
  if (nelectrons >? ess_upper_bound)%Z then fail ENotImpl else
  do contained <-
     match assocZ nelectrons special_am with
     | Some c => ok c
     | None => let (c, rest) := fill_shells aminfo nelectrons [] in
               if Z.eqb rest 0 then ok c else fail ERuntime
     end;
  ok (start_counts 0 ess_start_offsets contained ++ zrange_excl ess_extend_from (max_am + ess_extend_plus)%Z).

(* number of electrons in the closed shells below the start quantum numbers: sum_l 2(2l+1)(start_l - l - 1) *)
Fixpoint covered_from (l : Z) (starts : list Z) : Z :=
  match starts with
  | [] => 0
  | s :: t => (2 * (2 * l + 1) * (s - l - 1) + covered_from (l + 1) t)%Z
  end.
