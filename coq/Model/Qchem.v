(* Model of the Q-Chem writer (there is NO reader for this format):
     writers/qchem.py  write_qchem, _determine_pure
     printing.py       write_matrix(..., convert_exp=True) (Model.Matrix), _determine_leftpad (Model.G94Ecp.matrix_precheck)
     lut.py            element_sym_from_Z(z, True) / element_sym_from_Z(z).upper(), amint_to_char(am, hij=True)
   What qchem_write_all returns is what write_qchem returns (write_formatted_basis_str puts the commented header and an
   empty line in front of it: Model.Header.assemble).
   INPUT, taken from the dictionary AFTER the three normalisation calls that write_qchem makes first, in this order:
       basis = manip.uncontract_general(basis, True)
       basis = manip.uncontract_spdf(basis, 1, False)
       basis = sort.sort_basis(basis, False)
     role = basis['role']
     els  = [(z, data['electron_shells'])                        for the elements that have the key 'electron_shells']
     ecps = [(z, (data['ecp_electrons'], data['ecp_potentials'])) for the elements that have the key 'ecp_potentials']
   both in dictionary order (two views of ONE dictionary basis['elements']).
   The ECP blocks are those of write_g94 (Model.G94Ecp.g94_write_ecp_element; record gpot / type gecp of Model.G94Ecp), each
   followed by a line of asterisks; the electron blocks differ from write_g94 in the shell line only.
   Text is a string of bytes.  Definitions only; statements in Proofs/QchemDefs.v, proofs in Proofs/QchemSpec.v. *)
From BSE Require Import Model.Val Model.Text Model.Num Model.Basis Model.Manip Model.Matrix Model.Lut Model.Elements
                        Model.Sort Model.Nwchem Model.G94 Model.G94Ecp.

(* ------------------------------------------------------------------ *)
(* _determine_pure                                                     *)
(* ------------------------------------------------------------------ *)
(* the dictionary `pure`: momentum -> harm, in insertion order; harm '1' (spherical) is true, '2' (cartesian) is false.
       if shell_am in pure: pure[shell_am] = harm if harm == '1' else pure[shell_am]
       else:                pure[shell_am] = harm                                       *)
Fixpoint pure_update (a : Z) (sph : bool) (d : list (Z * bool)) : list (Z * bool) :=
  match d with
  | [] => [(a, sph)]
  | (k, v) :: t => if Z.eqb a k then (k, if sph then true else v) :: t else (k, v) :: pure_update a sph t
  end.

(* `for shell_am in sh['angular_momentum']` with harm = '1' if 'spherical' in sh['function_type'] else '2' (a SUBSTRING
   test: 'gto_spherical' has it, 'gto' and 'gto_cartesian' do not) *)
Definition pure_shell (d : list (Z * bool)) (s : sshell) : list (Z * bool) :=
  fold_left (fun (d : list (Z * bool)) (a : Z) => pure_update a (infix "spherical" (ftype s)) d) (am s) d.

(* sorted(pure.items(), reverse=True): the keys are pairwise distinct, so this is the order of decreasing momentum *)
Fixpoint pure_insert (x : Z * bool) (l : list (Z * bool)) : list (Z * bool) :=
  match l with
  | [] => [x]
  | y :: t => if (fst y <? fst x)%Z then x :: l else y :: pure_insert x t
  end.
Definition pure_sorted (d : list (Z * bool)) : list (Z * bool) := fold_right pure_insert [] d.

(* _determine_pure(basis): pure_list[:-2] drops the two LOWEST momenta that occur (meant: s and p; if the basis has no s or
   no p shell something else is dropped); ''.join(x[1] for x in pure_list) *)
Definition qchem_determine_pure (els : list (Z * list sshell)) : string :=
  let pure := fold_left (fun (d : list (Z * bool)) (zs : Z * list sshell) => fold_left pure_shell (snd zs) d) els [] in
  String.concat "" (map (fun x : Z * bool => if snd x then "1" else "2") (droplast 2 (pure_sorted pure))).

(* ------------------------------------------------------------------ *)
(* electron blocks                                                     *)
(* ------------------------------------------------------------------ *)
(* [exponents, *coefficients] *)
Definition qchem_shell_mat (s : sshell) : list (list cell) := map CStr (exps s) :: map (map CStr) (coefs s).

(* one iteration of `for shell in data['electron_shells']`: '{}   {}   1.00\n'.format(amchar, nprim) (no field width, three
   blanks) and the matrix.  Exceptions in the order of the code: lut.amint_to_char (IndexError), then _determine_leftpad
   column by column inside write_matrix (ValueError for a number without a decimal point: matrix_precheck; there are as
   many point places as columns); after that write_matrix cannot fail. *)
Definition qchem_write_shell (s : sshell) : res string :=
  let ncol := S (List.length (coefs s)) in
  let nprim := List.length (exps s) in
  do amchar <- amint_to_char (am s) true false;
  do _ <- matrix_precheck (qchem_shell_mat s) (nw_point_places ncol);
  do m <- write_matrix (qchem_shell_mat s) (nw_point_places ncol) true;
  ok (upper amchar +++ "   " +++ nat_str nprim +++ "   1.00" +++ nl1 +++ m).

(* one iteration of `for z in electron_elements` *)
Definition qchem_write_element (zs : Z * list sshell) : res string :=
  let '(z, shs) := zs in
  do sym <- element_sym_from_Z z true;
  do body <- mapM qchem_write_shell shs;
  ok (sym +++ "     0" +++ nl1 +++ String.concat "" body +++ "****" +++ nl1).

(* ------------------------------------------------------------------ *)
(* ECP blocks                                                          *)
(* ------------------------------------------------------------------ *)
(* one iteration of `for z in ecp_elements`: line for line the block of write_g94, then '****\n' *)
Definition qchem_write_ecp_element (zp : Z * gecp) : res string :=
  do b <- g94_write_ecp_element zp;
  ok (b +++ "****" +++ nl1).

(* ------------------------------------------------------------------ *)
(* write_qchem                                                         *)
(* ------------------------------------------------------------------ *)
Definition qchem_rem (role : string) (els : list (Z * list sshell)) (ecps : list (Z * gecp)) : string :=
  "$rem" +++ nl1 +++
  (if String.eqb role "orbital" then
     (match els with [] => "" | _ => "    BASIS GEN" +++ nl1 end) +++
     (match ecps with [] => "" | _ => "    ECP GEN" +++ nl1 end) +++
     "    PURECART " +++ qchem_determine_pure els +++ nl1
   else "AUX_BASIS GEN" +++ nl1) +++
  "$end" +++ nl1 +++ nl1.

(* the $rem block is complete before the first element is written (_determine_pure raises nothing) *)
Definition qchem_write_all (role : string) (els : list (Z * list sshell)) (ecps : list (Z * gecp)) : res string :=
  do a <- match els with
          | [] => ok ""
          | _ => do parts <- mapM qchem_write_element els;
                 ok ("$" +++ (if String.eqb role "orbital" then "basis" else "aux_basis") +++ nl1 +++
                     String.concat "" parts +++ "$end" +++ nl1)
          end;
  do b <- match ecps with
          | [] => ok ""
          | _ => do parts <- mapM qchem_write_ecp_element ecps;
                 ok (nl1 +++ nl1 +++ "$ecp" +++ nl1 +++ String.concat "" parts +++ "$end" +++ nl1)
          end;
  ok (qchem_rem role els ecps +++ a +++ b).
