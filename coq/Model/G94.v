(* Model of the ELECTRON-SHELL part of the Gaussian94 writer / reader pair:
     writers/g94.py      _write_g94_common (write_g94 = _write_g94_common(basis, False, False, False)), the loop over
                         electron_elements: element line `Sym     0`, shell lines `AM nprim   1.00`, number lines, `****`
     readers/g94.py      read_g94, _parse_electron_lines (element_re, am_line_re, explicit_am_line_re)
     readers/helpers.py  prune_lines, partition_lines, parse_line_regex, replace_d, parse_primitive_matrix(lines, nprim, ngen)
     printing.py         write_matrix(..., convert_exp=True)
     lut.py              element_sym_from_Z, element_Z_from_sym, amint_to_char / amchar_to_int (BOTH with hij=True),
                         function_type_from_am
     manip.py            create_element_data (key_exist_ok=False)
   The ECP part (`Sym 0` / `Sym-ECP lmax ncore` / potentials) is NOT modelled: the writer model gets no ECP data, the reader
   model answers ENotImpl where read_g94 would enter _parse_ecp_lines.
   Text is a string of bytes, white space is ASCII white space, letters / digits are ASCII (as everywhere in Model/).
   Definitions only; statements in Proofs/G94Defs.v, proofs in Proofs/G94Spec.v. *)
From BSE Require Import Model.Val Model.Text Model.Num Model.Basis Model.Manip Model.Matrix Model.Lut Model.Elements
                        Model.Nwchem.

(* ------------------------------------------------------------------ *)
(* writer                                                              *)
(* ------------------------------------------------------------------ *)

(* '{:4}'.format(s): left aligned in a field of 4, never truncated *)
Definition pad4 (s : string) : string := s +++ sp (4 - String.length s).

(* one iteration of `for shell in data['electron_shells']`.
   point_places = [8 * i + 15 * (i - 1) for i in range(1, ncol + 1)] is Model.Nwchem.nw_point_places *)
Definition g94_write_shell (add_harm_type psi4_am : bool) (s : sshell) : res string :=
  let ncol := S (List.length (coefs s)) in
  let nprim := List.length (exps s) in
  do amchar0 <- amint_to_char (am s) true false;
  let amchar :=
    match am s with
    | [l] => if andb psi4_am (7 <=? l)%Z then "L=" +++ Z_to_string l else upper amchar0
    | _ => upper amchar0
    end in
  let harm := if andb add_harm_type (String.eqb (ftype s) "gto_cartesian") then " c" else "" in
  do m <- write_matrix (map CStr (exps s) :: map (map CStr) (coefs s)) (nw_point_places ncol) true;
  ok (pad4 amchar +++ " " +++ nat_str nprim +++ "   1.00" +++ harm +++ nl1 +++ m).

(* one iteration of `for z in electron_elements` *)
Definition g94_write_element (add_harm_type psi4_am system_library : bool) (zs : Z * list sshell) : res string :=
  let '(z, shs) := zs in
  do sym <- element_sym_from_Z z true;
  do body <- mapM (g94_write_shell add_harm_type psi4_am) shs;
  ok ((if system_library then "-" else "") +++ sym +++ "     0" +++ nl1 +++ String.concat "" body +++ "****" +++ nl1).

(* _write_g94_common, the `if electron_elements:` part.
   INPUT: els = [(z, data['electron_shells']) for the elements that have the key 'electron_shells'], in dictionary order,
   taken from the basis AFTER the three normalisation calls the writer makes first:
       basis = manip.uncontract_general(basis, True)     (a shell with ONE angular momentum and n > 1 general contractions
                                                          becomes n shells with one contraction each; then prune_basis)
       basis = manip.uncontract_spdf(basis, 1, False)    (sp shells stay fused, every momentum > 1 is split off)
       basis = sort.sort_basis(basis, False)
   so that in the writer's own input every shell has exactly one column of coefficients per angular momentum. *)
Definition g94_write_common (add_harm_type psi4_am system_library : bool) (els : list (Z * list sshell)) : res string :=
  do parts <- mapM (g94_write_element add_harm_type psi4_am system_library) els;
  ok (String.concat "" parts).

(* write_g94 *)
Definition g94_write_electron (els : list (Z * list sshell)) : res string := g94_write_common false false false els.

(* ------------------------------------------------------------------ *)
(* reader: the regular expressions                                     *)
(* ------------------------------------------------------------------ *)

(* `$` (no MULTILINE): at the end of the string or just before a newline that ends the string *)
Definition dollar (r : string) : bool :=
  match r with
  | EmptyString => true
  | String c EmptyString => beq c 10
  | _ => false
  end.

Fixpoint span_digit (s : string) : string * string :=
  match s with
  | String c t => if is_digit c then let '(a, r) := span_digit t in (String c a, r) else (EmptyString, s)
  | EmptyString => (EmptyString, EmptyString)
  end.

(* element_re = ^-?([A-Za-z]{1,3})(?:\s+0)?$ .match(line): only the truth value is used (partition_lines).
   The run of letters must be maximal (what follows is white space or the end), `\s+` as well (what follows is `0`). *)
Definition is_element_line (l : string) : bool :=
  let l1 := match l with String "-" t => t | _ => l end in
  let '(a, r) := span_alpha l1 in
  if andb (Nat.leb 1 (String.length a)) (Nat.leb (String.length a) 3) then
    if dollar r then true else
    match r with
    | String c _ =>
      if is_space c then match lstrip_ws r with String "0" r' => dollar r' | _ => false end else false
    | EmptyString => false
    end
  else false.

(* the last group of both shell-line expressions, ((?:\s+F)+)$ with F = floating_re_str, applied to what follows nprim:
   white space first, then white-space separated words each of which matches F entirely (F has no white space and must
   be followed by white space or `$`), the last word ending the string (up to the newline `$` tolerates).
   Returns the captured group. *)
Definition chomp_nl (s : string) : string :=
  match srev s with String c t => if beq c 10 then srev t else s | EmptyString => s end.
Definition scaling_group (r : string) : option string :=
  let g := chomp_nl r in
  match g, srev g with
  | String c _, String d _ =>
    if andb (is_space c) (negb (is_space d)) then
      if forallb is_floating (tokens_acc g "") then Some g else None
    else None
  | _, _ => None
  end.

(* `\s+(\d+)((?:\s+F)+)$` : the common tail of both expressions; gives (nprim digits, scaling group) *)
Definition nprim_scaling (r : string) : option (string * string) :=
  match r with
  | String c _ =>
    if is_space c then
      let '(n, r') := span_digit (lstrip_ws r) in
      match n with
      | String _ _ => match scaling_group r' with Some g => Some (n, g) | None => None end
      | EmptyString => None
      end
    else None
  | EmptyString => None
  end.

(* am_line_re = ^([A-Za-z]+)\s+(\d+)((?:\s+F)+)$ *)
Definition match_am_line (l : string) : option (string * string * string) :=
  let '(a, r) := span_alpha l in
  match a with
  | String _ _ => match nprim_scaling r with Some (n, g) => Some (a, n, g) | None => None end
  | EmptyString => None
  end.

(* explicit_am_line_re = ^\s*L=(\d+)\s+(\d+)((?:\s+F)+)$ *)
Definition match_explicit_am_line (l : string) : option (string * string * string) :=
  match lstrip_ws l with
  | String "L" (String "=" r) =>
    let '(d, r') := span_digit r in
    match d with
    | String _ _ => match nprim_scaling r' with Some (n, g) => Some (d, n, g) | None => None end
    | EmptyString => None
    end
  | _ => None
  end.

(* ------------------------------------------------------------------ *)
(* reader: helpers                                                     *)
(* ------------------------------------------------------------------ *)

(* basis_lines.pop() *)
Fixpoint pop_last (l : list string) : option (list string * string) :=
  match l with
  | [] => None
  | x :: t => match t with
              | [] => Some ([], x)
              | _ => match pop_last t with Some (i, z) => Some (x :: i, z) | None => None end
              end
  end.

(* str.lstrip('-') *)
Fixpoint lstrip_dash (s : string) : string :=
  match s with String "-" t => lstrip_dash t | _ => s end.

(* scaling_factors = [float(x) for x in replace_d(group).split()], as exact decimal values mant * 10^e10 (Model.Num:
   float() is modelled by the exact value; a word on which float() raises - `.` or `.E1` match F - is a ValueError) *)
Definition scaling_factors (g : string) : res (list (Z * Z)) :=
  mapM (fun t => match parse_num t with Some v => ok v | None => fail EValue end) (tokens_acc (replace_d g) "").
(* x != 0.0 *)
Definition dec_nonzero (v : Z * Z) : bool := negb (Z.eqb (fst v) 0).
(* float(x) ** 2 != 1.0 *)
Definition dec_square_not_one (v : Z * Z) : bool :=
  match dec_compare ((fst v * fst v)%Z, (2 * snd v)%Z) (1%Z, 0%Z) with Eq => false | _ => true end.

(* helpers.parse_primitive_matrix(lines, nprim, ngen): Model.Matrix.parse_primitive_matrix plus the nprim test (the second
   nprim test, on len(coefficients[0]), can never fail after the first) and the ngen test *)
Definition parse_primitive_matrix_n (lines : list string) (nprim ngen : nat) : res (list string * list (list string)) :=
  do ec <- parse_primitive_matrix lines;
  if negb (Nat.eqb (List.length (fst ec)) nprim) then fail ERuntime else
  if negb (Nat.eqb (List.length (snd ec)) ngen) then fail ERuntime else
  ok ec.

(* ------------------------------------------------------------------ *)
(* reader                                                              *)
(* ------------------------------------------------------------------ *)

(* the body of `for sh_lines in shell_blocks`, giving the shell that is appended *)
Definition g94_parse_shell_block (sh_lines : list string) : res sshell :=
  match sh_lines with
  | [] => fail EIndex
  | first :: rest =>
    do hdr <-
      match match_am_line first with
      | Some (a, n, g) => do shell_am <- amchar_to_int a true; ok (shell_am, n, g)
      | None =>
        match match_explicit_am_line first with
        | Some (d, n, g) => ok ([digits_val d 0], n, g)
        | None => fail ERuntime
        end
      end;
    let '(shell_am, nprim, scaling) := hdr in
    (* the reader has no information about spherical / cartesian: it always says 'spherical' *)
    do func_type <- function_type_from_am shell_am "gto" "spherical";
    do sfs <- scaling_factors scaling;
    match filter dec_nonzero sfs with
    | [] => fail ERuntime
    | [sf] =>
      let has_scaling := dec_square_not_one sf in
      let ngen := List.length shell_am in
      do ec <- parse_primitive_matrix_n rest (Z.to_nat (digits_val nprim 0)) ngen;
      let '(exponents, coefficients) := ec in
      (* `if has_scaling:` the exponents are multiplied by the squared factor in binary floating point and printed with
         '{:.16E}' - outside the modelled fragment *)
      if has_scaling then fail ENotImpl else
      ok (mkShell func_type "" shell_am exponents coefficients)
    | _ => fail ENotImpl
    end
  end.

(* readers/g94.py _parse_electron_lines.  bs_data: element -> its 'electron_shells', in insertion order (the Python key is
   str(Z), the model keeps Z).  create_element_data(bs_data, element_Z, 'electron_shells') with key_exist_ok=False: a
   second electron section for the same element is a RuntimeError.  The shells are appended one by one in Python; an
   exception leaves no result, so collecting them first is the same. *)
Definition g94_parse_electron_lines (es : list string) (bs_data : list (Z * list sshell)) : res (list (Z * list sshell)) :=
  match pop_last es with
  | None => fail EIndex
  | Some (basis_lines, last) =>
    if negb (String.eqb last "****") then fail ERuntime else
    match basis_lines with
    | [] => fail EIndex
    | first :: rest =>
      match tokens_acc first "" with
      | [] => fail EIndex
      | t :: _ =>
        let element_sym := lstrip_dash t in
        do element_Z <- element_Z_from_sym element_sym;
        if existsb (Z.eqb element_Z) (map fst bs_data) then fail ERuntime else
        do shell_blocks <- partition_lines rest starts_alpha true 1 0 0;
        do shells <- mapM g94_parse_shell_block shell_blocks;
        ok (bs_data ++ [(element_Z, shells)])
      end
    end
  end.

(* `for es in element_sections`: `len(es) > 3 and helpers.is_integer(es[3])` is the guess "this is an ECP" *)
Fixpoint g94_sections (sections : list (list string)) (bs_data : list (Z * list sshell)) : res (list (Z * list sshell)) :=
  match sections with
  | [] => ok bs_data
  | es :: t =>
    if match nth_error es 3 with Some l3 => is_integer l3 | None => false end then fail ENotImpl else
    do d <- g94_parse_electron_lines es bs_data; g94_sections t d
  end.

(* readers/g94.py read_g94, electron part of bs_data.  (For an empty file Python returns bs_data alone, otherwise the pair
   (bs_data, other_data); the model gives bs_data in both cases.) *)
Definition g94_read_electron (lines : list string) : res (list (Z * list sshell)) :=
  let basis_lines := prune_lines lines "!" true true in
  match basis_lines with
  | [] => ok []
  | _ =>
    do element_sections <- partition_lines basis_lines (fun x => ok (is_element_line x)) true 3 0 0;
    g94_sections element_sections []
  end.

Definition g94_roundtrip (els : list (Z * list sshell)) : res (list (Z * list sshell)) :=
  do t <- g94_write_electron els; g94_read_electron (splitlines t).
