(* Model of the ELECTRON-SHELL part of the Turbomole writer / reader pair:
     writers/turbomole.py  write_turbomole          (the `$basis` section: `*` separators, `sym name` lines, shell headers
                                                     `nprim am`, number rows, up to `$end`; the `$ecp` section is NOT modelled)
     readers/turbomole.py  read_turbomole, _parse_electron_lines
                           (section_re, element_re, shell_re, exp_coef_re)
     readers/helpers.py    prune_lines, partition_lines (also with before=1), parse_line_regex,
                           parse_primitive_matrix (with nprim and ngen)
     lut.py                element_sym_from_Z(z, False), element_Z_from_sym, amint_to_char(am, hij=False),
                           amchar_to_int(c) (hij=False as well), function_type_from_am
     manip.py              create_element_data (key_exist_ok=False)
   Definitions only; statements in Proofs/TurbomoleDefs.v, proofs in Proofs/TurbomoleSpec.v.
   Pieces shared with the NWChem model (Model/Nwchem.v): nw_point_places (the same point_places formula), part_go /
   partition_lines (before=0), span_alpha, function_type_from_am, append_shell. *)
From BSE Require Import Model.Val Model.Text Model.Basis Model.Manip Model.Matrix Model.Lut Model.Elements Model.Nwchem.

(* ------------------------------------------------------------------ *)
(* writer                                                              *)
(* ------------------------------------------------------------------ *)

(* role = basis.get('role', 'orbital');  s = '$basis\n'; 'jfit' -> '$jbas', 'jkfit' -> '$jkbas', 'rifit' -> '$cbas'.
   Every other role (orbital, admmfit, dftxfit, guess, ...) keeps '$basis'. *)
Definition tm_section_keyword (role : string) : string :=
  if String.eqb role "jfit" then "$jbas"
  else if String.eqb role "jkfit" then "$jkbas"
  else if String.eqb role "rifit" then "$cbas"
  else "$basis".

(* s += '    {}   {}\n'.format(nprim, amchar); s += printing.write_matrix([exponents, *coefficients], point_places,
   convert_exp=True) *)
Definition tm_write_shell (s : sshell) : res string :=
  let ncol := S (List.length (coefs s)) in
  let nprim := List.length (exps s) in
  do amchar <- amint_to_char (am s) false false;
  do m <- write_matrix (map CStr (exps s) :: map (map CStr) (coefs s)) (nw_point_places ncol) true;
  ok ("    " +++ nat_str nprim +++ "   " +++ amchar +++ nl1 +++ m).

(* one iteration of `for z in electron_elements`: '{} {}\n'.format(sym, basis['name']), '*\n', the shells, '*\n' *)
Definition tm_write_element (bsname : string) (zs : Z * list sshell) : res string :=
  let '(z, shs) := zs in
  do sym <- element_sym_from_Z z false;
  do body <- mapM tm_write_shell shs;
  ok (sym +++ " " +++ bsname +++ nl1 +++ "*" +++ nl1 +++ String.concat "" body +++ "*" +++ nl1).

(* role   = basis.get('role', 'orbital')
   bsname = basis['name']
   els    = [(z, data['electron_shells'])] for the elements that have electron shells, in dictionary order, AFTER
              basis = manip.uncontract_general(basis, True)   (one shell per general contraction; fused shells untouched;
                                                               ends with prune_basis)
              basis = manip.uncontract_spdf(basis, 0, False)  (fused sp/spd/... shells split into one shell per momentum)
              basis = sort.sort_basis(basis, False)           (primitives and shells sorted)
   The text up to and including '$end' when no element has an ECP (with ECPs, '$ecp\n*\n...' comes before '$end'). *)
Definition tm_write_electron (role : string) (bsname : string) (els : list (Z * list sshell)) : res string :=
  do parts <- mapM (tm_write_element bsname) els;
  ok (tm_section_keyword role +++ nl1 +++ "*" +++ nl1 +++ String.concat "" parts +++ "$end" +++ nl1).

(* ------------------------------------------------------------------ *)
(* reader: helpers                                                     *)
(* ------------------------------------------------------------------ *)

(* helpers.partition_lines with before > 0 (min_after=None, include_match=True, min_blocks=max_blocks=None).
   `for idx in range(1, len(all_blocks))`: block idx takes the last `before` lines of block idx-1 (which has already
   received its own share).  prev = all_blocks[idx-1] as it is at that moment. *)
Fixpoint steal_before (before : nat) (prev : list string) (rest : list (list string)) : list (list string) :=
  match rest with
  | [] => [prev]
  | b :: t =>
    let k := (List.length prev - before)%nat in
    firstn k prev :: steal_before before (skipn k prev ++ b) t
  end.

Definition partition_lines_before (lines : list string) (cond : string -> res bool) (before min_size : nat)
  : res (list (list string)) :=
  do blocks <- part_go cond true lines [] [];
  match blocks with
  | [] | [_] => fail ERuntime                                         (* len(all_blocks) <= 1 *)
  | b0 :: rest =>
    if negb (Nat.eqb (List.length b0) before) then fail ERuntime else  (* len(all_blocks[0]) != before *)
    match steal_before before b0 rest with
    | [] => fail EIndex                                               (* unreachable *)
    | first_block :: blocks' =>
      match first_block with
      | _ :: _ => fail EAssert                                        (* assert len(first_block) == 0 *)
      | [] =>
        if existsb (fun b => Nat.ltb (List.length b) min_size) blocks' then fail ERuntime else ok blocks'
      end
    end
  end.

(* element_re = ^([a-zA-Z]{1,3})\s+(.* )$  [group 2 is `.` star]  (lines contain no newline).  The letter group must be the maximal run of letters
   (the character after it has to be white space), of length 1..3; group 2 matches whatever follows. *)
Definition match_element_line (l : string) : option string :=
  let '(a, r) := span_alpha l in
  match a, r with
  | String _ _, String c _ => if andb (Nat.leb (String.length a) 3) (is_space c) then Some a else None
  | _, _ => None
  end.
Definition is_element_line (l : string) : bool := match match_element_line l with Some _ => true | None => false end.
(* helpers.parse_line_regex(element_re, line, 'Element line'): only group 1 is used *)
Definition parse_element_line (l : string) : res string :=
  match match_element_line l with Some a => ok a | None => fail ERuntime end.

(* shell_re = ^(\d+) +([a-zA-Z])$ : digits (ASCII), one or more blanks (' ' only), exactly one letter *)
Fixpoint span_digits (s : string) : string * string :=
  match s with
  | String c t => if is_digit c then let '(a, r) := span_digits t in (String c a, r) else (EmptyString, s)
  | EmptyString => (EmptyString, EmptyString)
  end.
Fixpoint lstrip_blanks (s : string) : string :=
  match s with String c t => if Ascii.eqb c " " then lstrip_blanks t else s | EmptyString => EmptyString end.
Definition match_shell_line (l : string) : option (string * ascii) :=
  let '(d, r) := span_digits l in
  match d, r with
  | String _ _, String c r1 =>
    if Ascii.eqb c " " then
      match lstrip_blanks r1 with
      | String a EmptyString => if is_alpha a then Some (d, a) else None
      | _ => None
      end
    else None
  | _, _ => None
  end.
Definition is_shell_line (l : string) : bool := match match_shell_line l with Some _ => true | None => false end.
(* helpers.parse_line_regex(shell_re, line, 'shell nprim, am'): convert_int turns the digits into an int *)
Definition parse_shell_line (l : string) : res (Z * string) :=
  match match_shell_line l with Some (d, a) => ok (digits_val d 0, String a EmptyString) | None => fail ERuntime end.

(* exp_coef_re = ^(\d+\s+)?(F)\s+(F)$ with F = helpers.floating_re_str, matched against a stripped line (prune_lines):
   the line consists of two white-space separated floating-point tokens, optionally preceded by a token of digits.
   Returns groups[-2], groups[-1]. *)
Definition match_exp_coef (l : string) : option (string * string) :=
  match tokens_acc l "" with
  | [e; c] => if andb (is_floating e) (is_floating c) then Some (e, c) else None
  | [i; e; c] => if andb (sall is_digit i) (andb (is_floating e) (is_floating c)) then Some (e, c) else None
  | _ => None
  end.

(* helpers.parse_primitive_matrix(lines, nprim=nprim, ngen=ngen): Model.Matrix.parse_primitive_matrix plus the final
   nprim / ngen tests (all RuntimeError) *)
Definition parse_primitive_matrix_np (lines : list string) (nprim : Z) (ngen : nat)
  : res (list string * list (list string)) :=
  do ec <- parse_primitive_matrix lines;
  let '(exponents, coefficients) := ec in
  if negb (Z.eqb (Z.of_nat (List.length exponents)) nprim) then fail ERuntime else
  match coefficients with
  | [] => fail ERuntime
  | c0 :: _ =>
    if negb (Z.eqb (Z.of_nat (List.length c0)) nprim) then fail ERuntime else
    if negb (Nat.eqb (List.length coefficients) ngen) then fail ERuntime else ok ec
  end.

(* manip.create_element_data(bs_data, element_Z, 'electron_shells')  (key_exist_ok=False).  Only electron sections are
   modelled, so an element that exists in bs_data has the key 'electron_shells'. *)
Definition tm_create_electron_shells (z : Z) (d : list (Z * list sshell)) : res (list (Z * list sshell)) :=
  if existsb (Z.eqb z) (map fst d) then fail ERuntime else ok (d ++ [(z, [])]).

(* ------------------------------------------------------------------ *)
(* reader                                                              *)
(* ------------------------------------------------------------------ *)

(* the body of `for sh_lines in shell_blocks`, up to the shell dictionary *)
Definition tm_parse_shell_block (sh_lines : list string) : res sshell :=
  match sh_lines with
  | [] => fail EIndex
  | first :: rest =>
    do na <- parse_shell_line first;
    let '(nprim, shell_am_str) := na in
    do shell_am <- amchar_to_int shell_am_str false;
    do func_type <- function_type_from_am shell_am "gto" "spherical";
    do exponents_and_coefficients <-
       mapM (fun line => match match_exp_coef line with
                         | Some (e, c) => ok (e +++ " " +++ c)
                         | None => fail EValue
                         end) rest;
    do ec <- parse_primitive_matrix_np exponents_and_coefficients nprim 1;
    let '(exponents, coefficients) := ec in
    ok (mkShell func_type "" shell_am exponents coefficients)
  end.

(* element_data['electron_shells'].append(shell) for every block *)
Fixpoint tm_parse_shell_blocks (z : Z) (blocks : list (list string)) (bs_data : list (Z * list sshell))
  : res (list (Z * list sshell)) :=
  match blocks with
  | [] => ok bs_data
  | b :: t => do sh <- tm_parse_shell_block b; tm_parse_shell_blocks z t (append_shell z sh bs_data)
  end.

(* first loop over element_blocks: the `*` lines around the element line, no other line starting with `*` *)
Definition tm_check_element_block (element_lines : list string) : res unit :=
  match element_lines with
  | l0 :: _ :: l2 :: rest =>
    if negb (String.eqb l0 "*") then fail ERuntime else
    if negb (String.eqb l2 "*") then fail ERuntime else
    if existsb (str_prefix "*") rest then fail ERuntime else ok tt
  | _ => fail EIndex
  end.

(* second loop over element_blocks *)
Definition tm_parse_element_block (element_lines : list string) (bs_data : list (Z * list sshell))
  : res (list (Z * list sshell)) :=
  match element_lines with
  | _ :: l1 :: _ :: rest =>
    do element_sym <- parse_element_line l1;
    do element_Z <- element_Z_from_sym element_sym;
    do d <- tm_create_electron_shells element_Z bs_data;
    do shell_blocks <- partition_lines rest (fun x => ok (is_shell_line x)) true 2 0 0;
    tm_parse_shell_blocks element_Z shell_blocks d
  | _ => fail EIndex
  end.

Fixpoint tm_parse_element_blocks (blocks : list (list string)) (bs_data : list (Z * list sshell))
  : res (list (Z * list sshell)) :=
  match blocks with
  | [] => ok bs_data
  | b :: t => do d <- tm_parse_element_block b bs_data; tm_parse_element_blocks t d
  end.

(* readers/turbomole.py _parse_electron_lines *)
Definition tm_parse_electron_lines (basis_lines : list string) (bs_data : list (Z * list sshell))
  : res (list (Z * list sshell)) :=
  let basis_lines := prune_lines basis_lines "$" true true in
  match rev basis_lines with
  | [] => fail EIndex                                                  (* basis_lines[-1] *)
  | last :: r =>
    if negb (String.eqb last "*") then fail ERuntime else
    let basis_lines := rev r in                                        (* basis_lines.pop() *)
    do element_blocks <- partition_lines_before basis_lines (fun x => ok (is_element_line x)) 1 4;
    do _ <- mapM tm_check_element_block element_blocks;
    tm_parse_element_blocks element_blocks bs_data
  end.

(* section_re = ^\$(basis|ecp|cbas|jbas|jkbas)$ *)
Definition tm_section_names : list string := ["$basis"; "$ecp"; "$cbas"; "$jbas"; "$jkbas"].

(* `for s in basis_sections` of read_turbomole.  An '$ecp' section is outside the modelled fragment: ENotImpl *)
Fixpoint tm_sections (sections : list (list string)) (bs_data : list (Z * list sshell)) : res (list (Z * list sshell)) :=
  match sections with
  | [] => ok bs_data
  | s :: t =>
    if forallb (str_prefix "$") s then tm_sections t bs_data else      (* all(x.startswith('$') for x in s), also len 0 *)
    match s with
    | [] => tm_sections t bs_data
    | first :: _ =>
      if String.eqb (lower first) "$ecp" then fail ENotImpl
      else if existsb (String.eqb first) tm_section_names then
        do d <- tm_parse_electron_lines s bs_data; tm_sections t d
      else fail ERuntime
    end
  end.

(* readers/turbomole.py read_turbomole, electron part of the result (bs_data; the key str(Z) is kept as Z) *)
Definition tm_read_electron (lines : list string) : res (list (Z * list sshell)) :=
  let basis_lines := prune_lines lines "#" true true in
  do _ <- match basis_lines with
          | [] => ok tt
          | first :: _ =>
            match first with
            | EmptyString => fail EIndex                               (* basis_lines[0][0]; lines are not blank here *)
            | String c _ =>
              if negb (Ascii.eqb c "$") then fail ERuntime else
              match rev basis_lines with
              | last :: _ => if negb (String.eqb last "$end") then fail ERuntime else ok tt
              | [] => ok tt
              end
            end
          end;
  do sections <- partition_lines basis_lines
                   (fun x => ok (andb (str_prefix "$" x) (negb (String.eqb x "$end")))) true 1 1 2;
  tm_sections sections [].

Definition tm_roundtrip (role bsname : string) (els : list (Z * list sshell)) : res (list (Z * list sshell)) :=
  do t <- tm_write_electron role bsname els; tm_read_electron (splitlines t).
