(* Model of the ELECTRON-SHELL part of the NWChem writer / reader pair:
     writers/nwchem.py   write_nwchem            (the `BASIS "ao basis" ... END` section, after uncontract_spdf / sort_basis)
     readers/nwchem.py   read_nwchem, _parse_electron_lines
     readers/helpers.py  partition_lines, parse_line_regex (am_line_re), parse_primitive_matrix (with the ngen check)
     lut.py              function_type_from_am
     manip.py            create_element_data (key_exist_ok=True)
   The ECP section is NOT modelled.  Definitions only; statements in Proofs/NwchemDefs.v, proofs in Proofs/NwchemSpec.v. *)
From BSE Require Import Model.Val Model.Text Model.Basis Model.Manip Model.Matrix Model.Lut Model.Elements.

(* ------------------------------------------------------------------ *)
(* writer                                                              *)
(* ------------------------------------------------------------------ *)

(* point_places = [8 * i + 15 * (i - 1) for i in range(1, ncol + 1)] *)
Definition nw_point_places (ncol : nat) : list Z := map (fun i => (8 * i + 15 * (i - 1))%Z) (zrange 1 ncol).

(* what misc.contraction_string looks at in a shell *)
Definition nw_cshell (s : sshell) : cshell := (am s, List.length (exps s), List.length (coefs s)).

(* s += '{}    {}\n'.format(sym, amchar); s += printing.write_matrix([exponents, *coefficients], point_places) *)
Definition nw_write_shell (sym : string) (s : sshell) : res string :=
  let ncol := S (List.length (coefs s)) in
  do amchar <- amint_to_char (am s) false false;
  do m <- write_matrix (map CStr (exps s) :: map (map CStr) (coefs s)) (nw_point_places ncol) false;
  ok (sym +++ "    " +++ upper amchar +++ nl1 +++ m).

(* one iteration of `for z in electron_elements` *)
Definition nw_write_element (zs : Z * list sshell) : res string :=
  let '(z, shs) := zs in
  do sym <- element_sym_from_Z z true;
  do cs <- contraction_string (Some (map nw_cshell shs)) false;
  do body <- mapM (nw_write_shell sym) shs;
  ok ("#BASIS SET: " +++ cs +++ nl1 +++ String.concat "" body).

(* harm = harm_type ('cartesian' if 'gto_cartesian' in basis['function_types'] else 'spherical');
   els  = [(z, data['electron_shells'])] for the elements that have electron shells, in dictionary order.
   `if electron_elements:` : nothing at all is written when there is no such element *)
Definition nw_write_electron (harm : string) (els : list (Z * list sshell)) : res string :=
  match els with
  | [] => ok ""
  | _ =>
    do parts <- mapM nw_write_element els;
    ok ("BASIS ""ao basis"" " +++ upper harm +++ " PRINT" +++ nl1 +++ String.concat "" parts +++ "END" +++ nl1)
  end.

(* ------------------------------------------------------------------ *)
(* reader: helpers                                                     *)
(* ------------------------------------------------------------------ *)

(* helpers.partition_lines with before=0, min_after=None.  cond may raise (x[0] on an empty line).
   The while loop: cur = cur_block, all = all_blocks *)
Fixpoint part_go (cond : string -> res bool) (include_match : bool) (lines : list string)
                 (cur : list string) (all : list (list string)) : res (list (list string)) :=
  match lines with
  | [] => ok (match cur with [] => all | _ => all ++ [cur] end)
  | l :: t =>
    do b <- cond l;
    if b then
      let all' := match cur with [] => all | _ => all ++ [cur] end in
      part_go cond include_match t (if include_match then [l] else []) all'
    else part_go cond include_match t (cur ++ [l]) all
  end.

(* min_size / min_blocks / max_blocks: 0 stands for None (Python tests their truth value, `min_size > 0` for the first) *)
Definition partition_lines (lines : list string) (cond : string -> res bool) (include_match : bool)
                           (min_size min_blocks max_blocks : nat) : res (list (list string)) :=
  do blocks <- part_go cond include_match lines [] [];
  if existsb (fun b => Nat.ltb (List.length b) min_size) blocks then fail ERuntime else
  if andb (negb (Nat.eqb min_blocks 0)) (Nat.ltb (List.length blocks) min_blocks) then fail ERuntime else
  if andb (negb (Nat.eqb max_blocks 0)) (Nat.ltb max_blocks (List.length blocks)) then fail ERuntime else
  ok blocks.

(* lambda x: x.lower() == 'end' *)
Definition is_end_line (x : string) : bool := String.eqb (lower x) "end".
(* lambda x: x[0].isalpha()   (ASCII letters; IndexError on an empty line) *)
Definition starts_alpha (x : string) : res bool :=
  match x with String c _ => ok (is_alpha c) | EmptyString => fail EIndex end.

(* am_line_re = ^([A-Za-z]+)\s+([A-Za-z]+)$ matched against a whole line (no newline inside: lines come from
   splitlines).  Every group of the regex is forced to be maximal (the character after a letter run must be white space,
   the character after the white space run must be a letter), so the match is deterministic. *)
Fixpoint span_alpha (s : string) : string * string :=
  match s with
  | String c t => if is_alpha c then let '(a, r) := span_alpha t in (String c a, r) else (EmptyString, s)
  | EmptyString => (EmptyString, EmptyString)
  end.
Definition match_am_line (l : string) : option (string * string) :=
  let '(a, r) := span_alpha l in
  match a, r with
  | String _ _, String c _ =>
    if is_space c then
      let '(b, r') := span_alpha (lstrip_ws r) in
      match b, r' with
      | String _ _, EmptyString => Some (a, b)
      | _, _ => None
      end
    else None
  | _, _ => None
  end.
(* helpers.parse_line_regex(am_line_re, line, ...): RuntimeError when there is no match.  (convert_int leaves groups
   made of letters alone.) *)
Definition parse_am_line (l : string) : res (string * string) :=
  match match_am_line l with Some p => ok p | None => fail ERuntime end.

(* lut.function_type_from_am: max() of an empty list is a ValueError *)
Definition function_type_from_am (shell_am : list Z) (base_type spherical_type : string) : res string :=
  match shell_am with
  | [] => fail EValue
  | _ => ok (if (zmax shell_am <=? 1)%Z then base_type else base_type +++ "_" +++ spherical_type)
  end.

(* helpers.parse_primitive_matrix(lines, ngen=ngen): Model.Matrix.parse_primitive_matrix plus the final ngen test *)
Definition parse_primitive_matrix_ngen (lines : list string) (ngen : option nat)
  : res (list string * list (list string)) :=
  do ec <- parse_primitive_matrix lines;
  match ngen with
  | None => ok ec
  | Some n => if Nat.eqb (List.length (snd ec)) n then ok ec else fail ERuntime
  end.

(* bs_data: element -> its 'electron_shells' list, in insertion order.  The Python key is str(Z); the model keeps Z.
   create_element_data(bs_data, element_Z, 'electron_shells', key_exist_ok=True) followed by .append(shell) *)
Fixpoint append_shell (z : Z) (sh : sshell) (d : list (Z * list sshell)) : list (Z * list sshell) :=
  match d with
  | [] => [(z, [sh])]
  | (z', shs) :: t => if Z.eqb z z' then (z', shs ++ [sh]) :: t else (z', shs) :: append_shell z sh t
  end.

(* ------------------------------------------------------------------ *)
(* reader                                                              *)
(* ------------------------------------------------------------------ *)

(* the body of `for sh_lines in shell_blocks` *)
Definition nw_parse_shell_block (am_type : string) (sh_lines : list string) (bs_data : list (Z * list sshell))
  : res (list (Z * list sshell)) :=
  match sh_lines with
  | [] => fail EIndex
  | first :: rest =>
    do sa <- parse_am_line first;
    let '(element_sym, shell_am_str) := sa in
    do shell_am <- amchar_to_int shell_am_str false;
    do element_Z <- element_Z_from_sym element_sym;
    do func_type <- function_type_from_am shell_am "gto" am_type;
    let ngen := if Nat.ltb 1 (List.length shell_am) then Some (List.length shell_am) else None in
    do ec <- parse_primitive_matrix_ngen rest ngen;
    let '(exponents, coefficients) := ec in
    ok (append_shell element_Z (mkShell func_type "" shell_am exponents coefficients) bs_data)
  end.

Fixpoint nw_parse_shell_blocks (am_type : string) (blocks : list (list string)) (bs_data : list (Z * list sshell))
  : res (list (Z * list sshell)) :=
  match blocks with
  | [] => ok bs_data
  | b :: t => do d <- nw_parse_shell_block am_type b bs_data; nw_parse_shell_blocks am_type t d
  end.

(* readers/nwchem.py _parse_electron_lines *)
Definition nw_parse_electron_lines (basis_lines : list string) (bs_data : list (Z * list sshell))
  : res (list (Z * list sshell)) :=
  let basis_lines := filter (fun x => negb (is_end_line x)) basis_lines in
  match basis_lines with
  | [] => fail EIndex
  | first :: rest =>
    if negb (str_prefix "basis" (lower first)) then fail ERuntime else
    let am_type := if infix "spherical" (lower first) then "spherical" else "cartesian" in
    do shell_blocks <- partition_lines rest starts_alpha true 2 0 0;
    nw_parse_shell_blocks am_type shell_blocks bs_data
  end.

(* `for s in basis_sections` of read_nwchem.  An 'ecp' section is outside the modelled fragment: ENotImpl *)
Fixpoint nw_sections (sections : list (list string)) (bs_data : list (Z * list sshell)) : res (list (Z * list sshell)) :=
  match sections with
  | [] => ok bs_data
  | s :: t =>
    match s with
    | [] => fail EIndex
    | first :: _ =>
      if str_prefix "basis" (lower first) then do d <- nw_parse_electron_lines s bs_data; nw_sections t d
      else if str_prefix "ecp" (lower first) then fail ENotImpl
      else fail ERuntime
    end
  end.

(* readers/nwchem.py read_nwchem, electron part of the result (bs_data) *)
Definition nw_read_electron (lines : list string) : res (list (Z * list sshell)) :=
  let basis_lines := prune_lines lines "#" true true in
  do sections <- partition_lines basis_lines (fun x => ok (is_end_line x)) false 1 1 2;
  nw_sections sections [].

Definition nw_roundtrip (els : list (Z * list sshell)) (harm : string) : res (list (Z * list sshell)) :=
  do t <- nw_write_electron harm els; nw_read_electron (splitlines t).
