(* Model of curate/compare.py and curate/diff.py.  Values are exact decimals; the relative tolerance is a rational tn/td.
   The contraction order that compare_electron_shells obtains from sort_shell (a float key) is an input (cidx). *)
From BSE Require Import Model.Val Model.Num Model.Basis Model.Manip Model.Sort Model.Memo Model.Compose Model.Validator.

Definition fl (s : string) : res (Z * Z) := match parse_num s with Some x => ok x | None => fail EValue end.

(* scale two decimals to a common exponent: integers A, B with a : b = A : B *)
Definition common (a b : Z * Z) : Z * Z :=
  let e := Z.min (snd a) (snd b) in (fst a * pow10 (snd a - e), fst b * pow10 (snd b - e))%Z.

(* one entry of _compare_vector: True unless the values differ by more than the relative tolerance tn/td *)
Definition close (tn td : Z) (x y : string) : res bool :=
  do a <- fl x; do b <- fl y;
  let '(A, B) := common a b in
  if Z.eqb A B then ok true else                         (* diff == 0.0 *)
  if orb (Z.eqb A 0) (Z.eqb B 0) then ok false else      (* _reldiff = inf *)
  (* rel = |A-B| / min(|A|,|B|) ;  rel > tn/td  <->  |A-B|*td > tn*min *)
  ok (negb (Z.abs (A - B) * td >? tn * Z.min (Z.abs A) (Z.abs B))%Z).

Fixpoint compare_vector (tn td : Z) (a b : list string) : res bool :=
  match a, b with
  | [], [] => ok true
  | x :: a', y :: b' => do c <- close tn td x y; if c then compare_vector tn td a' b' else ok false
  | _, _ => ok false
  end.
Fixpoint compare_matrix (tn td : Z) (a b : list (list string)) : res bool :=
  match a, b with
  | [], [] => ok true
  | x :: a', y :: b' => do c <- compare_vector tn td x y; if c then compare_matrix tn td a' b' else ok false
  | _, _ => ok false
  end.

(* list(zip(exponents, *coefficients)) *)
Definition shell_rows (s : sshell) : list (list string) := transpose (exps s :: coefs s).

Definition cshellT := (sshell * list nat)%type.     (* a shell with the contraction order sort_shell will choose *)
Definition sorted_of (sc : cshellT) : sshell := sort_shell leb_v "" (fst sc) (snd sc).

Definition compare_electron_shells (tn td : Z) (meta : bool) (s1 s2 : cshellT) : res bool :=
  if negb (list_eqb Z.eqb (am (fst s1)) (am (fst s2))) then ok false else
  do m <- compare_matrix tn td (shell_rows (sorted_of s1)) (shell_rows (sorted_of s2));
  if negb m then ok false else
  if meta then ok (andb (String.eqb (region (fst s1)) (region (fst s2))) (String.eqb (ftype (fst s1)) (ftype (fst s2))))
  else ok true.

(* for item1 in subset: for item2 in superset: if cmp: break; else: return False *)
Fixpoint find_match {A} (cmp : A -> A -> res bool) (x : A) (l : list A) : res bool :=
  match l with
  | [] => ok false
  | y :: t => do c <- cmp x y; if c then ok true else find_match cmp x t
  end.
Fixpoint is_subset {A} (cmp : A -> A -> res bool) (sub sup : list A) : res bool :=
  match sub with
  | [] => ok true
  | x :: t => do f <- find_match cmp x sup; if f then is_subset cmp t sup else ok false
  end.

Definition electron_shells_are_equal (tn td : Z) (meta : bool) (a b : list cshellT) : res bool :=
  if negb (Nat.eqb (List.length a) (List.length b)) then ok false else
  do x <- is_subset (compare_electron_shells tn td meta) a b;
  if x then is_subset (compare_electron_shells tn td meta) b a else ok false.

Definition compare_ecp_pots (tn td : Z) (meta : bool) (p q : pot) : res bool :=
  if negb (list_eqb Z.eqb (p_am p) (p_am q)) then ok false else
  if negb (list_eqb Z.eqb (p_rexp p) (p_rexp q)) then ok false else
  do g <- compare_vector tn td (p_gexp p) (p_gexp q);
  if negb g then ok false else
  do c <- compare_matrix tn td (p_coefs p) (p_coefs q);
  if negb c then ok false else
  if meta then ok (String.eqb (p_type p) (p_type q)) else ok true.

(* ecp_pots_are_equal passes compare_meta but not rel_tol: the tolerance is always 0 *)
Definition ecp_pots_are_equal (meta : bool) (a b : list pot) : res bool :=
  do x <- is_subset (compare_ecp_pots 0 1 meta) a b;
  if x then is_subset (compare_ecp_pots 0 1 meta) b a else ok false.

(* an element as compare_elements sees it *)
Record celement := { ce_shells : option (list cshellT); ce_pots : option (list pot); ce_nelec : option val; ce_refs : option val }.

Definition cmp_keys {A} (a b : option A) (f : A -> A -> res bool) : res bool :=
  match a, b with
  | Some x, Some y => f x y
  | None, None => ok true
  | _, _ => ok false
  end.

Definition compare_elements (tn td : Z) (sh_meta ecp_meta meta : bool) (e1 e2 : celement) : res bool :=
  do a <- cmp_keys (ce_shells e1) (ce_shells e2) (electron_shells_are_equal tn td sh_meta);
  if negb a then ok false else
  do b <- cmp_keys (ce_pots e1) (ce_pots e2) (ecp_pots_are_equal ecp_meta);
  if negb b then ok false else
  do c <- cmp_keys (ce_nelec e1) (ce_nelec e2) (fun x y => ok (val_eqb x y));
  if negb c then ok false else
  if meta then cmp_keys (ce_refs e1) (ce_refs e2) (fun x y => ok (val_eqb x y)) else ok true.

Fixpoint compare_element_lists (tn td : Z) (f1 f2 f3 : bool) (a b : list (string * celement)) : res bool :=
  match a, b with
  | [], [] => ok true
  | (k1, e1) :: a', (k2, e2) :: b' =>
    if negb (String.eqb k1 k2) then ok false else
    do c <- compare_elements tn td f1 f2 f3 e1 e2;
    if c then compare_element_lists tn td f1 f2 f3 a' b' else ok false
  | _, _ => ok false
  end.

(* compare_basis on the elements sorted by key (string order); the top-level metadata comparison is done on the raw dicts *)
Definition sort_celems (l : list (string * celement)) : list (string * celement) :=
  fold_left (fun acc x => (fix ins (l : list (string * celement)) : list (string * celement) :=
                             match l with
                             | [] => [x]
                             | y :: t => if str_ltb (fst x) (fst y) then x :: l else y :: ins t
                             end) acc) l [].
Definition compare_basis (tn td : Z) (f1 f2 f3 : bool) (a b : list (string * celement)) : res bool :=
  compare_element_lists tn td f1 f2 f3 (sort_celems a) (sort_celems b).

(* ---- diff.py ---- *)
Fixpoint subtract_electron_shells (s1 s2 : list cshellT) : res (list cshellT) :=
  match s1 with
  | [] => ok []
  | x :: t => do f <- find_match (compare_electron_shells 0 1 false) x s2;
              do r <- subtract_electron_shells t s2;
              ok (if f then r else x :: r)
  end.

(* one left operand against all right operands; elements are (key, Some shells | None) *)
Definition dbasis := list (string * option (list cshellT)).
Fixpoint subtract_one (left : dbasis) (right : dbasis) : res dbasis :=
  match left with
  | [] => ok []
  | (k, s1) :: t =>
    do s1' <- match s1, assoc k right with
              | Some a, Some (Some b) => do r <- subtract_electron_shells a b; ok (Some r)
              | _, _ => ok s1
              end;
    do t' <- subtract_one t right; ok ((k, s1') :: t')
  end.
Definition diff_left (left : dbasis) (rights : list dbasis) : res dbasis :=
  do r <- (fix go (cur : dbasis) (rs : list dbasis) : res dbasis :=
             match rs with [] => ok cur | b :: t => do c <- subtract_one cur b; go c t end) left rights;
  ok (filter (fun kv => match snd kv with Some (_ :: _) => true | _ => false end) r).
Definition diff_basis_dict (lefts rights : list dbasis) : res (list dbasis) := mapM (fun l => diff_left l rights) lefts.
