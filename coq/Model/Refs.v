(* Model of references.compact_references, refconverters (bib / ris / endnote / the shared assembly) and notes.process_notes.
   The plain-text rendering of one reference (textwrap) is not modelled: it is an input (`txt`). *)
From BSE Require Import Model.Val Model.Basis Model.Memo Model.Compose Model.Index Model.Elements Model.Text.

Definition nl : string := String (byte 10) EmptyString.

(* ---------- compact_references ---------- *)
(* elements sorted by int(z); first-fit grouping by equality of the whole references list *)
Record rgroup := { g_info : val; g_elements : list string }.

Fixpoint add_to_group (el : string) (elref : val) (gs : list rgroup) : list rgroup :=
  match gs with
  | [] => [{| g_info := elref; g_elements := [el] |}]
  | g :: t => if val_eqb (g_info g) elref then {| g_info := g_info g; g_elements := g_elements g ++ [el] |} :: t
              else g :: add_to_group el elref t
  end.

(* each reference group: reference_keys replaced by reference_data = [(key, entry)] ; KeyError for an unknown key *)
Definition resolve_info (ref_data : list (string * val)) (info : val) : res val :=
  do l <- vlist info;
  do l' <- mapM (fun elref =>
      do d <- vdict elref;
      do keys <- (do k <- vfield "reference_keys" elref; do kl <- vlist k; mapM vstr kl);
      do data <- mapM (fun k => match assoc k ref_data with Some r => ok (VList [VStr k; r]) | None => fail EKey end) keys;
      ok (VDict (remove_key "reference_keys" d ++ [("reference_data", VList data)]))) l;
  ok (VList l').

Definition compact_references (elements : list (string * val)) (ref_data : list (string * val)) : res (list rgroup) :=
  do keys <- sort_keys_int (map fst elements);
  do groups <- (fix go (ks : list string) (gs : list rgroup) : res (list rgroup) :=
                  match ks with
                  | [] => ok gs
                  | k :: t => match assoc k elements with
                              | None => fail EKey
                              | Some el => do r <- vfield "references" el; go t (add_to_group k r gs)
                              end
                  end) keys [];
  mapM (fun g => do i <- resolve_info ref_data (g_info g); ok {| g_info := i; g_elements := g_elements g |}) groups.

Definition enc_groups (gs : list rgroup) : val :=
  VList (map (fun g => VDict [("reference_info", g_info g); ("elements", VStrs (g_elements g))]) gs).

(* ---------- one reference in bib / ris / endnote ---------- *)
Definition str_of (v : val) : res string :=
  match v with VStr s => ok s | VInt z => ok (Z_to_string z) | _ => fail EType end.
Definition strs_of (v : val) : res (list string) := do l <- vlist v; mapM vstr l.

Definition entry_type (ref : list (string * val)) : res string :=
  match assoc "_entry_type" ref with Some (VStr s) => ok s | Some _ => fail EType | None => fail EKey end.

Fixpoint bib_lines (ref : list (string * val)) : res (list string) :=
  match ref with
  | [] => ok []
  | (k, v) :: t =>
    do rest <- bib_lines t;
    if String.eqb k "_entry_type" then ok rest else
    if String.eqb k "authors" then do a <- strs_of v; ok (("    author = {" +++ sjoin " and " a +++ "}") :: rest) else
    if String.eqb k "editors" then do a <- strs_of v; ok (("    editor = {" +++ sjoin " and " a +++ "}") :: rest) else
    do s <- str_of v; ok (("    " +++ k +++ " = {" +++ s +++ "}") :: rest)
  end.
Definition write_bib (key : string) (ref : list (string * val)) : res string :=
  do t <- entry_type ref; do ls <- bib_lines ref;
  ok ("@" +++ t +++ "{" +++ key +++ "," +++ nl +++ sjoin ("," +++ nl) ls +++ nl +++ "}").

(* (entry type -> header word), field -> tag; everything else goes to the note tag as key:value *)
Definition ris_types : list (string * string) :=
  [("article", "TY Journal Article "); ("misc", "TY Generic "); ("unpublished", "TY Unpublished "); ("incollection", "TY Book ");
   ("phdthesis", "TY Thesis "); ("dataset", "TY Dataset "); ("techreport", "TY Report ")].
Definition ris_tags : list (string * string) :=
  [("year", "PY"); ("journal", "JO"); ("volume", "VL"); ("pages", "SP"); ("title", "T1"); ("doi", "DO")].
Definition endnote_types : list (string * string) :=
  [("article", "%0 Journal Article "); ("misc", "%0 Generic "); ("unpublished", "%0 Unpublished "); ("incollection", "%0 Book ");
   ("phdthesis", "%0 Thesis "); ("techreport", "%0 Report "); ("dataset", "%0 Data Set ")].
Definition endnote_tags : list (string * string) :=
  [("year", "%D"); ("journal", "%J"); ("volume", "%V"); ("pages", "%P"); ("title", "%T"); ("doi", "%R")].

Fixpoint tagged_lines (au note : string) (tags : list (string * string)) (ref : list (string * val)) : res (list string) :=
  match ref with
  | [] => ok []
  | (k, v) :: t =>
    do rest <- tagged_lines au note tags t;
    if String.eqb k "_entry_type" then ok rest else
    if String.eqb k "authors" then do a <- strs_of v; ok (map (fun x => au +++ " " +++ x) a ++ rest) else
    match assoc k tags with
    | Some tag => do s <- str_of v; ok ((tag +++ " " +++ s) :: rest)
    | None =>
      (* '{}'.format(list) is Python's repr of the list: only the editors list occurs; rendered by the harness-independent rule *)
      do s <- match v with
              | VList l => do ss <- mapM vstr l; ok ("[" +++ sjoin ", " (map (fun x => "'" +++ x +++ "'") ss) +++ "]")
              | _ => str_of v
              end;
      ok ((note +++ " " +++ k +++ ":" +++ s) :: rest)
    end
  end.
Definition write_tagged (types : list (string * string)) (dflt au note : string) (tags : list (string * string))
           (key : string) (ref : list (string * val)) : res string :=
  do t <- entry_type ref;
  do ls <- tagged_lines au note tags ref;
  ok ("#" +++ t +++ " " +++ key +++ nl +++ (match assoc t types with Some h => h | None => dflt end) +++ nl +++ sjoin nl ls +++ nl).
Definition write_ris := write_tagged ris_types "TY Generic" "AU" "N1" ris_tags.
Definition write_endnote := write_tagged endnote_types "%0 Generic" "%A" "%Z" endnote_tags.

(* ---------- sort_single_reference: keys in the canonical order (ValueError for an unknown key) ---------- *)
Definition ref_keyorder : list string :=
  ["schema_type"; "schema_version"; "_entry_type"; "type"; "authors"; "title"; "booktitle"; "series"; "editors"; "journal";
   "institution"; "school"; "volume"; "number"; "pages"; "year"; "note"; "publisher"; "address"; "isbn"; "doi"].
Fixpoint index_of_str (x : string) (l : list string) (i : nat) : option nat :=
  match l with [] => None | y :: t => if String.eqb x y then Some i else index_of_str x t (S i) end.
Fixpoint insert_by_rank (x : nat * (string * val)) (l : list (nat * (string * val))) : list (nat * (string * val)) :=
  match l with [] => [x] | y :: t => if Nat.leb (fst y) (fst x) then y :: insert_by_rank x t else x :: l end.
Definition sort_single_reference (ref : list (string * val)) : res (list (string * val)) :=
  do ranked <- mapM (fun kv => match index_of_str (fst kv) ref_keyorder 0 with Some i => ok (i, kv) | None => fail EValue end) ref;
  ok (map snd (fold_left (fun acc x => insert_by_rank x acc) ranked [])).

(* ---------- convert_references (bib / ris / endnote / txt with the single-reference text as input) ---------- *)
Inductive rfmt := FTxt | FBib | FRis | FEndnote.
Definition comment_of (f : rfmt) : string := match f with FTxt => "" | FBib => "%" | FRis | FEndnote => "#" end.

(* txt : key -> rendered text, supplied for every key that can occur (textwrap is not modelled) *)
Definition single (f : rfmt) (txt : list (string * string)) (key : string) (ref : list (string * val)) : res string :=
  match f with
  | FBib => write_bib key ref
  | FRis => write_ris key ref
  | FEndnote => write_endnote key ref
  | FTxt => match assoc key txt with Some s => ok s | None => fail EKey end
  end.

Fixpoint repeat_str (s : string) (n : nat) : string := match n with O => "" | S k => s +++ repeat_str s k end.

(* textwrap.indent(text, prefix): the prefix in front of every line that is not only white space *)
Definition indent (prefix text : string) : string :=
  String.concat "" (map (fun l => if is_empty (strip_ws l) then l else prefix +++ l) (splitlines_keepends text)).

Definition group_refs (g : val) : res (list (string * list (string * val))) :=
  do info <- (do i <- vfield "reference_info" g; vlist i);
  do per <- mapM (fun ri => do data <- (do d <- vfield "reference_data" ri; vlist d);
                           mapM (fun pair => match pair with
                                             | VList [VStr k; VDict r] => ok (k, r)
                                             | _ => fail EType
                                             end) data) info;
  ok (concat per).

Definition insert_kv_last (x : string * list (string * val)) (m : list (string * list (string * val))) :=
  if existsb (fun kv => String.eqb (fst kv) (fst x)) m
  then map (fun kv => if String.eqb (fst kv) (fst x) then x else kv) m else m ++ [x].

Definition convert_references (f : rfmt) (txt : list (string * string)) (lib_desc : string)
           (lib_refs : list (string * list (string * val))) (groups : list val) : res string :=
  let c := comment_of f in
  let cline := repeat_str c 80 +++ nl in
  (* the reference data of every group is first put into the canonical key order *)
  do sorted_groups <- mapM (fun g =>
      do refs <- group_refs g;
      do refs' <- mapM (fun kr => do r <- sort_single_reference (snd kr); ok (fst kr, r)) refs;
      ok (g, refs')) groups;
  do libs <- mapM (fun kr => do s <- single f txt (fst kr) (snd kr); ok (s +++ nl +++ nl)) lib_refs;
  do table <- mapM (fun gr =>
      let g := fst gr in
      do els <- (do e <- vfield "elements" g; do l <- vlist e; mapM vstr l);
      do zs <- mapM int_of_key els;
      do ce <- compact_elements zs;
      do info <- (do i <- vfield "reference_info" g; vlist i);
      do lines <- mapM (fun ri =>
          do desc <- (do d <- vfield "reference_description" ri; vstr d);
          do data <- (do d <- vfield "reference_data" ri; vlist d);
          do keys <- mapM (fun pair => match pair with VList [VStr k; _] => ok k | _ => fail EType end) data;
          ok (c +++ "     " +++ desc +++ nl +++
              match keys with
              | [] => c +++ "         (...no reference...)" +++ nl +++ c +++ nl
              | _ => c +++ "         " +++ sjoin " " keys +++ nl +++ c +++ nl
              end)) info;
      ok (c +++ " " +++ (match ce with Some s => s | None => "None" end) +++ nl +++ String.concat "" lines)) sorted_groups;
  let unique := fold_left (fun m kr => insert_kv_last kr m) (concat (map snd sorted_groups)) [] in
  do uniq_txt <- mapM (fun kr => do s <- single f txt (fst kr) (snd kr); ok (s +++ nl +++ nl)) (sort_items unique);
  ok (cline +++ indent (c +++ " ") lib_desc +++ cline +++ String.concat "" libs +++ cline +++
      c +++ " References for the basis set" +++ nl +++ cline +++ String.concat "" table +++ nl +++ nl +++ String.concat "" uniq_txt).

(* ---------- notes.process_notes ---------- *)
Definition process_notes (notes : string) (ref_keys : list string) (txt : list (string * string)) : res string :=
  let found := sorted_set (filter (fun k => infix k notes) ref_keys) in
  match found with
  | [] => ok notes
  | _ =>
    do texts <- mapM (fun k => match assoc k txt with Some s => ok (s +++ nl +++ nl) | None => fail EKey end) found;
    ok (notes +++ nl +++ nl +++
        "-------------------------------------------------" +++ nl +++
        " REFERENCES MENTIONED ABOVE" +++ nl +++
        " (not necessarily references for the basis sets)" +++ nl +++
        "-------------------------------------------------" +++ nl +++ String.concat "" texts)
  end.
