(* The command line as a routing table: which library parameter each command-line argument reaches. *)
From BSE Require Import Model.Val Model.Memo Gen.GenCli.

Definition arg_opts (a : cli_arg) : list string := fst (fst (fst (fst a))).
Definition arg_dest (a : cli_arg) : string := snd (fst (fst (fst a))).
Definition arg_action (a : cli_arg) : string := snd (fst (fst a)).
Definition arg_type (a : cli_arg) : string := snd (fst a).
Definition arg_default (a : cli_arg) : val := snd a.

Definition find_arg (opt : string) (l : list cli_arg) : option cli_arg := find (fun a => mem_str opt (arg_opts a)) l.

(* the command-line argument `opt` of subcommand `sub` (or a global option): its dest *)
Definition dest_of (sub opt : string) : option string :=
  match assoc sub cli_subcommands with
  | None => None
  | Some args => match find_arg opt args with
                 | Some a => Some (arg_dest a)
                 | None => match find_arg opt cli_global_args with Some a => Some (arg_dest a) | None => None end
                 end
  end.

(* every (callee, parameter, negated) the dest is handed to by the handler of `sub` *)
Definition routes_of_dest (sub dest : string) : list (string * string * bool) :=
  match assoc sub cli_handler_map with
  | None => []
  | Some h => match assoc h cli_wiring with
              | None => []
              | Some calls =>
                flat_map (fun c => flat_map (fun b => if String.eqb (snd (fst b)) dest then [(fst c, fst (fst b), snd b)] else [])
                                            (snd c)) calls
              end
  end.
Definition routes (sub opt : string) : list (string * string * bool) :=
  match dest_of sub opt with Some d => routes_of_dest sub d | None => [] end.

Definition route_eqb (a b : string * string * bool) : bool :=
  String.eqb (fst (fst a)) (fst (fst b)) && String.eqb (snd (fst a)) (snd (fst b)) && Bool.eqb (snd a) (snd b).
