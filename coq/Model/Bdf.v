(* Model of the BDF writer (there is no reader for this format):
     writers/bdf.py      write_bdf
     printing.py         write_matrix (convert_exp=False for the shells, True for the potentials)   (Model/Matrix.v)
     misc.py             max_am
     lut.py              element_sym_from_Z(z, True), amint_to_char (hij=False for the shells, hij=True for the potentials)
   The model is the text write_bdf returns (without the header write_formatted_basis_str may prepend) for the dictionary
   AFTER the writer's own normalisation calls, which are, in this order,
       basis = manip.make_general(basis, False, True)    (uncontract_spdf(basis, 0) first; then ONE shell per angular
                                                          momentum with all the primitives and all the contractions,
                                                          the missing coefficients filled with '0.00000000')
       basis = sort.sort_basis(basis, False)
   INPUT:
     els  = [(z, data['electron_shells'])] for the elements that have the key 'electron_shells', in dictionary order,
     ecps = [(z, (data['ecp_electrons'], data['ecp_potentials']))] for the elements that have the key 'ecp_potentials', in
            dictionary order
   (the two views of ONE dictionary basis['elements']).  The writer goes through the union of the two key lists in the
   order of the atomic numbers.  `epot`, ecp_cols, ecp_order, ecp_max_am, leftpad_check: Model/NwchemEcp.v.
   Text is a string of bytes.  Definitions only; statements in Proofs/BdfDefs.v, proofs in Proofs/BdfSpec.v. *)
From BSE Require Import Model.Val Model.Text Model.Basis Model.Manip Model.Matrix Model.Lut Model.Elements Model.Nwchem
                        Model.NwchemEcp.

(* all_elements = list(set(electron_elements + ecp_elements)); all_elements.sort(key=int): every key once, by increasing
   atomic number (the keys are the decimal strings of the atomic numbers, the model keeps the numbers) *)
Fixpoint bdf_insert (z : Z) (l : list Z) : list Z :=
  match l with
  | [] => [z]
  | y :: t => if (z <? y)%Z then z :: l else if (z =? y)%Z then l else y :: bdf_insert z t
  end.
Definition bdf_all_elements (els : list (Z * list sshell)) (ecps : list (Z * (Z * list epot))) : list Z :=
  fold_right bdf_insert [] (map fst els ++ map fst ecps).

(* '{:>n}'.format(s): right aligned in a field of n, never truncated *)
Definition bdf_rjust (n : nat) (s : string) : string := sp (n - String.length s) +++ s.

(* misc.max_am(shells): max([max(x['angular_momentum']) for x in shells]); max() of an empty list is a ValueError *)
Definition bdf_max_am (shs : list sshell) : res Z :=
  do all_am <- mapM (fun s => match am s with [] => fail EValue | a => ok (zmax a) end) shs;
  match all_am with [] => fail EValue | _ => ok (zmax all_am) end.

(* point_places = [7 + 20 * (i - 1) for i in range(1, ngen + 1)] *)
Definition bdf_point_places (ngen : nat) : list Z := map (fun i => (7 + 20 * (i - 1))%Z) (zrange 1 ngen).

(* one iteration of `for shell in data['electron_shells']`: the line `AM    nprim    ngen`, the exponents as a matrix of
   one column, the coefficients as a matrix of ngen columns *)
Definition bdf_write_shell (s : sshell) : res string :=
  let nprim := List.length (exps s) in
  let ngen := List.length (coefs s) in
  do amchar <- amint_to_char (am s) false false;
  do _ <- leftpad_check [map CStr (exps s)] [14%Z];
  do m1 <- write_matrix [map CStr (exps s)] [14%Z] false;
  do _ <- leftpad_check (map (map CStr) (coefs s)) (bdf_point_places ngen);
  do m2 <- write_matrix (map (map CStr) (coefs s)) (bdf_point_places ngen) false;
  ok (upper amchar +++ "    " +++ bdf_rjust 3 (nat_str nprim) +++ "    " +++ nat_str ngen +++ nl1 +++ m1 +++ m2).

Definition bdf_ecp_point_places : list Z := [4; 12; 34]%Z.

(* one iteration of `for pot in ecp_list` *)
Definition bdf_write_pot (p : epot) : res string :=
  let nprim := List.length (p_rexp p) in
  do amchar <- amint_to_char (p_am p) true false;
  do _ <- leftpad_check (ecp_cols p) bdf_ecp_point_places;
  do m <- write_matrix (ecp_cols p) bdf_ecp_point_places true;
  ok (upper amchar +++ " potential  " +++ nat_str nprim +++ nl1 +++ m).

(* the body of `if ecp_elements and z in ecp_elements:`; e = (data['ecp_electrons'], data['ecp_potentials']) *)
Definition bdf_write_ecp (symbol : string) (e : Z * list epot) : res string :=
  let '(nelec, pots) := e in
  do mx <- ecp_max_am pots;
  do ecp_list <- ecp_order pots;
  do body <- mapM bdf_write_pot ecp_list;
  ok ("ECP" +++ nl1 +++ symbol +++ "     " +++ Z_to_string nelec +++ "     " +++ Z_to_string mx +++ nl1 +++
      String.concat "" body).

(* the body of `if electron_elements and z in electron_elements:`; '{:>7}'.format(z) is applied to the key, a string *)
Definition bdf_write_shells (symbol : string) (z : Z) (shs : list sshell) : res string :=
  do mx <- bdf_max_am shs;
  do body <- mapM bdf_write_shell shs;
  ok (symbol +++ bdf_rjust 7 (Z_to_string z) +++ "   " +++ Z_to_string mx +++ nl1 +++ String.concat "" body).

(* one iteration of `for z in all_elements` *)
Definition bdf_write_element (els : list (Z * list sshell)) (ecps : list (Z * (Z * list epot))) (z : Z) : res string :=
  do symbol <- element_sym_from_Z z true;
  do a <- match assocZ z els with Some shs => bdf_write_shells symbol z shs | None => ok "" end;
  do b <- match assocZ z ecps with Some e => bdf_write_ecp symbol e | None => ok "" end;
  ok ("****" +++ nl1 +++ a +++ b).

(* write_bdf after its two normalisation calls *)
Definition bdf_write_all (els : list (Z * list sshell)) (ecps : list (Z * (Z * list epot))) : res string :=
  do parts <- mapM (bdf_write_element els ecps) (bdf_all_elements els ecps);
  ok (String.concat "" parts +++ "****" +++ nl1).
