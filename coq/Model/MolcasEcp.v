(* Model of the ECP part of the two Molcas writers and of the Molcas reader, and of the whole file (an element may have electron
   shells, an ECP, or both; both are written into the same element block):
     writers/molcas.py          write_molcas          (inline form)
     writers/molcas_library.py  write_molcas_library  (basis_library form)
     readers/molcas.py          read_molcas, _parse_electron_lines, _parse_ecp_lines
     readers/helpers.py         remove_block (Spectral ... End of Spectral), parse_line_regex (ecp_info_re, ecp_pot_begin_re),
                                partition_lines(min_size=2), potential_am_list, parse_ecp_table(split=r'\s*,\s*')
     manip.py                   create_element_data
   The electron part of an element is Model/Molcas.v; conventions (bytes, ASCII classes, int / float) as there.  The potentials
   are records `epot` of Model/NwchemEcp.v, whose ecp_max_am / ecp_order (sorted by momentum, the highest moved to the front)
   are the very statements of the Molcas writers.
   Definitions only; statements in Proofs/MolcasEcpDefs.v, proofs in Proofs/MolcasEcpSpec.v. *)
From BSE Require Import Model.Val Model.Text Model.Num Model.Basis Model.Manip Model.Matrix Model.Lut Model.Elements
                        Model.Nwchem Model.NwchemEcp Model.G94 Model.Molcas.

(* one dictionary entry of basis['elements']: 'electron_shells' (or no such key), 'ecp_electrons' and 'ecp_potentials' (or no
   such keys; the writers test `'ecp_potentials' in data` and then read data['ecp_electrons']) *)
Definition mel : Type := (option (list sshell) * option (Z * list epot))%type.

(* ------------------------------------------------------------------ *)
(* writers: the ECP part of an element                                 *)
(* ------------------------------------------------------------------ *)
(* for p in range(len(rexponents)): s += '{},{},{};\n'.format(rexponents[p], gexponents[p], coefficients[0][p])
   (IndexError when a column is shorter than the r exponents; coefficients[0] is only evaluated inside the loop) *)
Fixpoint mc_pot_rows (r : list Z) (g c : list string) : res (list string) :=
  match r with
  | [] => ok []
  | x :: r' =>
    match g, c with
    | gx :: g', cx :: c' =>
      do t <- mc_pot_rows r' g' c';
      ok ((Z_to_string x +++ "," +++ gx +++ "," +++ cx +++ ";" +++ nl1) :: t)
    | _, _ => fail EIndex
    end
  end.

(* one iteration of `for pot in ecp_list`:
     amchar = lut.amint_to_char(am);  s += '{};'.format(len(rexponents))
     s += ' !  ul potential\n' if am[0] == max_ecp_am else ' !  {}-ul potential\n'.format(amchar)
   only coefficients[0] is printed; ecp_type is not printed *)
Definition mc_write_pot (max_ecp_am : Z) (p : epot) : res string :=
  do amchar <- amint_to_char (p_am p) false false;
  do a0 <- am_first p;
  do rows <- mc_pot_rows (p_rexp p) (p_gexp p) (hd [] (p_coef p));
  ok (nat_str (List.length (p_rexp p)) +++ ";" +++
      (if Z.eqb a0 max_ecp_am then " !  ul potential" else " !  " +++ amchar +++ "-ul potential") +++ nl1 +++
      String.concat "" rows).

(* the `if has_ecp:` part up to the Spectral lines:
     max_ecp_am = max([x['angular_momentum'][0] for x in data['ecp_potentials']])
     ecp_list = sorted(data['ecp_potentials'], key=lambda x: x['angular_momentum']);  ecp_list.insert(0, ecp_list.pop())
     s += 'PP, {}, {}, {} ;\n'.format(el_sym, data['ecp_electrons'], max_ecp_am) *)
Definition mc_write_ecp (sym : string) (e : Z * list epot) : res string :=
  let '(nelec, pots) := e in
  do mx <- ecp_max_am pots;
  do order <- ecp_order pots;
  do parts <- mapM (mc_write_pot mx) order;
  ok ("PP, " +++ sym +++ ", " +++ Z_to_string nelec +++ ", " +++ Z_to_string mx +++ " ;" +++ nl1 +++ String.concat "" parts).

Definition spectral_inline : string := "Spectral" +++ nl1 +++ "End of Spectral" +++ nl1 +++ "*" +++ nl1.
Definition spectral_library : string :=
  "Spectral Representation Operator" +++ nl1 +++ "End of Spectral Representation Operator" +++ nl1.

(* nelectrons = int(z); if has_ecp: nelectrons -= data['ecp_electrons'] *)
Definition mc_nelectrons (z : Z) (oecp : option (Z * list epot)) : Z :=
  match oecp with Some (n, _) => (z - n)%Z | None => z end.

(* ------------------------------------------------------------------ *)
(* writer 1: write_molcas (inline), whole file                         *)
(* ------------------------------------------------------------------ *)
Definition mcas_write_element_all (sord : list string -> list string) (ze : Z * mel) : res string :=
  let '(z, (oshs, oecp)) := ze in
  do name <- element_name_from_Z z false;
  do sym <- element_sym_from_Z z true;
  do cs <- contraction_string (option_map (map nw_cshell) oshs) false;
  do epart <- match oshs with
              | None => ok ""
              | Some shs =>
                do mx <- mc_max_am shs;
                do body <- mapM (mc_write_shell true) shs;
                ok (rjust 7 (Z_to_string (mc_nelectrons z oecp)) +++ ".00   " +++ Z_to_string mx +++ nl1 +++ String.concat "" body)
              end;
  do ppart <- match oecp with
              | None => ok ""
              | Some e => do t <- mc_write_ecp sym e; ok (t +++ spectral_inline)
              end;
  do cart <- match oshs with None => ok [] | Some shs => mc_cartesian sord shs end;
  ok ("Basis set" +++ nl1 +++
      "* " +++ upper name +++ "  " +++ cs +++ nl1 +++
      " " +++ sym +++ (match oecp with Some _ => ".ECP" | None => "" end) +++ "    / inline" +++ nl1 +++
      epart +++ ppart +++
      (match cart with [] => "" | _ => "cartesian " +++ sjoin " " cart +++ nl1 end) +++
      "End of basis set" +++ nl1 +++ nl1).

(* INPUT of both whole-file writers: [(z, (electron shells or None, (ecp_electrons, ecp_potentials) or None))] in dictionary
   order, taken from the basis after manip.make_general(basis, False, True) and sort.sort_basis(basis, False) (see
   Model/Molcas.v; sort_basis also orders the potentials: highest momentum first, then increasing) *)
Definition mcas_write_all (sord : list string -> list string) (els : list (Z * mel)) : res string :=
  do parts <- mapM (mcas_write_element_all sord) els; ok (String.concat "" parts).

(* ------------------------------------------------------------------ *)
(* writer 2: write_molcas_library, whole file                          *)
(* ------------------------------------------------------------------ *)
Definition mcasl_write_element_all (sord : list string -> list string) (bs_name : string) (meta : Z -> string * string)
                                   (ze : Z * mel) : res string :=
  let '(z, (oshs, oecp)) := ze in
  do name <- element_name_from_Z z false;
  do sym <- element_sym_from_Z z true;
  do cc <- contraction_string (option_map (map nw_cshell) oshs) true;
  let ecp := match oecp with Some _ => "ECP." +++ Z_to_string (mc_nelectrons z oecp) +++ "el." | None => "" end in
  do cs <- contraction_string (option_map (map nw_cshell) oshs) false;
  do epart <- match oshs with
              | None => ok ""
              | Some shs =>
                do cart <- mc_cartesian sord shs;
                do mx <- mc_max_am shs;
                do body <- mapM (mc_write_shell false) shs;
                ok ((match cart with
                     | [] => ""
                     | _ => "Options" +++ nl1 +++ "Cartesian " +++ sjoin " " cart +++ nl1 +++ "EndOptions" +++ nl1
                     end) +++
                    rjust 7 (Z_to_string (mc_nelectrons z oecp)) +++ ".0   " +++ Z_to_string mx +++ nl1 +++ String.concat "" body)
              end;
  do ppart <- match oecp with
              | None => ok ""
              | Some e => do t <- mc_write_ecp sym e; ok (t +++ spectral_library)
              end;
  ok ("/" +++ sym +++ "." +++ bs_name +++ "." +++ fst (meta z) +++ "." +++ cc +++ "." +++ ecp +++ nl1 +++
      snd (meta z) +++ nl1 +++
      upper name +++ " " +++ cs +++ nl1 +++
      epart +++ ppart +++ nl1).

Definition mcasl_write_all (sord : list string -> list string) (bs_name : string) (meta : Z -> string * string)
                           (els : list (Z * mel)) : res string :=
  do parts <- mapM (mcasl_write_element_all sord bs_name meta) els; ok (String.concat "" parts).

(* ------------------------------------------------------------------ *)
(* reader: regular expressions of the ECP part                         *)
(* ------------------------------------------------------------------ *)
(* `\s*,\s*` at the head of r: the rest *)
Definition eat_comma (r : string) : option string :=
  match lstrip_ws r with String "," t => Some (lstrip_ws t) | _ => None end.

(* ecp_info_re = ^[Pp]{2}\s*,\s*([a-zA-Z]+)\s*,\s*(\d+)\s*,\s*(\d+)\s*;$ ; every group is forced to be maximal *)
Definition is_P (c : ascii) : bool := orb (Ascii.eqb c "P") (Ascii.eqb c "p").
Definition match_ecp_info (l : string) : option (string * string * string) :=
  match l with
  | String c1 (String c2 r) =>
    if andb (is_P c1) (is_P c2) then
      match eat_comma r with
      | None => None
      | Some r1 =>
        let '(sym, r2) := span_alpha r1 in
        match sym, eat_comma r2 with
        | String _ _, Some r3 =>
          let '(n1, r4) := span_digit r3 in
          match n1, eat_comma r4 with
          | String _ _, Some r5 =>
            let '(n2, r6) := span_digit r5 in
            match n2 with
            | String _ _ => if String.eqb (lstrip_ws r6) ";" then Some (sym, n1, n2) else None
            | EmptyString => None
            end
          | _, _ => None
          end
        | _, _ => None
        end
      end
    else None
  | _ => None
  end.

(* ecp_pot_begin_re = ^(\d+)\s*;.*$ ; gives the digits *)
Definition match_pot_begin (l : string) : option string :=
  let '(n, r) := span_digit l in
  match n, lstrip_ws r with
  | String _ _, String ";" _ => Some n
  | _, _ => None
  end.

(* r'^Spectral.*' and r'^End\s*Of\s*Spectral.*' with IGNORECASE *)
Definition is_spectral (l : string) : bool := str_prefix "spectral" (lower l).
Definition is_end_spectral (l : string) : bool :=
  let s := lower l in
  if str_prefix "end" s then
    let s1 := lstrip_ws (drop_chars 3 s) in
    if str_prefix "of" s1 then str_prefix "spectral" (lstrip_ws (drop_chars 2 s1)) else false
  else false.

(* x.rstrip(';') *)
Definition rstrip_semi (s : string) : string := srev (lstrip ";" (srev s)).

(* re.split(r'\s*,\s*', s) for a stripped s: the pieces between the commas, without the white space next to a comma *)
Definition comma_split (s : string) : list string := map strip_ws (split_on "," s).

(* helpers.parse_ecp_table(lines, split=r'\s*,\s*'): Model.Matrix.parse_ecp_table with the other separator *)
Definition mc_parse_ecp_table (lines : list string) : res (list Z * list string * list (list string)) :=
  do rows <- mapM (fun l => match comma_split (strip_ws (replace_d l)) with
                            | [a; b; c] => ok (a, b, c)
                            | _ => fail ERuntime
                            end) lines;
  let r := map (fun x => fst (fst x)) rows in
  let g := map (fun x => snd (fst x)) rows in
  let c := map snd rows in
  if negb (forallb is_integer r) then fail ERuntime else
  if negb (forallb is_floating g) then fail ERuntime else
  if negb (forallb is_floating c) then fail ERuntime else
  ok (map (fun s => match skip_sign s, s with
                    | d, String "-" _ => (- digits_val d 0)%Z
                    | d, _ => digits_val d 0
                    end) r, g, [c]).

(* ------------------------------------------------------------------ *)
(* reader: the state                                                   *)
(* ------------------------------------------------------------------ *)
(* bs_data[z]: 'electron_shells', 'ecp_electrons', 'ecp_potentials' - each key may be absent *)
Definition mc_eld : Type := (option (list sshell) * option Z * option (list epot))%type.
Definition mc_data : Type := list (Z * mc_eld).
Definition eld_empty : mc_eld := (None, None, None).

Fixpoint get_el (z : Z) (d : mc_data) : option mc_eld :=
  match d with [] => None | (z', e) :: t => if Z.eqb z z' then Some e else get_el z t end.
(* bs_data[z] = e : a new key goes to the end *)
Fixpoint set_el (z : Z) (e : mc_eld) (d : mc_data) : mc_data :=
  match d with
  | [] => [(z, e)]
  | (z', e') :: t => if Z.eqb z z' then (z', e) :: t else (z', e') :: set_el z e t
  end.
Definition cur_el (z : Z) (d : mc_data) : mc_eld := match get_el z d with Some e => e | None => eld_empty end.

(* ------------------------------------------------------------------ *)
(* reader: _parse_electron_lines with the ECP bookkeeping              *)
(* ------------------------------------------------------------------ *)
Definition mc_electron_all (z : Z) (block : list string) (d : mc_data) : res mc_data :=
  let '(oshs, onel, opots) := cur_el z d in
  (* create_element_data(bs_data, element_Z, 'electron_shells') *)
  match oshs with
  | Some _ => fail ERuntime
  | None =>
    let check := fun nuc : Z =>
      match onel with
      | Some n => if Z.eqb n (z - nuc) then ok tt else fail ERuntime
      | None => ok tt
      end in
    do cs <- mc_parse_electron_block check block;
    let '(nuc, shells) := cs in
    (* elif ecp_electrons > 0: element_data['ecp_electrons'] = ecp_electrons *)
    let onel' := match onel with
                 | Some n => Some n
                 | None => if (0 <? z - nuc)%Z then Some (z - nuc)%Z else None
                 end in
    ok (set_el z (Some shells, onel', opots) d)
  end.

(* ------------------------------------------------------------------ *)
(* reader: _parse_ecp_lines                                            *)
(* ------------------------------------------------------------------ *)
(* the body of `for pot_lines in pot_blocks` *)
Definition mc_parse_pot (pot_am : nat) (pot_lines : list string) : res epot :=
  match pot_lines with
  | [] => fail EIndex
  | first :: rest =>
    match match_pot_begin first with
    | None => fail ERuntime
    | Some n =>
      if negb (Z.eqb (digits_val n 0) (Z.of_nat (List.length rest))) then fail ERuntime else
      do t <- mc_parse_ecp_table (map rstrip_semi rest);
      let '(r, g, c) := t in
      ok (mkEpot "scalar_ecp" [Z.of_nat pot_am] r g c)
    end
  end.

Fixpoint mc_parse_pots (ams : list nat) (blocks : list (list string)) : res (list epot) :=
  match blocks with
  | [] => ok []
  | b :: t =>
    match ams with
    | [] => fail EIndex                       (* all_pot_am.pop(0) on an empty list; excluded by the count test *)
    | a :: ams' => do p <- mc_parse_pot a b; do r <- mc_parse_pots ams' t; ok (p :: r)
    end
  end.

Definition mc_ecp_all (z : Z) (block : list string) (d : mc_data) : res mc_data :=
  do rl <- remove_block is_spectral is_end_spectral block;
  match snd rl with
  | [] => fail EIndex
  | first :: rest =>
    match match_ecp_info first with
    | None => fail ERuntime
    | Some (sym, ne, mx) =>
      do z' <- element_Z_from_sym sym;
      if negb (Z.eqb z' z) then fail ERuntime else
      let '(oshs, onel, opots) := cur_el z d in
      (* create_element_data(bs_data, element_Z, 'ecp_potentials') *)
      match opots with
      | Some _ => fail ERuntime
      | None =>
        let nelec := digits_val ne 0 in
        if match onel with Some n => negb (Z.eqb n nelec) | None => false end then fail ERuntime else
        do pot_blocks <- partition_lines rest (fun x => ok (match match_pot_begin x with Some _ => true | None => false end))
                                         true 2 0 0;
        let max_am := Z.to_nat (digits_val mx 0) in
        if negb (Nat.eqb (List.length pot_blocks) (S max_am)) then fail ERuntime else
        do pots <- mc_parse_pots (potential_am_list max_am) pot_blocks;
        ok (set_el z (oshs, Some nelec, Some pots) d)
      end
    end
  end.

(* ------------------------------------------------------------------ *)
(* reader: read_molcas, whole file                                     *)
(* ------------------------------------------------------------------ *)
Fixpoint mc_element_split_all (element_Z : Z) (blocks : list (list string)) (d : mc_data) : res mc_data :=
  match blocks with
  | [] => ok d
  | b :: t =>
    match b with
    | [] => fail EIndex
    | first :: _ =>
      if str_prefix "pp" (lower first) then do d' <- mc_ecp_all element_Z b d; mc_element_split_all element_Z t d' else
      if str_prefix "m1" (lower first) then fail ERuntime else
      do d' <- mc_electron_all element_Z b d; mc_element_split_all element_Z t d'
    end
  end.

Definition mc_parse_element_all (element_lines : list string) (st : mc_data * list string) : res (mc_data * list string) :=
  let '(d, names) := st in
  match element_lines with
  | [] => fail EIndex
  | first :: _ =>
    match match_element_head first with
    | None => fail ERuntime
    | Some (element_sym, basis_name) =>
      do element_Z <- element_Z_from_sym element_sym;
      if py_int_like basis_name then fail EOther else
      let names := add_name (lower basis_name) names in
      do element_split <- partition_lines (skipn 3 element_lines) (fun x => ok (is_pp_or_m1 x)) true 1 1 2;
      do d' <- mc_element_split_all element_Z element_split d;
      ok (d', names)
    end
  end.

Fixpoint mc_elements_all (blocks : list (list string)) (st : mc_data * list string) : res (mc_data * list string) :=
  match blocks with
  | [] => ok st
  | b :: t => do st' <- mc_parse_element_all b st; mc_elements_all t st'
  end.

Definition mcas_read_all (lines : list string) : res (mc_data * string) :=
  let basis_lines := prune_lines lines "*#$" true true in
  do element_blocks <- partition_lines basis_lines (fun x => ok (str_prefix "/" x)) true 4 0 0;
  do st <- mc_elements_all element_blocks ([], []);
  let '(d, names) := st in
  match names with
  | [] => fail EOther
  | [n] => ok (d, n)
  | _ => fail ERuntime
  end.

Definition mcas_roundtrip_all (sord : list string -> list string) (els : list (Z * mel)) : res (mc_data * string) :=
  do t <- mcas_write_all sord els; mcas_read_all (splitlines t).
Definition mcasl_roundtrip_all (sord : list string -> list string) (bs_name : string) (meta : Z -> string * string)
                               (els : list (Z * mel)) : res (mc_data * string) :=
  do t <- mcasl_write_all sord bs_name meta els; mcas_read_all (splitlines t).
