(* Model of the header handling of writers/write.py:write_formatted_basis_str over the translated writer table. *)
From BSE Require Import Model.Val Model.Text Model.Memo Gen.GenWriters.

Definition header_comment (c h : string) : string := c +++ sjoin c (splitlines_keepends h).

Definition harm_type (function_types : list string) : string :=
  if mem_str "gto_cartesian" function_types then "cartesian" else "spherical".

Definition nl2 : string := String (byte 10) (String (byte 10) EmptyString).

(* gaussian94lib tolerates no blank line after the header, but the data starts on a line of its own:
   `if not header_str.endswith('\n'): header_str += '\n'` *)
Definition nl1h : string := String (byte 10) EmptyString.
Fixpoint ends_with_nl (s : string) : bool :=
  match s with
  | EmptyString => false
  | String c EmptyString => beq c 10
  | String _ t => ends_with_nl t
  end.
Definition g94lib_sep (hs : string) : string := if ends_with_nl hs then "" else nl1h.

(* body = what the writer function returned *)
Definition assemble (fmt : string) (w : writer) (function_types : list string) (body : string) (header : option string) : string :=
  let r1 := match header, w_comment w with
            | Some h, Some c => if String.eqb fmt "gaussian94lib" then header_comment c h +++ g94lib_sep (header_comment c h) +++ body
                                else header_comment c h +++ nl2 +++ body
            | _, _ => body
            end in
  if String.eqb fmt "psi4" then harm_type function_types +++ nl2 +++ r1 else r1.

(* the function-type gate *)
Definition gate (w : writer) (function_types : list string) : bool :=
  match w_valid w with
  | None => true
  | Some v => forallb (fun t => mem_str t v) function_types
  end.

Definition write_formatted (fmt : string) (function_types : list string) (body : string) (header : option string) : res string :=
  let f := lower fmt in
  match assoc f writer_map with
  | None => fail ERuntime
  | Some w => if gate w function_types then ok (assemble f w function_types body header) else fail ERuntime
  end.
