(* Model of manip.geometric_augmentation and manip.truhlar_calendarize.  New exponents are exact rationals
   x * (x/y)^i (the implementation computes them in floating point and prints '{:.6e}': compared within one unit of the
   seventh digit by the harness). *)
From BSE Require Import Model.Val Model.Num Model.Basis Model.Manip Model.ManipS Model.Sort Gen.GenConsts.

(* sorted((float(x), idx)): increasing value, ties by index *)
Fixpoint insert_asc (p : (Z * Z) * nat) (l : list ((Z * Z) * nat)) : list ((Z * Z) * nat) :=
  match l with
  | [] => [p]
  | q :: t => match dec_compare (fst p) (fst q) with
              | Lt => p :: l
              | Eq => if Nat.ltb (snd p) (snd q) then p :: l else q :: insert_asc p t
              | Gt => q :: insert_asc p t
              end
  end.
Fixpoint enum_vals (i : nat) (xs : list string) : res (list ((Z * Z) * nat)) :=
  match xs with
  | [] => ok []
  | x :: t => match parse_num x with
              | Some v => do r <- enum_vals (S i) t; ok ((v, i) :: r)
              | None => fail EValue
              end
  end.
Definition sorted_exponents (xs : list string) : res (list ((Z * Z) * nat)) :=
  do e <- enum_vals 0 xs; ok (fold_left (fun acc p => insert_asc p acc) e []).

(* _free_primitives: rows hit by a column with exactly one non-zero entry *)
Definition free_primitives (cs : list (list string)) : list nat :=
  let singles := filter (is_single_column is0_s) cs in
  match singles with
  | [] => []
  | c0 :: _ =>
    filter (fun k => existsb (fun c => match nth_error c k with Some x => negb (is0_s x) | None => false end) singles)
           (seq 0 (List.length c0))
  end.

(* exact value m * 10^e as a fraction num/den *)
Definition frac_of (v : Z * Z) : Z * Z :=
  if (snd v >=? 0)%Z then (fst v * pow10 (snd v), 1)%Z else (fst v, pow10 (- snd v))%Z.
(* x * (x/y)^i *)
Definition aug_value (x y : Z * Z) (i : nat) : Z * Z :=
  let '(xn, xd) := frac_of x in let '(yn, yd) := frac_of y in
  (* x/y = (xn*yd)/(xd*yn) *)
  (xn * Z.pow (xn * yd) (Z.of_nat i), xd * Z.pow (xd * yn) (Z.of_nat i))%Z.

(* a new shell: momentum, function type, region of the general-contracted shell, and the exact exponent *)
Record newshell := { ns_ftype : string; ns_region : string; ns_am : list Z; ns_exp : Z * Z }.

Definition augment_shell (nadd : nat) (steep : bool) (s : sshell) : res (list newshell) :=
  do se <- sorted_exponents (exps s);
  if Nat.ltb (List.length se) 2 then ok [] else
  let pick := if steep then rev se else se in
  match pick with
  | (rv, ri) :: (nv, ni) :: _ =>
    match dec_compare rv nv with
    | Eq => fail ERuntime
    | _ =>
      let fp := free_primitives (coefs s) in
      if andb (existsb (Nat.eqb ri) fp) (existsb (Nat.eqb ni) fp)
      then ok (map (fun i => {| ns_ftype := ftype s; ns_region := region s; ns_am := am s; ns_exp := aug_value rv nv i |}) (seq 1 nadd))
      else ok []
    end
  | _ => ok []
  end.

(* per element: the new shells in the order of the general-contracted shells *)
Definition augment_shells (nadd : nat) (steep : bool) (shs : list sshell) : res (list newshell) :=
  (* make_general(basis): uncontract_spdf(0), one general shell per momentum, prune *)
  do gs <- (do u <- unc_spdf_shells 0 shs []; do g <- make_general_shells lit_make_general_zero u; prune_shells is0_s same_s String.eqb g);
  do l <- mapM (augment_shell nadd steep) gs; ok (concat l).

(* ---- truhlar_calendarize ---- *)
Fixpoint remove_nth {A} (n : nat) (l : list A) : list A :=
  match l, n with
  | [], _ => []
  | _ :: t, O => t
  | x :: t, S k => x :: remove_nth k t
  end.
(* remove_primitive: drop the primitive, then drop contractions that became all zero *)
Definition remove_primitive (s : sshell) (idx : nat) : sshell :=
  mkShell (ftype s) (region s) (am s) (remove_nth idx (exps s))
          (filter (fun g => existsb (fun c => negb (is0_s c)) g) (map (remove_nth idx) (coefs s))).

Definition max_am_shells (shs : list sshell) : res Z :=
  match shs with
  | [] => fail EValue
  | s0 :: _ => match am s0 with
               | [] => fail EValue
               | _ => ok (fold_left (fun m s => Z.max m (zmax (am s))) shs (zmax (am s0)))
               end
  end.

(* nremove = None means 'all' *)
Definition element_remove_diffuse (shs : list sshell) (nremove : option Z) : res (list sshell) :=
  do mx <- max_am_shells shs;
  let n := match nremove with None => (mx + 1)%Z | Some k => k end in
  mapM (fun s =>
          match am s with
          | [l] => if andb (l <=? mx)%Z (andb (mx - n <? l)%Z (0 <=? l)%Z)
                   then do se <- sorted_exponents (exps s);
                        match se with
                        | (_, i) :: _ => ok (remove_primitive s i)
                        | [] => fail EIndex
                        end
                   else ok s
          | _ => fail ERuntime                      (* fused shell *)
          end) shs.

Fixpoint index_of_month (m : string) (l : list string) (i : nat) : option nat :=
  match l with [] => None | x :: t => if String.eqb m x then Some i else index_of_month m t (S i) end.
Definition month_offset (month : string) : res nat :=
  match index_of_month (lower month) truhlar_months 0 with Some i => ok i | None => fail ERuntime end.

(* misc.max_am over every element (KeyError for an element without electron shells) *)
Definition basis_max_am (b : sbasis) : res Z :=
  do ms <- mapM (fun kv => match eshells (snd kv) with
                           | Some shs => max_am_shells shs
                           | None => fail EKey
                           end) (belems b);
  match ms with [] => fail EValue | m :: t => ok (fold_left Z.max t m) end.

Definition truhlar_calendarize (month : string) (b : sbasis) : res sbasis :=
  do off <- month_offset month;
  do g <- s_make_general false b;
  do mx <- basis_max_am g;
  if (Z.of_nat off >? mx)%Z then fail ERuntime else
  do els <- mapM (fun kv =>
      let light := orb (String.eqb (fst kv) "1") (String.eqb (fst kv) "2") in
      match eshells (snd kv) with
      | None => fail EKey
      | Some shs =>
        if light then do r <- element_remove_diffuse shs None; ok (fst kv, mkElement (Some r) (erest (snd kv)))
        else match off with
             | O => ok kv
             | _ => do r <- element_remove_diffuse shs (Some (Z.of_nat off)); ok (fst kv, mkElement (Some r) (erest (snd kv)))
             end
      end) (belems g);
  s_prune_basis (mkBasis els (brest g)).
