(* Model of misc.py: compact_elements / expand_elements / name transforms / contraction_string. *)
From BSE Require Import Model.Val Gen.GenLut Model.Lut.

(* ---------- sorted(set(l)) ---------- *)
Fixpoint insert_dedupe (x : Z) (l : list Z) : list Z :=
  match l with
  | [] => [x]
  | y :: t => if (x <? y)%Z then x :: l else if (x =? y)%Z then l else y :: insert_dedupe x t
  end.
Definition sort_dedupe (l : list Z) : list Z := fold_right insert_dedupe [] l.

(* ---------- the run-grouping while loop of compact_elements ----------
   runs l = list of (start, end) of maximal runs of consecutive values, scanning left to right. *)
Fixpoint runs_from (s e : Z) (l : list Z) : list (Z * Z) :=
  match l with
  | [] => [(s, e)]
  | x :: t => if (x =? e + 1)%Z then runs_from s x t else (s, e) :: runs_from x x t
  end.
Definition runs (l : list Z) : list (Z * Z) :=
  match l with [] => [] | x :: t => runs_from x x t end.

Definition render_run (r : Z * Z) : res string :=
  let '(a, b) := r in
  do sa <- element_sym_from_Z a true;
  if (a =? b)%Z then ok sa else
  do sb <- element_sym_from_Z b true;
  if (b =? a + 1)%Z then ok (sa +++ "," +++ sb) else ok (sa +++ "-" +++ sb).

(* None = Python's `return` without value for an empty argument *)
Definition compact_elements (l : list Z) : res (option string) :=
  match l with
  | [] => ok None
  | _ => do strs <- mapM render_run (runs (sort_dedupe l)); ok (Some (sjoin "," strs))
  end.

(* ---------- expand_elements on strings ---------- *)
(* re.sub(c+, c, s) *)
Fixpoint collapse (c : ascii) (s : string) : string :=
  match s with
  | EmptyString => EmptyString
  | String a t =>
    if Ascii.eqb a c then
      match t with
      | String b _ => if Ascii.eqb b c then collapse c t else String a (collapse c t)
      | EmptyString => String a EmptyString
      end
    else String a (collapse c t)
  end.
(* re.sub(\s+, '', s) *)
Fixpoint remove_ws (s : string) : string :=
  match s with
  | EmptyString => EmptyString
  | String a t => if is_space a then remove_ws t else String a (remove_ws t)
  end.
Fixpoint lstrip (c : ascii) (s : string) : string :=
  match s with
  | String a t => if Ascii.eqb a c then lstrip c t else s
  | EmptyString => EmptyString
  end.
Definition strip (c : ascii) (s : string) : string := srev (lstrip c (srev (lstrip c s))).

(* re.search(r'\w+-\w+-\w+', s): automaton over
   0 = no word, 1 = in first word, 2 = word then '-', 3 = in second word, 4 = second word then '-' *)
Fixpoint xyz_dfa (st : nat) (s : string) : bool :=
  match s with
  | EmptyString => false
  | String c t =>
    let w := is_word c in
    let d := Ascii.eqb c "-" in
    match st with
    | 0 => xyz_dfa (if w then 1 else 0) t
    | 1 => xyz_dfa (if w then 1 else if d then 2 else 0) t
    | 2 => xyz_dfa (if w then 3 else 0) t
    | 3 => xyz_dfa (if w then 3 else if d then 4 else 0) t
    | _ => if w then true else xyz_dfa 0 t
    end
  end.
Definition has_xyz (s : string) : bool := xyz_dfa 0 s.

Definition Z_from_str (s : string) : res Z :=
  if isdecimal s then ok (digits_val s 0) else element_Z_from_sym s.

Definition has_char (c : ascii) (s : string) : bool := sany (Ascii.eqb c) s.

Definition expand_token (tok : string) : res (list Z) :=
  if negb (has_char "-" tok) then do z <- Z_from_str tok; ok [z]
  else match split_on "-" tok with
       | [b; e] => do zb <- Z_from_str b; do ze <- Z_from_str e; ok (zrange_incl zb ze)
       | _ => fail EValue
       end.

Fixpoint expand_tokens (toks : list string) : res (list Z) :=
  match toks with
  | [] => ok []
  | t :: r => do a <- expand_token t; do b <- expand_tokens r; ok (a ++ b)
  end.

Definition expand_string (s : string) : res (list Z) :=
  let s1 := collapse "," s in
  let s2 := collapse "-" s1 in
  let s3 := remove_ws s2 in
  let s4 := strip "," s3 in
  match s4 with
  | EmptyString => ok []
  | _ =>
    if infix "-," s4 then fail ERuntime else
    if infix ",-" s4 then fail ERuntime else
    if orb (str_prefix "-" s4) (str_suffix "-" s4) then fail ERuntime else
    if has_xyz s4 then fail ERuntime else
    expand_tokens (split_on "," s4)
  end.

(* the argument as Python sees it: an int, a str, or a list of ints / strs *)
Inductive elsel := SelNone | SelInt (z : Z) | SelStr (s : string) | SelList (l : list (Z + string)).

Definition item_str (x : Z + string) : string := match x with inl z => Z_to_string z | inr s => s end.
Definition nonempty (s : string) : bool := match s with EmptyString => false | _ => true end.

Definition expand_elements (sel : elsel) : res (list Z) :=
  match sel with
  | SelNone => ok []
  | SelInt z => ok [z]
  | SelStr s => expand_string s
  | SelList l => expand_string (sjoin "," (filter nonempty (map item_str l)))
  end.

(* ---------- names ---------- *)
Definition transform_basis_name (n : string) : string :=
  replace "*" "_st_" (replace "/" "_sl_" (lower n)).
Definition basis_name_from_filename (f : string) : string :=
  replace "_st_" "*" (replace "_sl_" "/" (lower f)).

(* ---------- contraction_string ----------
   a shell is seen as (angular momenta, number of primitives, number of coefficient rows) *)
Definition cshell := (list Z * nat * nat)%type.

Fixpoint cmap_add (am : Z) (np nc : nat) (m : list (Z * (nat * nat))) : list (Z * (nat * nat)) :=
  match m with
  | [] => [(am, (np, nc))]
  | (a, (p, c)) :: t => if (a =? am)%Z then (a, (p + np, c + nc)) :: t else (a, (p, c)) :: cmap_add am np nc t
  end.
Definition cmap_shell (m : list (Z * (nat * nat))) (sh : cshell) : list (Z * (nat * nat)) :=
  let '(ams, np, ng) := sh in
  let fused := Nat.ltb 1 (List.length ams) in
  fold_left (fun m am => cmap_add am np (if fused then 1 else ng) m) ams m.
Definition cmap (shells : list cshell) : list (Z * (nat * nat)) := fold_left cmap_shell shells [].

Fixpoint insert_by_key (x : Z * (nat * nat)) (l : list (Z * (nat * nat))) :=
  match l with
  | [] => [x]
  | y :: t => if (fst x <=? fst y)%Z then x :: l else y :: insert_by_key x t
  end.
Definition sort_cmap (m : list (Z * (nat * nat))) := fold_right insert_by_key [] m.

Definition nat_str (n : nat) : string := N_to_string (N.of_nat n).

Fixpoint cstr_parts (compact : bool) (m : list (Z * (nat * nat))) (prim cont : string) : res (string * string) :=
  match m with
  | [] => ok (prim, cont)
  | (am, (np, nc)) :: t =>
    do ch <- amint_to_char [am] false false;
    let sep := if andb (negb (am =? 0)%Z) (negb compact) then "," else "" in
    cstr_parts compact t (prim +++ sep +++ nat_str np +++ ch) (cont +++ sep +++ nat_str nc +++ ch)
  end.

(* None = element without electron_shells *)
Definition contraction_string (shells : option (list cshell)) (compact : bool) : res string :=
  match shells with
  | None => ok ""
  | Some shs =>
    do pc <- cstr_parts compact (sort_cmap (cmap shs)) "" "";
    let '(p, c) := pc in
    if compact then ok (p +++ "." +++ c) else ok ("(" +++ p +++ ") -> [" +++ c +++ "]")
  end.
