(* C04: the numbers every writer has to emit = the numbers of the basis in the contraction form the writer prescribes, i.e.
   after the writer's own normalisation pipeline (Gen/GenWriters.v) run by the manipulation model.  sort_basis steps only
   reorder and are skipped. *)
From BSE Require Import Model.Val Model.Num Model.Basis Model.Manip Model.ManipS Model.Memo Model.Header Gen.GenWriters.

Definition run_wstep (st : string * string * list warg * list (string * warg)) (b : sbasis) : res sbasis :=
  let '(m, op, args, _) := st in
  if String.eqb m "sort" then ok b else
  if String.eqb op "uncontract_general" then s_uncontract_general b else
  if String.eqb op "uncontract_spdf" then
    match args with WInt n :: _ => s_uncontract_spdf n b | _ => s_uncontract_spdf 0 b end else
  if String.eqb op "make_general" then
    match args with WBool skip :: _ => s_make_general skip b | _ => s_make_general false b end else
  if String.eqb op "optimize_general" then s_optimize_general b else
  if String.eqb op "prune_basis" then s_prune_basis b else
  if String.eqb op "uncontract_segmented" then ok (s_uncontract_segmented b) else
  fail ENotImpl.

Fixpoint run_wsteps (sts : list (string * string * list warg * list (string * warg))) (b : sbasis) : res sbasis :=
  match sts with [] => ok b | st :: t => do b' <- run_wstep st b; run_wsteps t b' end.

(* the shell numbers that must appear: every exponent, and the non-zero coefficients of contractions with >= 2 non-zero entries *)
Definition shell_numbers (s : sshell) : list string * list string :=
  (exps s, flat_map (fun c => if Nat.leb 2 (List.length (nonzeros is0_s c)) then nonzeros is0_s c else []) (coefs s)).

Definition writer_expected (fmt : string) (function_types : list string) (b : sbasis) : res (list (string * (list string * list string))) :=
  match assoc (lower fmt) writer_map with
  | None => fail ERuntime
  | Some w =>
    if negb (gate w function_types) then fail ERuntime else
    do b' <- run_wsteps (w_pipeline w) b;
    ok (map (fun kv => (fst kv, match eshells (snd kv) with
                                | None => ([], [])
                                | Some shs => (flat_map (fun s => fst (shell_numbers s)) shs, flat_map (fun s => snd (shell_numbers s)) shs)
                                end)) (belems b'))
  end.
