(* Model of bundle._bundle_generic: the list of archive members (path, content).  get_basis / get_references / notes are
   inputs: for every index key (in index order) the versions for which both calls succeeded, and the notes text. *)
From BSE Require Import Model.Val Model.Elements Model.Compose.

Definition nonempty_str (s : string) : bool := match s with EmptyString => false | _ => true end.

Record bitem := { b_name : string; b_versions : list (string * (string * string)); b_notes : string }.

Definition item_members (subdir ext refext : string) (it : bitem) : list (string * string) :=
  let filename := transform_basis_name (b_name it) in
  flat_map (fun vd => [(path_join subdir (filename +++ "." +++ fst vd +++ ext), fst (snd vd));
                       (path_join subdir (filename +++ "." +++ fst vd +++ ".ref" +++ refext), snd (snd vd))]) (b_versions it)
  ++ (if nonempty_str (b_notes it) then [(path_join subdir (filename +++ ".notes"), b_notes it)] else []).

Definition bundle_members (fmt reffmt ext refext readme : string) (items : list bitem) (family_notes : list (string * string))
  : list (string * string) :=
  let subdir := "basis_set_bundle-" +++ fmt +++ "-" +++ reffmt in
  (path_join subdir "README.txt", readme)
  :: flat_map (item_members subdir ext refext) items
  ++ flat_map (fun fn => if nonempty_str (snd fn) then [(path_join subdir (fst fn +++ ".family_notes"), snd fn)] else []) family_notes.
