(* Model of the AcesII writer (format 'acesii'; there is no reader registered for this format):
     writers/genbas.py   write_aces2 = _write_genbas_internal(basis, _aces_exp, _aces_coef)
                         (_aces_exp, _aces_coef, _print_columns; the CFOUR variant write_cfour of the same function is
                          Model/Genbas.v + Model/GenbasEcp.v, whose pieces are reused: chunks / print_columns / rjust / c4_am0,
                          and the whole ECP part c4ecp_write_ecp, which does not use the two formatters)
   The two formatters go through Python floats:
     _aces_exp(e):   e = float(e);  mag = max(int(math.log(abs(e), 10)), 1);  mag += 1 if e < 0.0
                     ndec = min(7, 14 - 2 - mag);  s = '{:14.<ndec>f}'.format(e)
                     if s[0] != ' ' and s[-1] == '0': s = ' ' + s[:-1]
     _aces_coef(c):  '{:10.7f} '.format(float(c))
   so the model contains
     - float(): the double nearest to the decimal value (round half to even, subnormals, overflow to inf), computed exactly
       with integers; the strings float() accepts beyond Model.Num.parse_num (inf, nan, digit-group underscores) are outside
       the modelled domain, as everywhere in Model/;
     - '{:.<n>f}'.format(x): the EXACT binary value of x times 10^n rounded half to even (what CPython's dtoa does);
     - int(math.log(|x|, 10)): CPython computes log(|x|) / log(10) in double arithmetic, which is NOT the exact
       floor(log10 |x|): the quotient of 10^3, 10^6, 10^9, 10^12, 10^13, 10^15, 10^18, 10^21 comes out just below the integer
       (math.log(1000, 10) = 2.9999999999999996).  The model uses the exact floor, the table aces_pow_down for the exact
       powers of ten (measured on this platform: glibc, x86-64; it is also what a correctly rounded log gives), and, for a value
       within a relative distance of 10^-12 of a power of ten that is not that power itself, BOTH neighbouring integers: if they
       lead to different layouts the model answers ENotImpl (the result depends on the last bits of libm's log) - this can
       only happen for |x| >= 10^5.
   Text is a string of bytes.  Definitions only; statements in Proofs/AcesiiDefs.v, proofs in Proofs/AcesiiSpec.v. *)
From BSE Require Import Model.Val Model.Text Model.Num Model.Basis Model.Manip Model.Matrix Model.Lut Model.Elements
                        Model.Nwchem Model.NwchemEcp Model.Turbomole Model.TurbomoleEcp Model.Genbas Model.GenbasEcp.

(* ------------------------------------------------------------------ *)
(* float()                                                             *)
(* ------------------------------------------------------------------ *)

(* the sign bit of float(s): a minus sign in front, also for zero (float('-0.0') is -0.0 and is printed as -0.0000000) *)
Definition num_neg (s : string) : bool := match skip_ws s with String "-" _ => true | _ => false end.

Definition pow2 (n : Z) : Z := Z.pow 2 n.

(* the integer nearest to n / d (d > 0, n >= 0), ties to the even one *)
Definition rhe (n d : Z) : Z :=
  let q := (n / d)%Z in
  let r := (n mod d)%Z in
  match Z.compare (2 * r) d with
  | Lt => q
  | Gt => (q + 1)%Z
  | Eq => if Z.even q then q else (q + 1)%Z
  end.

(* the magnitude of a double: DFin q e2 is q * 2^e2 (0 <= q <= 2^53, e2 >= -1074; zero is DFin 0 0), DInf is infinity *)
Inductive dbl := DFin (q e2 : Z) | DInf.

(* |float(s)| for the exact decimal value |m| * 10^e10 = n / d:
   fl = floor(log2(n / d));  the binary exponent of the last mantissa bit is e2 = max(fl - 52, -1074) (subnormals below 2^-1022);
   q = n / (d * 2^e2) rounded half to even;  q * 2^e2 >= 2^1024 is an overflow: float() answers inf *)
Definition to_double (m e10 : Z) : dbl :=
  let n := (Z.abs m * pow10 (Z.max e10 0))%Z in
  let d := pow10 (Z.max (- e10) 0) in
  if Z.eqb n 0 then DFin 0 0 else
  let L := (Z.log2 n - Z.log2 d)%Z in
  let fl := if (d * pow2 (Z.max L 0) <=? n * pow2 (Z.max (- L) 0))%Z then L else (L - 1)%Z in
  let e2 := Z.max (fl - 52) (-1074) in
  let q := rhe (n * pow2 (Z.max (- e2) 0)) (d * pow2 (Z.max e2 0)) in
  if orb (971 <? e2)%Z (andb (Z.eqb e2 971) (Z.eqb q (pow2 53))) then DInf else DFin q e2.

(* q * 2^e2 as a fraction *)
Definition dbl_num (q e2 : Z) : Z := (q * pow2 (Z.max e2 0))%Z.
Definition dbl_den (e2 : Z) : Z := pow2 (Z.max (- e2) 0).

(* ------------------------------------------------------------------ *)
(* '{:.<nd>f}'.format(|x|)                                             *)
(* ------------------------------------------------------------------ *)
Fixpoint zeros (n : nat) : string := match n with O => "" | S k => String "0" (zeros k) end.

(* r = |x| * 10^nd rounded half to even; its digits, padded with zeros to nd + 1 digits, with the point before the last nd
   digits (no point at all for nd = 0) *)
Definition fixed_round (q e2 : Z) (nd : nat) : Z := rhe (dbl_num q e2 * pow10 (Z.of_nat nd)) (dbl_den e2).
Definition fixed_digits (r : Z) (nd : nat) : string :=
  let ds := Z_to_string r in
  let ds := zeros (S nd - String.length ds) +++ ds in
  match nd with
  | O => ds
  | _ => let k := (String.length ds - nd)%nat in stake k ds +++ "." +++ drop_chars k ds
  end.
Definition fixed_abs (q e2 : Z) (nd : nat) : string := fixed_digits (fixed_round q e2 nd) nd.

(* ------------------------------------------------------------------ *)
(* int(math.log(|x|, 10))                                              *)
(* ------------------------------------------------------------------ *)
(* the exact floor(log10 |x|) for |x| >= 1 (number of digits of the integer part, minus one); 0 for |x| < 1, where Python's
   int() truncates a negative quotient towards zero and max(mag, 1) makes it 1 anyway *)
Definition log10_floor (q e2 : Z) : Z :=
  (Z.of_nat (String.length (Z_to_string (dbl_num q e2 / dbl_den e2))) - 1)%Z.

(* the powers of ten 10^k (k <= 22: the ones that are doubles) for which log(10^k) / log(10) is k - 1 and a bit *)
Definition aces_pow_down : list Z := [3; 6; 9; 12; 13; 15; 18; 21]%Z.

(* the values int(math.log(|x|, 10)) may take according to the model: one value, or two neighbours when |x| is within 10^-12
   (relative) of a power of ten without being that power *)
Definition aces_log_candidates (q e2 : Z) : list Z :=
  let a := dbl_num q e2 in
  let b := dbl_den e2 in
  let k := log10_floor q e2 in
  let near := fun j => (Z.abs (a - b * pow10 j) * pow10 12 <=? b * pow10 j)%Z in
  if Z.eqb a (b * pow10 k) then (if existsb (Z.eqb k) aces_pow_down then [(k - 1)%Z] else [k])
  else if near k then [(k - 1)%Z; k]
  else if near (k + 1)%Z then [k; (k + 1)%Z]
  else [k].

(* mag = max(mag, 1); if e < 0.0: mag += 1; ndec = min(7, 14 - 2 - mag) *)
Definition aces_ndec (neg : bool) (logint : Z) : Z :=
  Z.min 7 (12 - (Z.max logint 1 + (if neg then 1 else 0)))%Z.

(* ------------------------------------------------------------------ *)
(* the two formatters                                                  *)
(* ------------------------------------------------------------------ *)
(* if s[0] != ' ' and s[-1] == '0': s = ' ' + s[:-1] *)
Definition aces_trim (s : string) : string :=
  match s with
  | String c _ =>
    if Ascii.eqb c " " then s else
    match srev s with
    | String c0 r => if Ascii.eqb c0 "0" then String " " (srev r) else s
    | EmptyString => s
    end
  | EmptyString => s
  end.

(* the text between the padding blanks: sign and digits *)
Definition aces_exp_body (e : string) : res string :=
  match parse_num e with
  | None => fail EValue                                                 (* float(e) *)
  | Some (m, e10) =>
    match to_double m e10 with
    | DInf => fail EOther                                               (* int(inf): OverflowError *)
    | DFin q e2 =>
      if Z.eqb q 0 then fail EValue else                                (* math.log(0.0): math domain error *)
      let neg := num_neg e in
      match aces_log_candidates q e2 with
      | [] => fail EOther                                               (* (not reached) *)
      | c0 :: cs =>
        let nd := aces_ndec neg c0 in
        (* every negative precision is the same ValueError *)
        if negb (forallb (fun c => Z.eqb (Z.max (aces_ndec neg c) (-1)) (Z.max nd (-1))) cs) then fail ENotImpl else
        if (nd <? 0)%Z then fail EValue else                            (* '{:14.-1f}': Format specifier missing precision *)
        ok ((if neg then "-" else "") +++ fixed_abs q e2 (Z.to_nat nd))
      end
    end
  end.

(* _aces_exp: the 14 character field (longer when the number does not fit) *)
Definition aces_exp (e : string) : res string :=
  do b <- aces_exp_body e; ok (aces_trim (rjust 14 b)).

(* the text between the blanks of _aces_coef: '{:.7f}' of a finite value, `inf` / `-inf` otherwise *)
Definition aces_coef_body (c : string) : res string :=
  match parse_num c with
  | None => fail EValue
  | Some (m, e10) =>
    ok ((if num_neg c then "-" else "") +++
        match to_double m e10 with DInf => "inf" | DFin q e2 => fixed_abs q e2 7 end)
  end.

(* _aces_coef: '{:10.7f} '.format(float(c)) *)
Definition aces_coef (c : string) : res string :=
  do b <- aces_coef_body c; ok (rjust 10 b +++ " ").

(* ------------------------------------------------------------------ *)
(* the writer                                                          *)
(* ------------------------------------------------------------------ *)
(* the body of the second `for shell in data['electron_shells']` with the AcesII formatters (c4_write_shell of Model/Genbas.v
   with c4_num replaced): the exponents five to a line, a blank line, every ROW of the coefficient table seven to a line, a
   blank line *)
Definition aces_write_shell (s : sshell) : res string :=
  do exponents <- mapM aces_exp (exps s);
  do cf <- mapM (mapM aces_coef) (coefs s);
  let coefficients := @transpose string cf in
  ok (print_columns exponents 5 +++ nl1 +++
      String.concat "" (map (fun c => print_columns c 7) coefficients) +++ nl1).

(* one iteration of `for z in electron_elements` (c4_write_element with the other shell printer) *)
Definition aces_write_element (name desc : string) (zs : Z * list sshell) : res string :=
  let '(z, shs) := zs in
  do sym <- element_sym_from_Z z false;
  do ams <- mapM c4_am0 shs;
  let s_am := String.concat "" (map (fun a => rjust 5 (Z_to_string a)) ams) in
  let s_ngen := String.concat "" (map (fun s => rjust 5 (nat_str (List.length (coefs s)))) shs) in
  let s_nprim := String.concat "" (map (fun s => rjust 5 (nat_str (List.length (exps s)))) shs) in
  do body <- mapM aces_write_shell shs;
  ok (upper sym +++ ":" +++ name +++ nl1 +++ desc +++ nl1 +++ nl1 +++ rjust 3 (nat_str (List.length shs)) +++ nl1 +++
      s_am +++ nl1 +++ s_ngen +++ nl1 +++ s_nprim +++ nl1 +++ nl1 +++
      String.concat "" body).

Definition aces_write_electron (name desc : string) (els : list (Z * list sshell)) : res string :=
  do parts <- mapM (aces_write_element name desc) els;
  ok (nl1 +++ String.concat "" parts).

(* write_aces2(basis), the text it returns.
   INPUT, taken from the basis AFTER the two normalisation calls of _write_genbas_internal
       basis = manip.make_general(basis, False, True)   (uncontract_spdf(basis, 0), then ONE shell per angular momentum with
                                                         every contraction of that momentum as a general contraction padded
                                                         with the literal '0.00000000', region ''; ends with prune_basis)
       basis = sort.sort_basis(basis, False)            (elements, shells, primitives, potentials sorted)
     name = basis['name'],  desc = basis['description'],
     els  = [(int(z), data['electron_shells'])]                          for the elements that have 'electron_shells',
     ecps = [(int(z), (data['ecp_electrons'], data['ecp_potentials']))]  for the elements that have 'ecp_potentials',
   both in dictionary order.  The ECP part is the one of write_cfour (Model.GenbasEcp.c4ecp_write_ecp): its numbers are
   printed as they are, by printing.write_matrix. *)
Definition acesii_write_all (name desc : string) (els : list (Z * list sshell)) (ecps : list (Z * (Z * list epot)))
  : res string :=
  do a <- aces_write_electron name desc els;
  do e <- c4ecp_write_ecp name desc ecps;
  ok (a +++ e).
