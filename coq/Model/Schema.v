(* The subset of JSON Schema (draft 7) used by schema/*.json, and its checker. *)
From BSE Require Import Model.Val Model.Memo.

Inductive jtype := TObject | TArray | TString | TInteger | TBoolean | TNumber | TNull.
Inductive pat := PDigits | PAny | PAlnum | PDate.

Inductive schema :=
| SAny
| SNode (s_type : option jtype) (s_required : list string) (s_props : list (string * schema)) (s_addl : bool)
        (s_patprops : list (pat * schema)) (s_propnames : option (list string))
        (s_items : option schema) (s_minitems : option nat) (s_unique : bool)
        (s_enum : option (list val)) (s_minimum : option Z) (s_pattern : option pat) (s_anyof : list schema).

Definition has_type (t : jtype) (v : val) : bool :=
  match t, v with
  | TObject, VDict _ | TArray, VList _ | TString, VStr _ | TInteger, VInt _ | TNumber, VInt _
  | TBoolean, VBool _ | TNull, VNone => true
  | _, _ => false
  end.

(* re.search semantics of the four patterns in use; `$` also matches before a final newline *)
Definition strip_final_nl (s : string) : string :=
  match srev s with String c r => if Ascii.eqb c (ascii_of_nat 10) then srev r else s | EmptyString => s end.
Definition is_alnum (c : ascii) : bool := orb (is_alpha c) (is_digit c).
Definition all_nonempty (p : ascii -> bool) (s : string) : bool := match s with EmptyString => false | _ => sall p s end.
Fixpoint match_date (fmt : list bool) (s : string) : bool :=   (* true = digit, false = '-' *)
  match fmt, s with
  | [], EmptyString => true
  | true :: f, String c t => andb (is_digit c) (match_date f t)
  | false :: f, String c t => andb (Ascii.eqb c "-") (match_date f t)
  | _, _ => false
  end.
Definition pat_match (p : pat) (s : string) : bool :=
  match p with
  | PAny => true
  | PDigits => all_nonempty is_digit (strip_final_nl s)
  | PAlnum => all_nonempty is_alnum (strip_final_nl s)
  | PDate => match_date [true;true;true;true;false;true;true;false;true;true] (strip_final_nl s)
  end.

Fixpoint all_distinct (l : list val) : bool :=
  match l with [] => true | x :: t => andb (negb (existsb (val_eqb x) t)) (all_distinct t) end.

Fixpoint check_schema (sc : schema) (v : val) {struct sc} : bool :=
  match sc with
  | SAny => true
  | SNode ty req props addl patprops propnames items minitems uniq enum minimum pattern anyof =>
    (match ty with Some t => has_type t v | None => true end) &&
    (match enum with Some l => existsb (val_eqb v) l | None => true end) &&
    (match anyof with
     | [] => true
     | _ => (fix any (l : list schema) : bool := match l with [] => false | s :: t => orb (check_schema s v) (any t) end) anyof
     end) &&
    match v with
    | VDict d =>
      forallb (fun r => match assoc r d with Some _ => true | None => false end) req &&
      (match propnames with Some l => forallb (fun kv => mem_str (fst kv) l) d | None => true end) &&
      (fix each (d : list (string * val)) : bool :=
         match d with
         | [] => true
         | (k, x) :: t =>
           let in_props := (fix look (ps : list (string * schema)) : option bool :=
                              match ps with
                              | [] => None
                              | (pk, ps') :: r => if String.eqb pk k then Some (check_schema ps' x) else look r
                              end) props in
           let pats := (fix lookp (ps : list (pat * schema)) : bool * bool :=     (* (matched some pattern, all matched ok) *)
                          match ps with
                          | [] => (false, true)
                          | (pp, ps') :: r => let '(m, okr) := lookp r in
                                              if pat_match pp k then (true, andb (check_schema ps' x) okr) else (m, okr)
                          end) patprops in
           (match in_props with Some b => b | None => true end) && snd pats &&
           (match in_props with Some _ => true | None => orb (fst pats) addl end) && each t
         end) d
    | VList l =>
      (match minitems with Some n => Nat.leb n (List.length l) | None => true end) &&
      (if uniq then all_distinct l else true) &&
      (match items with
       | Some s => (fix all (l : list val) : bool := match l with [] => true | x :: t => andb (check_schema s x) (all t) end) l
       | None => true
       end)
    | VStr s => match pattern with Some p => pat_match p s | None => true end
    | VInt z => match minimum with Some m => (m <=? z)%Z | None => true end
    | _ => true
    end
  end.
