(* Interpreter for the translated option pipeline of api.get_basis (Gen/GenApi.v) over the manipulation model. *)
From BSE Require Import Model.Val Model.Num Model.Basis Model.Manip Model.ManipS Gen.GenApi.

Record opts := { o_flags : list (string * bool); o_counts : list (string * Z); o_aux : Z }.

Definition flag_of (o : opts) (n : string) : bool := match assoc n (o_flags o) with Some b => b | None => false end.
Definition count_of (o : opts) (n : string) : Z := match assoc n (o_counts o) with Some z => z | None => 0%Z end.

Fixpoint eval_cond (o : opts) (np : bool) (c : cond) : bool :=
  match c with
  | CFlag n => flag_of o n
  | CPos n => (count_of o n >? 0)%Z
  | CAuxIs v => Z.eqb (o_aux o) v
  | CNeedsPruning => np
  | COr a b => orb (eval_cond o np a) (eval_cond o np b)
  | CAnd a b => andb (eval_cond o np a) (eval_cond o np b)
  end.

(* the pure model ignores the use_copy arguments (aliasing is the subject of C10) *)
Definition run_call (module op : string) (args : list argv) (b : sbasis) : res sbasis :=
  match module, op, args with
  | "manip", "remove_free_primitives", _ => s_remove_free_primitives b
  | "manip", "optimize_general", _ => s_optimize_general b
  | "manip", "uncontract_segmented", _ => ok (s_uncontract_segmented b)
  | "manip", "uncontract_general", _ => s_uncontract_general b
  | "manip", "uncontract_spdf", AInt m :: _ => s_uncontract_spdf m b
  | "manip", "make_general", ABool skip :: _ => s_make_general skip b
  | "manip", "prune_basis", _ => s_prune_basis b
  | _, _, _ => fail ENotImpl   (* augmentation, sorting with float keys, aux generation: not in this interpreter *)
  end.

Fixpoint run_steps (steps : list step) (st : sbasis * bool) : res (sbasis * bool) :=
  match steps with
  | [] => ok st
  | SSetPrune :: t => run_steps t (fst st, true)
  | SCall m op args _ :: t => do b <- run_call m op args (fst st); run_steps t (b, snd st)
  end.

(* one if/elif chain: the first branch whose condition holds *)
Fixpoint run_chain (o : opts) (ch : list (cond * list step)) (st : sbasis * bool) : res (sbasis * bool) :=
  match ch with
  | [] => ok st
  | (c, steps) :: t => if eval_cond o (snd st) c then run_steps steps st else run_chain o t st
  end.

Fixpoint run_chains (o : opts) (chs : list (list (cond * list step))) (st : sbasis * bool) : res (sbasis * bool) :=
  match chs with
  | [] => ok st
  | ch :: t => do st' <- run_chain o ch st; run_chains o t st'
  end.

Definition run_get_basis_options (o : opts) (b : sbasis) : res sbasis :=
  do r <- run_chains o get_basis_pipeline (b, false); ok (fst r).
