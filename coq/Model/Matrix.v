(* Model of printing.write_matrix and of the reader-side helpers (replace_d, is_floating, is_integer, re.split on white space,
   parse_matrix, parse_primitive_matrix, parse_ecp_table, potential_am_list). *)
From BSE Require Import Model.Val Model.Manip Model.Text.

Definition sp (n : nat) : string := (fix go n := match n with O => "" | S k => String " " (go k) end) n.
Definition nl1 : string := String (byte 10) EmptyString.

(* a cell of the matrix: an int (r exponents) or a string *)
Inductive cell := CInt (z : Z) | CStr (s : string).
Definition cell_str (c : cell) : string := match c with CInt z => Z_to_string z | CStr s => s end.

Fixpoint index_char (c : ascii) (s : string) (i : nat) : option nat :=
  match s with EmptyString => None | String a t => if Ascii.eqb a c then Some i else index_char c t (S i) end.
(* _find_point: 0 for an int, x.index('.') for a string (ValueError when there is no point) *)
Definition find_point (c : cell) : res nat :=
  match c with CInt _ => ok 0 | CStr s => match index_char "." s 0 with Some i => ok i | None => fail EValue end end.

(* one line: for each cell pad to (point_place - 1 - digits left of the point) counting from the line start, at least one
   blank between cells *)
Fixpoint write_row (cells : list cell) (pps : list Z) (first : bool) (line : string) : res string :=
  match cells with
  | [] => ok line
  | c :: t =>
    match pps with
    | [] => fail EIndex
    | pp :: ppt =>
      do fp <- find_point c;
      let pad := Z.to_nat (Z.max (pp - 1 - Z.of_nat fp) 0) in
      let gap := (pad - String.length line)%nat in
      let gap' := if first then gap else Nat.max gap 1 in
      write_row t ppt false (line +++ sp gap' +++ cell_str c)
    end
  end.

Definition transpose_cells := @transpose cell.

Definition d_convert (s : string) : string := smap (fun c => if orb (Ascii.eqb c "e") (Ascii.eqb c "E") then "D"%char else c) s.

(* mat is a list of columns, as the writers pass it *)
Definition write_matrix (mat : list (list cell)) (point_place : list Z) (convert_exp : bool) : res string :=
  do rows <- mapM (fun row => write_row row point_place true "") (transpose_cells mat);
  let text := String.concat "" (map (fun r => r +++ nl1) rows) in
  ok (if convert_exp then d_convert text else text).

(* ---- reader side ---- *)
Definition replace_d (s : string) : string :=
  smap (fun c => if Ascii.eqb c "D" then "E"%char else if Ascii.eqb c "d" then "e"%char else c) s.

(* re.split(r'\s+', l.strip()): maximal runs of non-space characters ('' gives ['']) *)
Fixpoint tokens_acc (s : string) (cur : string) : list string :=
  match s with
  | EmptyString => match cur with EmptyString => [] | _ => [srev cur] end
  | String c t => if is_space c then match cur with EmptyString => tokens_acc t "" | _ => srev cur :: tokens_acc t "" end
                  else tokens_acc t (String c cur)
  end.
Definition split_ws (l : string) : list string :=
  match tokens_acc l "" with [] => [""] | ts => ts end.

(* ^[-+]?\d*\.\d*([dDeE][-+]?\d+)?$ *)
Fixpoint skip_digits (s : string) : string :=
  match s with String c t => if is_digit c then skip_digits t else s | EmptyString => s end.
Definition skip_sign (s : string) : string :=
  match s with String c t => if orb (Ascii.eqb c "-") (Ascii.eqb c "+") then t else s | EmptyString => s end.
Definition is_floating (s : string) : bool :=
  match skip_digits (skip_sign s) with
  | String "." t =>
    match skip_digits t with
    | EmptyString => true
    | String c r => if orb (orb (Ascii.eqb c "d") (Ascii.eqb c "D")) (orb (Ascii.eqb c "e") (Ascii.eqb c "E"))
                    then match skip_sign r with
                         | String c2 r2 => andb (is_digit c2) (match skip_digits r2 with EmptyString => true | _ => false end)
                         | EmptyString => false
                         end
                    else false
    end
  | _ => false
  end.
Definition is_integer (s : string) : bool :=
  match skip_sign s with String c t => andb (is_digit c) (match skip_digits t with EmptyString => true | _ => false end) | EmptyString => false end.

Definition parse_primitive_matrix (lines : list string) : res (list string * list (list string)) :=
  do rows <- mapM (fun l => match split_ws (replace_d (strip_ws l)) with
                            | e :: c => if negb (is_floating e) then fail ERuntime else
                                        if negb (forallb is_floating c) then fail ERuntime else ok (e, c)
                            | [] => fail EIndex
                            end) lines;
  let coefs := map snd rows in
  match coefs with
  | [] => fail ERuntime
  | c0 :: _ =>
    if existsb (fun c => orb (Nat.eqb (List.length c) 0) (negb (Nat.eqb (List.length c) (List.length c0)))) coefs then fail ERuntime
    else ok (map fst rows, @transpose string coefs)
  end.

Definition parse_ecp_table (lines : list string) : res (list Z * list string * list (list string)) :=
  do rows <- mapM (fun l => match split_ws (replace_d (strip_ws l)) with
                            | [a; b; c] => ok (a, b, c)
                            | _ => fail ERuntime
                            end) lines;
  let r := map (fun x => fst (fst x)) rows in
  let g := map (fun x => snd (fst x)) rows in
  let c := map snd rows in
  if negb (forallb is_integer r) then fail ERuntime else
  if negb (forallb is_floating g) then fail ERuntime else
  if negb (forallb is_floating c) then fail ERuntime else
  ok (map (fun s => match skip_sign s, s with
                    | d, String "-" _ => (- digits_val d 0)%Z
                    | d, _ => digits_val d 0
                    end) r, g, [c]).

(* potential_am_list(max_am) = [max_am, 0, 1, ..., max_am - 1] *)
Definition potential_am_list (max_am : nat) : list nat := max_am :: seq 0 max_am.
