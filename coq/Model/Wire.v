(* Wire format between the Python harness and the model (both routes: the extracted OCaml
   program and in-Coq vm_compute use this same parser and printer).

     N                      None
     T | F                  bool
     I<-?digits>;           integer
     S<len>:<bytes>         string (len = number of bytes)
     L<n>:<v1>...<vn>       list
     D<n>:<k1><v1>...       dict, each key written as <len>:<bytes>
*)
From BSE Require Import Model.Val.

Fixpoint take_digits (s : string) (acc : string) : string * string :=
  match s with
  | String c t => if is_digit c then take_digits t (String c acc) else (srev acc, s)
  | EmptyString => (srev acc, s)
  end.

Definition parse_nat_until (stop : ascii) (s : string) : option (nat * string) :=
  let '(ds, rest) := take_digits s "" in
  match ds, rest with
  | String _ _, String c r => if Ascii.eqb c stop then Some (Z.to_nat (digits_val ds 0), r) else None
  | _, _ => None
  end.

Fixpoint take_chars (n : nat) (s : string) (acc : string) : option (string * string) :=
  match n with
  | O => Some (srev acc, s)
  | S k => match s with String c t => take_chars k t (String c acc) | EmptyString => None end
  end.

Definition parse_raw_string (s : string) : option (string * string) :=
  match parse_nat_until ":" s with
  | Some (n, r) => take_chars n r ""
  | None => None
  end.

Fixpoint parse_val (fuel : nat) (s : string) : option (val * string) :=
  match fuel with
  | O => None
  | S f =>
    match s with
    | EmptyString => None
    | String c t =>
      if Ascii.eqb c "N" then Some (VNone, t) else
      if Ascii.eqb c "T" then Some (VBool true, t) else
      if Ascii.eqb c "F" then Some (VBool false, t) else
      if Ascii.eqb c "I" then
        let '(neg, t1) := match t with String "-" t' => (true, t') | _ => (false, t) end in
        (* integers may be far too large for a unary nat: parse the digits straight into Z *)
        let '(ds, rest) := take_digits t1 "" in
        match ds, rest with
        | String _ _, String c r =>
          if Ascii.eqb c ";" then
            let z := digits_val ds 0 in Some (VInt (if neg then (- z)%Z else z), r)
          else None
        | _, _ => None
        end else
      if Ascii.eqb c "S" then
        match parse_raw_string t with Some (x, r) => Some (VStr x, r) | None => None end else
      if Ascii.eqb c "L" then
        match parse_nat_until ":" t with
        | Some (n, r) =>
          (fix items (k : nat) (r : string) (acc : list val) : option (val * string) :=
             match k with
             | O => Some (VList (rev acc), r)
             | S k' => match parse_val f r with
                       | Some (v, r') => items k' r' (v :: acc)
                       | None => None
                       end
             end) n r []
        | None => None
        end else
      if Ascii.eqb c "D" then
        match parse_nat_until ":" t with
        | Some (n, r) =>
          (fix items (k : nat) (r : string) (acc : list (string * val)) : option (val * string) :=
             match k with
             | O => Some (VDict (rev acc), r)
             | S k' => match parse_raw_string r with
                       | Some (key, r1) =>
                         match parse_val f r1 with
                         | Some (v, r') => items k' r' ((key, v) :: acc)
                         | None => None
                         end
                       | None => None
                       end
             end) n r []
        | None => None
        end else None
    end
  end.

Definition nat_dec (n : nat) : string := N_to_string (N.of_nat n).

(* printer with an accumulator (the text of everything that follows) *)
Fixpoint show_val (v : val) (acc : string) : string :=
  match v with
  | VNone => String "N" acc
  | VBool true => String "T" acc
  | VBool false => String "F" acc
  | VInt z => String "I" (Z_to_string z +++ String ";" acc)
  | VStr s => String "S" (nat_dec (String.length s) +++ String ":" (s +++ acc))
  | VList l =>
    String "L" (nat_dec (List.length l) +++ String ":"
      ((fix go (l : list val) : string := match l with [] => acc | x :: t => show_val x (go t) end) l))
  | VDict d =>
    String "D" (nat_dec (List.length d) +++ String ":"
      ((fix go (d : list (string * val)) : string :=
          match d with
          | [] => acc
          | (k, x) :: t => nat_dec (String.length k) +++ String ":" (k +++ show_val x (go t))
          end) d))
  end.

Definition decode_request (s : string) : option (string * list val) :=
  match parse_val (S (String.length s)) s with
  | Some (VList (VStr op :: args), EmptyString) => Some (op, args)
  | _ => None
  end.
