(* Model of the ECP part of the Dalton writer / reader pair, and of the whole file (electron part + ECP section):
     writers/dalton.py   write_dalton      (the `ECP ... $ END OF ECP` section; the electron part is Model/Dalton.v)
     readers/dalton.py   read_dalton       (partition at the `ecp` line, dispatch)
     readers/nwchem.py   _parse_ecp_lines  (read_dalton hands the `ecp` section to the NWChem reader: Model/NwchemEcp.v,
                                            nw_read_ecp_section)
     printing.py         write_matrix([rexponents, gexponents, *coefficients], [0, 9, 32])
   The writer prints the section in the layout of Dalton's own ECP library (`a Z`, `$`, `lmax nelec`, per potential the
   number of terms and the table, `$`), the reader expects the NWChem layout (`Sym nelec n`, `Sym ul`, `Sym S`, ...).
   Definitions only; statements in Proofs/DaltonEcpDefs.v, proofs in Proofs/DaltonEcpSpec.v. *)
From BSE Require Import Model.Val Model.Text Model.Basis Model.Manip Model.Matrix Gen.GenLut Model.Lut Model.Elements
                        Model.Nwchem Model.Turbomole Model.NwchemEcp Model.Dalton.

(* ------------------------------------------------------------------ *)
(* writer                                                              *)
(* ------------------------------------------------------------------ *)

(* '{:wd}'.format(z): the decimal form (with its sign), right-justified with blanks in a field of w characters *)
Definition fmt_d (w : nat) (z : Z) : string :=
  let s := Z_to_string z in sp (w - String.length s) +++ s.

Definition dal_ecp_point_places : list Z := [0; 9; 32]%Z.

(* the body of `for pot in ecp_list`: '{:12d}\n'.format(len(rexponents)), then the table *)
Definition dal_write_pot (p : epot) : res string :=
  do _ <- leftpad_check (ecp_cols p) dal_ecp_point_places;
  do m <- write_matrix (ecp_cols p) dal_ecp_point_places false;
  ok (fmt_d 12 (Z.of_nat (List.length (p_rexp p))) +++ nl1 +++ m).

(* one iteration of `for z in ecp_elements`: (Z, (data['ecp_electrons'], data['ecp_potentials'])).
     max_ecp_am = max([x['angular_momentum'][0] ...]); ecp_list = sorted(...); ecp_list.insert(0, ecp_list.pop())
     s += 'a {:3d}\n$\n'.format(int(z)); s += '{:4d}{:4d}\n'.format(max_ecp_am, data['ecp_electrons']); ...; s += '$\n'
   (ecp_max_am, ecp_order: Model/NwchemEcp.v - write_nwchem does the same) *)
Definition dal_write_ecp_element (e : Z * (Z * list epot)) : res string :=
  let '(z, (nelec, pots)) := e in
  do mx <- ecp_max_am pots;
  do ecp_list <- ecp_order pots;
  do body <- mapM dal_write_pot ecp_list;
  ok ("a " +++ fmt_d 3 z +++ nl1 +++ "$" +++ nl1 +++ fmt_d 4 mx +++ fmt_d 4 nelec +++ nl1 +++
      String.concat "" body +++ "$" +++ nl1).

(* `if ecp_elements:` ... ; ecps = the elements that have 'ecp_potentials', in dictionary order (after make_general and
   sort_basis; sort_basis puts the potentials in the order ecp_order computes again) *)
Definition dal_write_ecp (ecps : list (Z * (Z * list epot))) : res string :=
  match ecps with
  | [] => ok ""
  | _ =>
    do parts <- mapM dal_write_ecp_element ecps;
    ok (nl1 +++ nl1 +++ "ECP" +++ nl1 +++ String.concat "" parts +++ "$ END OF ECP" +++ nl1)
  end.

(* write_dalton after its two normalisation calls: els / ecps are the two views of basis['elements'] *)
Definition dal_write_all (bsname : string) (els : list (Z * list sshell)) (ecps : list (Z * (Z * list epot))) : res string :=
  do a <- dal_write_electron bsname els;
  do b <- dal_write_ecp ecps;
  ok (a +++ b).

(* ------------------------------------------------------------------ *)
(* reader: the whole file                                              *)
(* ------------------------------------------------------------------ *)

(* bs_data as three components: the keys in insertion order (strings), the 'electron_shells' of the elements that have some
   (Model/Dalton.v, keyed by the string found in the file), the ECP keys (Model/NwchemEcp.v; the NWChem parser makes its key
   from the element symbol: str(Z)) *)
Definition dal_all_state := (list string * dal_state * ecp_state)%type.
Definition add_skeys (order ks : list string) : list string :=
  order ++ filter (fun k => negb (existsb (String.eqb k) order)) ks.

(* `for s in basis_sections` of read_dalton: `ecp` sections go to readers.nwchem._parse_ecp_lines *)
Fixpoint dal_sections_all (sections : list (list string)) (st : dal_all_state) : res dal_all_state :=
  match sections with
  | [] => ok st
  | s :: t =>
    match s with
    | [] => fail EIndex
    | first :: _ =>
      let '(order, em, pm) := st in
      if is_ecp_line first then
        do pm' <- nw_read_ecp_section s pm;
        dal_sections_all t (add_skeys order (map (fun e => Z_to_string (fst e)) pm'), em, pm')
      else
        do em' <- dal_parse_electron_lines s em; dal_sections_all t (add_skeys order (map fst em'), em', pm)
    end
  end.

(* read_dalton as readers.read_formatted_basis_str uses it (see dal_read_keys of Model/Dalton.v for the empty file) *)
Definition dal_read_all_parts (lines : list string) : res dal_all_state :=
  let basis_lines := prune_lines lines "" true true in
  do basis_lines <- dal_skip_to_start basis_lines;
  match basis_lines with
  | [] => fail EValue
  | _ =>
    do sections <- partition_lines basis_lines (fun x => ok (is_ecp_line x)) true 1 1 2;
    dal_sections_all sections ([], [], [])
  end.

Fixpoint sassoc {V} (k : string) (d : list (string * V)) : option V :=
  match d with [] => None | (k', v) :: t => if String.eqb k k' then Some v else sassoc k t end.

(* one element of the result (record nw_el of Model/NwchemEcp.v), the key still a string *)
Definition dal_assemble (st : dal_all_state) : list (string * nw_el) :=
  let '(order, em, pm) := st in
  let pm' := map (fun e => (Z_to_string (fst e), snd e)) pm in
  map (fun k => (k, mkNwEl (match sassoc k em with Some shs => shs | None => [] end)
                           (match sassoc k pm' with Some (ne, _) => ne | None => None end)
                           (match sassoc k pm' with Some (_, ps) => ps | None => [] end))) order.

Definition dal_read_all (lines : list string) : res (list (string * nw_el)) :=
  do st <- dal_read_all_parts lines; ok (dal_assemble st).

Definition dal_roundtrip_all (bsname : string) (els : list (Z * list sshell)) (ecps : list (Z * (Z * list epot)))
  : res (list (string * nw_el)) :=
  do t <- dal_write_all bsname els ecps; dal_read_all (splitlines t).
