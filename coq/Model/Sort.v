(* Model of sort.py.  The two float-valued keys (_spatial_extent of each contraction, and the
   minimum spatial extent of a shell) are not modelled: the contraction order `cidx` and the rank
   of each shell are inputs (computed by the implementation, DESIGN C02). *)
From BSE Require Import Model.Val Model.Basis.
Set Implicit Arguments.

Section Sort.
  Variable N : Type.
  Variable leb : N -> N -> bool.     (* float(a) <= float(b) *)
  Variable dflt : N.
  Notation shell := (shell N).

  (* sorted(enumerate(tmp_z), key=lambda x: -float(x[1])) : stable, decreasing value *)
  Fixpoint insert_desc (p : nat * N) (l : list (nat * N)) : list (nat * N) :=
    match l with
    | [] => [p]
    | q :: t => if leb (snd p) (snd q) then q :: insert_desc p t else p :: l
    end.
  Fixpoint enumerate_from {A} (i : nat) (l : list A) : list (nat * A) :=
    match l with [] => [] | x :: t => (i, x) :: enumerate_from (S i) t end.
  Definition zidx (xs : list N) : list nat :=
    map fst (fold_left (fun acc p => insert_desc p acc) (enumerate_from 0 xs) []).

  Definition pick (l : list N) (idx : list nat) : list N := map (fun j => nth j l dflt) idx.

  (* cidx: the contraction order; for fused shells the implementation uses range(len(coefs)) *)
  Definition sort_shell (s : shell) (cidx : list nat) : shell :=
    let z := zidx (exps s) in
    let cidx' := if Nat.eqb (List.length (am s)) 1 then cidx else seq 0 (List.length (coefs s)) in
    mkShell (ftype s) (region s) (am s) (pick (exps s) z)
            (map (fun i => pick (nth i (coefs s) []) z) cidx').

  (* sorted(zip(shells, min_rms), key=lambda x: (max(am), rank)) : stable *)
  Definition max_am_of (a : list Z) : Z := fold_left Z.max a (hd 0%Z a).
  Definition key_leb (a b : Z * nat) : bool :=
    if (fst a <? fst b)%Z then true else if (fst b <? fst a)%Z then false else Nat.leb (snd a) (snd b).
  Fixpoint insert_shell (p : (Z * nat) * shell) (l : list ((Z * nat) * shell)) : list ((Z * nat) * shell) :=
    match l with
    | [] => [p]
    | q :: t => if key_leb (fst q) (fst p) then q :: insert_shell p t else p :: l
    end.
  Definition sort_shells (shs : list (shell * (list nat * nat))) : list shell :=
    let sorted := map (fun sr => let s' := sort_shell (fst sr) (fst (snd sr)) in
                                 ((max_am_of (am s'), snd (snd sr)), s')) shs in
    map snd (fold_left (fun acc p => insert_shell p acc) sorted []).
End Sort.

(* ---- sort_potentials on the raw values: sorted(key = angular_momentum list), then last to the front ---- *)
Fixpoint zlist_leb (a b : list Z) : bool :=
  match a, b with
  | [], _ => true
  | _ :: _, [] => false
  | x :: a', y :: b' => if (x <? y)%Z then true else if (y <? x)%Z then false else zlist_leb a' b'
  end.
Definition pot_am (v : val) : list Z :=
  match v with
  | VDict d => match assoc "angular_momentum" d with
               | Some (VList l) => flat_map (fun x => match x with VInt z => [z] | _ => [] end) l
               | _ => []
               end
  | _ => []
  end.
Fixpoint insert_pot (p : val) (l : list val) : list val :=
  match l with
  | [] => [p]
  | q :: t => if zlist_leb (pot_am q) (pot_am p) then q :: insert_pot p t else p :: l
  end.
Definition sort_potentials (pots : list val) : res (list val) :=
  let sorted := fold_left (fun acc p => insert_pot p acc) pots [] in
  match rev sorted with
  | [] => fail EIndex
  | lastp :: r => ok (lastp :: rev r)
  end.
