(* Model of the ELECTRON-SHELL part of the Molpro writer / reader pair:
     writers/molpro.py   write_molpro        (harmonic type line, `basis={`, per element two `!` comment lines, per shell the
                                              line `am, SYM , e1, e2, ...` and per general contraction `c, first.last, c...`,
                                              `}`; the ECP part that follows is Model/MolproEcp.v)
     writers/common.py   find_range          (first / last coefficient with float(x) != 0)
     readers/molpro.py   read_molpro, _parse_lines, _read_shell (element_shell_re, contraction_re; ecp_re only to recognise
                                              the line on which _read_ecp would start: the model answers ENotImpl there)
     readers/helpers.py  prune_lines, parse_line_regex_dict (regex.match + capturesdict + _convert_str_int)
     lut.py              element_sym_from_Z, element_name_from_Z, element_Z_from_sym, amint_to_char / amchar_to_int
                         (BOTH with hij=False: l = 7 is `k`, l = 8 is `l`, ...)
     misc.py             contraction_string
     manip.py            create_element_data
   The three regular expressions of the reader are NOT deterministic (lazy and greedy quantifiers over overlapping classes,
   optional commas), so they are modelled by what the `regex` / `re` modules do: a backtracking matcher with the Perl
   priority rules (greedy: longest first, lazy: shortest first, alternatives left to right, first complete match wins), in
   continuation-passing style, over a small regular-expression syntax with named groups that record EVERY capture
   (capturesdict).  Text is a string of bytes; \s \w \d are the ASCII classes (as everywhere in Model/).
   Definitions only; statements in Proofs/MolproDefs.v, proofs in Proofs/MolproSpec.v. *)
From BSE Require Import Model.Val Model.Text Model.Num Model.Basis Model.Manip Model.Matrix Model.Lut Model.Elements
                        Model.Nwchem Model.G94.

(* ------------------------------------------------------------------ *)
(* a backtracking matcher                                              *)
(* ------------------------------------------------------------------ *)

Inductive re : Type :=
| RCls (p : ascii -> bool)        (* one character of a class *)
| RSeq (a b : re)                 (* ab *)
| ROpt (a : re)                   (* a?   greedy *)
| RStar (a : re)                  (* a*   greedy *)
| RLazy (a : re)                  (* a*?  lazy *)
| RCap (g : string) (a : re)      (* (?P<g>a) *)
| REnd.                           (* $ (no MULTILINE) *)
Notation "a ;; b" := (RSeq a b) (at level 61, right associativity).
(* a+ *)
Definition RPlus (a : re) : re := a ;; RStar a.

(* the captures made so far on the current path, oldest first *)
Definition caps := list (string * string).
Definition kont := string -> caps -> option caps.

(* the first n characters *)
Fixpoint take_chars (n : nat) (s : string) : string :=
  match n, s with
  | S k, String c t => String c (take_chars k t)
  | _, _ => EmptyString
  end.

(* a* : one more pass first, leaving the loop second.  f bounds the number of passes; every pass of the loops below
   consumes at least one character, so that String.length s + 1 passes are never reached. *)
Fixpoint star_g (m : string -> caps -> kont -> option caps) (f : nat) (s : string) (c : caps) (k : kont) : option caps :=
  match f with
  | O => k s c
  | S f' => match m s c (fun s' c' => star_g m f' s' c' k) with
            | Some x => Some x
            | None => k s c
            end
  end.
(* a*? : leaving the loop first, one more pass second *)
Fixpoint lazy_g (m : string -> caps -> kont -> option caps) (f : nat) (s : string) (c : caps) (k : kont) : option caps :=
  match f with
  | O => k s c
  | S f' => match k s c with
            | Some x => Some x
            | None => m s c (fun s' c' => lazy_g m f' s' c' k)
            end
  end.

(* rm r s c k: match r at the head of s, then go on with k on what is left; None = no way to succeed *)
Fixpoint rm (r : re) (s : string) (c : caps) (k : kont) {struct r} : option caps :=
  match r with
  | RCls p => match s with String a t => if p a then k t c else None | EmptyString => None end
  | RSeq a b => rm a s c (fun s' c' => rm b s' c' k)
  | ROpt a => match rm a s c k with Some x => Some x | None => k s c end
  | RStar a => star_g (rm a) (S (String.length s)) s c k
  | RLazy a => lazy_g (rm a) (S (String.length s)) s c k
  | RCap g a => rm a s c (fun s' c' => k s' (c' ++ [(g, take_chars (String.length s - String.length s') s)]))
  | REnd => if dollar s then k s c else None
  end.

(* rex.match(line): anchored at the start, anything may follow the match *)
Definition re_match (r : re) (line : string) : option caps := rm r line [] (fun _ c => Some c).
(* r.capturesdict()[g] *)
Definition captures (g : string) (c : caps) : list string :=
  map snd (filter (fun p => String.eqb (fst p) g) c).
Definition matches (r : re) (line : string) : bool := match re_match r line with Some _ => true | None => false end.

(* ------------------------------------------------------------------ *)
(* the regular expressions of readers/molpro.py                        *)
(* ------------------------------------------------------------------ *)

Definition c_space : re := RCls is_space.                                   (* \s *)
Definition c_digit : re := RCls is_digit.                                   (* \d *)
Definition c_word : re := RCls is_word.                                     (* \w *)
Definition c_chr (a : ascii) : re := RCls (Ascii.eqb a).
Definition c_any : re := RCls (fun c => negb (beq c 10)).                   (* .  *)
Definition is_sign (c : ascii) : bool := orb (Ascii.eqb c "-") (Ascii.eqb c "+").
Definition is_expmark (c : ascii) : bool :=
  orb (orb (Ascii.eqb c "d") (Ascii.eqb c "D")) (orb (Ascii.eqb c "e") (Ascii.eqb c "E")).
Definition is_am_letter (c : ascii) : bool := sany (Ascii.eqb c) "spdfghikSPDFGHIK".

(* helpers.floating_re_str = [-+]?\d*\.\d*(?:[dDeE][-+]?\d+)? *)
Definition re_floating : re :=
  ROpt (RCls is_sign) ;; RStar c_digit ;; c_chr "." ;; RStar c_digit ;;
  ROpt (RCls is_expmark ;; ROpt (RCls is_sign) ;; RPlus c_digit).

(* (?:,?\s*(?P<g>F)\s* )+\s*?$ : the common tail of element_shell_re and contraction_re *)
Definition re_number_item (g : string) : re := ROpt (c_chr ",") ;; RStar c_space ;; RCap g re_floating ;; RStar c_space.
Definition re_numbers_tail (g : string) : re := RPlus (re_number_item g) ;; RLazy c_space ;; REnd.

(* element_shell_re = ^\s*?(?P<am>[spdfghikSPDFGHIK])\s*?,?\s*?(?P<sym>\w+)\s*?(?:,?\s*(?P<exp>F)\s* )+\s*?$ *)
Definition element_shell_re : re :=
  RLazy c_space ;; RCap "am" (RCls is_am_letter) ;; RLazy c_space ;; ROpt (c_chr ",") ;; RLazy c_space ;;
  RCap "sym" (RPlus c_word) ;; RLazy c_space ;; re_numbers_tail "exp".

(* contraction_re = ^\s*?c\s*?,?\s*?(?P<start>\d+).(?P<end>\d+)\s*?(?:,?\s*(?P<coeff>F)\s* )+\s*?$ *)
Definition contraction_re : re :=
  RLazy c_space ;; c_chr "c" ;; RLazy c_space ;; ROpt (c_chr ",") ;; RLazy c_space ;;
  RCap "start" (RPlus c_digit) ;; c_any ;; RCap "end" (RPlus c_digit) ;; RLazy c_space ;; re_numbers_tail "coeff".

(* ecp_re = ^\s*ECP\s*,\s*(?P<sym>\w+)\s*,\s*(?P<ncore>\d+)\s*,\s*(?P<lmax>\d+)\s*;\s*$ *)
Definition ecp_re : re :=
  RStar c_space ;; c_chr "E" ;; c_chr "C" ;; c_chr "P" ;; RStar c_space ;; c_chr "," ;; RStar c_space ;;
  RCap "sym" (RPlus c_word) ;; RStar c_space ;; c_chr "," ;; RStar c_space ;;
  RCap "ncore" (RPlus c_digit) ;; RStar c_space ;; c_chr "," ;; RStar c_space ;;
  RCap "lmax" (RPlus c_digit) ;; RStar c_space ;; c_chr ";" ;; RStar c_space ;; REnd.

(* ------------------------------------------------------------------ *)
(* writer                                                              *)
(* ------------------------------------------------------------------ *)

(* float(x) == 0 for the exact decimal value m * 10^e: the correctly rounded double is zero iff |value| <= 2^-1075
   (half of the smallest subnormal; the tie goes to the even neighbour, which is zero) *)
Definition float_is_zero (v : Z * Z) : bool :=
  let '(m, e) := v in
  if (0 <=? e)%Z then Z.eqb m 0 else (Z.abs m * Z.pow 2 1075 <=? Z.pow 10 (- e))%Z.
(* float(x) != 0; ValueError when x is not a number.  (Strings that float() accepts and parse_num does not - `inf`, `nan`,
   `1_0.5` - are outside the modelled domain, as in Model/Num.v.) *)
Definition float_nonzero (x : string) : res bool :=
  match parse_num x with Some v => ok (negb (float_is_zero v)) | None => fail EValue end.

(* list.index(True) *)
Fixpoint index_true (l : list bool) : option nat :=
  match l with
  | [] => None
  | b :: t => if b then Some O else option_map S (index_true t)
  end.

(* writers/common.py find_range: the comprehension is evaluated first (ValueError on the first string that is not a number),
   then coeffs.index(True) twice (ValueError when every coefficient is zero, or when there is none) *)
Definition find_range (coeffs : list string) : res (nat * nat) :=
  do nz <- mapM float_nonzero coeffs;
  match index_true nz, index_true (rev nz) with
  | Some first, Some j => ok (first, (List.length nz - j - 1)%nat)
  | _, _ => fail EValue
  end.

(* c[first:last + 1] *)
Definition slice_incl {A} (first last : nat) (l : list A) : list A := firstn (S last - first) (skipn first l).

(* 'c, {}.{}, {}\n'.format(first + 1, last + 1, ', '.join(c[first:last + 1])) *)
Definition mpro_write_contraction (c : list string) : res string :=
  do fl <- find_range c;
  let '(first, last) := fl in
  ok ("c, " +++ nat_str (S first) +++ "." +++ nat_str (S last) +++ ", " +++ sjoin ", " (slice_incl first last c) +++ nl1).

(* one iteration of `for shell in data['electron_shells']` *)
Definition mpro_write_shell (sym : string) (s : sshell) : res string :=
  do amchar <- amint_to_char (am s) false false;
  do cols <- mapM mpro_write_contraction (coefs s);
  ok (lower amchar +++ ", " +++ sym +++ " , " +++ sjoin ", " (exps s) +++ nl1 +++ String.concat "" cols).

(* '{:20}'.format(s): left aligned in a field of 20, never truncated *)
Definition pad20 (s : string) : string := s +++ sp (20 - String.length s).

(* one iteration of `for z in electron_elements` *)
Definition mpro_write_element (zs : Z * list sshell) : res string :=
  let '(z, shs) := zs in
  do sym <- element_sym_from_Z z false;
  do name <- element_name_from_Z z false;
  do cs <- contraction_string (Some (map nw_cshell shs)) false;
  do body <- mapM (mpro_write_shell (upper sym)) shs;
  ok ("!" +++ nl1 +++ "! " +++ pad20 name +++ " " +++ cs +++ nl1 +++ String.concat "" body).

(* write_molpro up to and including the `}` line.
   harm = 'cartesian' if 'gto_cartesian' in basis['function_types'] else 'spherical'
   els  = [(z, data['electron_shells'])] for the elements that have the key 'electron_shells', in dictionary order, AFTER
            basis = manip.make_general(basis, False, True)   (uncontract_spdf(basis, 0): fused sp/spd shells split into one
                                                              shell per momentum; then ONE shell per element and angular
                                                              momentum holding all its primitives and, as general
                                                              contractions, all its contractions padded with '0.00000000';
                                                              then prune_basis: duplicate primitives merged)
            basis = sort.sort_basis(basis, True)             (shells by momentum, primitives by decreasing exponent,
                                                              contractions by position of their first non-zero row)
   Nothing but harm, the atomic numbers and the shells' momenta, exponents and coefficients is printed: no name, role,
   description, region, function type of a shell.  With no element the text is the harm line alone. *)
Definition mpro_write_electron (harm : string) (els : list (Z * list sshell)) : res string :=
  match els with
  | [] => ok (harm +++ nl1)
  | _ =>
    do parts <- mapM mpro_write_element els;
    ok (harm +++ nl1 +++ "basis={" +++ nl1 +++ String.concat "" parts +++ "}" +++ nl1)
  end.

(* ------------------------------------------------------------------ *)
(* reader                                                              *)
(* ------------------------------------------------------------------ *)

(* x.replace('D', 'E') - the capital letter only (helpers.replace_d, which the other readers use, maps d to e as well) *)
Definition replace_D (s : string) : string := smap (fun c => if Ascii.eqb c "D" then "E"%char else c) s.

(* _convert_str_int on a \w+ capture: int(s) succeeds on decimal digits with single underscores between them.  (am is one
   letter and a floating point capture has a point: never converted; start / end are \d+ : always converted.) *)
Fixpoint int_tail (s : string) (prev_us : bool) : bool :=
  match s with
  | EmptyString => negb prev_us
  | String c t => if is_digit c then int_tail t false
                  else if Ascii.eqb c "_" then andb (negb prev_us) (int_tail t true) else false
  end.
Definition int_like (s : string) : bool :=
  match s with String c t => andb (is_digit c) (int_tail t false) | EmptyString => false end.

(* ['0.0' for _ in range(a, b)] *)
Definition zeros (a b : Z) : list string := repeat "0.0" (Z.to_nat (b - a)).

(* the `while True:` loop of _read_shell on the lines after the shell line: (coefficients, the lines from the first one
   that is not a contraction on).  basis_lines[iline] past the last line is an IndexError. *)
Fixpoint mpro_read_contractions (nprim : nat) (lines : list string) : res (list (list string) * list string) :=
  match lines with
  | [] => fail EIndex
  | l :: t =>
    match re_match contraction_re l with
    | None => ok ([], lines)
    | Some c =>
      match captures "start" c, captures "end" c with
      | [s0], [e0] =>
        let start := digits_val s0 0 in
        let end_ := digits_val e0 0 in
        let cc := map replace_D (captures "coeff" c) in
        (* ncontr = end - start + 1; assert (len(cc) == ncontr) *)
        if negb (Z.eqb (Z.of_nat (List.length cc)) (end_ - start + 1)) then fail EAssert else
        let cc := if (1 <? start)%Z then zeros 1 start ++ cc else cc in
        let cc := if (end_ <? Z.of_nat nprim)%Z then cc ++ zeros end_ (Z.of_nat nprim) else cc in
        if negb (Nat.eqb (List.length cc) nprim) then fail EAssert else
        do r <- mpro_read_contractions nprim t;
        ok (cc :: fst r, snd r)
      | _, _ => fail EAssert                                     (* unreachable: both groups are matched exactly once *)
      end
    end
  end.

(* _read_shell(basis_lines, bs_data, iline) with basis_lines[iline:] = line :: rest.  Gives the new bs_data and
   basis_lines[iline':] for the returned iline' (the first line that is not a contraction).
   bs_data: element -> its 'electron_shells', in insertion order (the Python key is str(Z); the model keeps Z);
   create_element_data at the top and .append at the bottom are Model.Nwchem.append_shell.
   `_func_type` is the module-level 'gto_spherical': read_molpro assigns a LOCAL of the same name when it sees the
   `cartesian` line, so that line has no effect. *)
Definition mpro_read_shell (line : string) (rest : list string) (bs_data : list (Z * list sshell))
  : res (list (Z * list sshell) * list string) :=
  match re_match element_shell_re line with
  | None => fail ERuntime
  | Some c =>
    match captures "am" c, captures "sym" c with
    | [a], [element_sym] =>
      do shell_am <- amchar_to_int a false;
      let exponents := map replace_D (captures "exp" c) in
      (* lut.element_Z_from_sym(int) : AttributeError *)
      if int_like element_sym then fail EOther else
      do element_Z <- element_Z_from_sym element_sym;
      do cr <- mpro_read_contractions (List.length exponents) rest;
      let '(coefficients, rest') := cr in
      let func_type := match shell_am with l :: _ => if (l <? 2)%Z then "gto" else "gto_spherical" | [] => "gto" end in
      ok (append_shell element_Z (mkShell func_type "" shell_am exponents coefficients) bs_data, rest')
    | _, _ => fail EAssert                                       (* unreachable *)
    end
  end.

(* _parse_lines: `while iline < len(basis_lines)`, on basis_lines[iline:].  Every pass moves on by at least one line, so
   fuel = the number of lines is never used up. *)
Fixpoint mpro_parse_lines (fuel : nat) (lines : list string) (bs_data : list (Z * list sshell))
  : res (list (Z * list sshell)) :=
  match lines with
  | [] => ok bs_data
  | l :: rest =>
    match fuel with
    | O => fail EOther
    | S f =>
      if matches element_shell_re l then
        do r <- mpro_read_shell l rest bs_data; mpro_parse_lines f (snd r) (fst r)
      else if matches ecp_re l then fail ENotImpl             (* _read_ecp: Model/MolproEcp.v *)
      else mpro_parse_lines f rest bs_data
    end
  end.

(* readers/molpro.py read_molpro, the electron part of bs_data.  (The loop that looks for `spherical` / `cartesian` only sets
   a local variable.  For an empty file Python returns bs_data alone, otherwise (bs_data, other_data) with other_data = {};
   the model gives bs_data in both cases.) *)
Definition mpro_read_electron (lines : list string) : res (list (Z * list sshell)) :=
  let basis_lines := prune_lines lines "!*" true true in
  match basis_lines with
  | [] => ok []
  | _ => mpro_parse_lines (List.length basis_lines) basis_lines []
  end.

Definition mpro_roundtrip (harm : string) (els : list (Z * list sshell)) : res (list (Z * list sshell)) :=
  do t <- mpro_write_electron harm els; mpro_read_electron (splitlines t).
