(* Model of the `ricdwrap` writer (there is no reader for this format):
     writers/ricdwrap.py   write_ricdwrap   (an OpenMolcas input that generates the acCD auxiliary basis: a fixed `&GATEWAY`
                                             header, then per element the INLINE Molcas form `Basis set` ... `End of basis set`
                                             with one extra line, the position of the nucleus)
     printing.py           write_matrix([exponents], [17]) and write_matrix(coefficients, point_places)  (no convert_exp)
     lut.py                element_name_from_Z, element_sym_from_Z(z, normalize=True), amint_to_char (hij=False)
     misc.py               contraction_string, max_am
   The loop body is, statement for statement, the one of writers/molcas.py write_molcas (Model/Molcas.v: mc_write_shell,
   mc_max_am, mc_cartesian are reused), except that
     - the loop runs over ALL elements of the dictionary; for an element without the key 'electron_shells' (an ECP-only
       element) the charge line and the shells are left out (`if has_electron:`), everything else is printed;
     - 'ecp_potentials' / 'ecp_electrons' are never looked at: NOTHING of an ECP is printed, and the charge is
       `nelectrons = int(z)` whatever the ECP removes (the source says: "should be z - number of ecp electrons");
     - the line `Sym 0.0 0.0 {:.1f}` with 10.0 * (int(z) - 1) follows the shells.
   As in Model/Molcas.v the iteration order of the Python SET of cartesian letters is a parameter (sord), text is a string of
   bytes and the character classes are the ASCII ones.
   Definitions only; statements in Proofs/RicdwrapDefs.v, proofs in Proofs/RicdwrapSpec.v. *)
From BSE Require Import Model.Val Model.Text Model.Num Model.Basis Model.Manip Model.Matrix Model.Lut Model.Elements
                        Model.Nwchem Model.NwchemEcp Model.Molcas.

(* s = '''\n&GATEWAY\n  ricd\n  accd\n  cdthreshold=1.0d-4\n''' *)
Definition ricdwrap_header : string :=
  nl1 +++ "&GATEWAY" +++ nl1 +++ "  ricd" +++ nl1 +++ "  accd" +++ nl1 +++ "  cdthreshold=1.0d-4" +++ nl1.

(* '{:.1f}'.format(10.0 * (int(z) - 1)): the product is an integer below 2^53 for every z of the element table, so the
   text is the integer followed by `.0` (z = 1 gives 0.0) *)
Definition ricdwrap_zpos (z : Z) : string := Z_to_string (10 * (z - 1)) +++ ".0".

(* one iteration of `for z, data in basis['elements'].items()`;  d = Some data['electron_shells'] when the key is there.
   Order of the statements (= order in which an exception can come): element_name_from_Z, element_sym_from_Z,
   contraction_string, [max_am, the shells], the nucleus line, the cartesian letters. *)
Definition ricdwrap_write_element (sord : list string -> list string) (zd : Z * option (list sshell)) : res string :=
  let '(z, d) := zd in
  do name <- element_name_from_Z z false;
  do sym <- element_sym_from_Z z true;
  do cs <- contraction_string (option_map (map nw_cshell) d) false;
  do shells <- match d with
               | None => ok ""
               | Some shs =>
                 do mx <- mc_max_am shs;
                 do body <- mapM (mc_write_shell true) shs;
                 ok (rjust 7 (Z_to_string z) +++ ".00   " +++ Z_to_string mx +++ nl1 +++ String.concat "" body)
               end;
  do cart <- match d with None => ok [] | Some shs => mc_cartesian sord shs end;
  ok ("Basis set" +++ nl1 +++
      "* " +++ upper name +++ "  " +++ cs +++ nl1 +++
      " " +++ sym +++ "    / inline" +++ nl1 +++
      shells +++
      sym +++ " 0.0 0.0 " +++ ricdwrap_zpos z +++ nl1 +++
      (match cart with [] => "" | _ => "cartesian " +++ sjoin " " cart +++ nl1 end) +++
      "End of basis set" +++ nl1 +++ nl1).

(* write_ricdwrap(basis), the text it returns.
   INPUT: els = [(int(z), data.get('electron_shells'))] for ALL elements of basis['elements'] in dictionary order, taken from
   the basis AFTER the writer's two normalisation calls
       basis = manip.make_general(basis, False, True)   (uncontract_spdf(basis, 0) first: every fused shell is split; then ONE
                                                         shell per angular momentum holding every primitive of that momentum
                                                         and one general contraction per original contraction, padded with
                                                         the literal '0.00000000'; region ''; then prune_basis)
       basis = sort.sort_basis(basis, False)            (elements by Z, shells by momentum, primitives by exponent)
   sord = the iteration order of the set of cartesian letters (depends on PYTHONHASHSEED when there are two or more).
   Nothing else of the dictionary is printed: no name, no description, no ECP. *)
Definition ricdwrap_write_all (sord : list string -> list string) (els : list (Z * option (list sshell))) : res string :=
  do parts <- mapM (ricdwrap_write_element sord) els;
  ok (ricdwrap_header +++ String.concat "" parts).
