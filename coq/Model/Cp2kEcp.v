(* Model of the ECP part of the CP2K writer and of the whole file (electron part + ECP part):
     writers/cp2k.py     write_cp2k      (the `if ecp_elements:` part; the electron part is Model/Cp2k.v)
     readers/cp2k.py     read_cp2k       - it has NO code for the ECP part: the whole text goes through the electron reader
     printing.py         write_matrix([rexponents, gexponents, *coefficients], [0, 9, 32])
   The record `epot`, the order of the potentials (sorted by momentum, the highest moved to the front), am_first,
   ecp_max_am, ecp_cols and leftpad_check are those of Model/NwchemEcp.v: the loop over the potentials is, statement for
   statement, the one of the NWChem writer; only the point places differ.
   Definitions only; statements in Proofs/Cp2kEcpDefs.v, proofs in Proofs/Cp2kEcpSpec.v. *)
From BSE Require Import Model.Val Model.Text Model.Basis Model.Manip Model.Matrix Model.Lut Model.Elements Model.Nwchem
                        Model.NwchemEcp Model.Cp2k.

Definition cp2k_ecp_point_places : list Z := [0; 9; 32]%Z.

(* the body of `for pot in ecp_list` *)
Definition cp2k_write_pot (sym : string) (max_ecp_am : Z) (p : epot) : res string :=
  do amchar <- amint_to_char (p_am p) false false;
  do a0 <- am_first p;
  let head := if Z.eqb a0 max_ecp_am then sym +++ " ul" +++ nl1 else sym +++ " " +++ upper amchar +++ nl1 in
  do _ <- leftpad_check (ecp_cols p) cp2k_ecp_point_places;
  do m <- write_matrix (ecp_cols p) cp2k_ecp_point_places false;
  ok (head +++ m).

(* one iteration of `for z in ecp_elements`: (Z, (data['ecp_electrons'], data['ecp_potentials'])) *)
Definition cp2k_write_ecp_element (e : Z * (Z * list epot)) : res string :=
  let '(z, (nelec, pots)) := e in
  do sym <- element_sym_from_Z z true;
  do mx <- ecp_max_am pots;
  do ecp_list <- ecp_order pots;
  do body <- mapM (cp2k_write_pot sym mx) ecp_list;
  ok (sym +++ " nelec " +++ Z_to_string nelec +++ nl1 +++ String.concat "" body).

(* bsname = basis['name'].replace(' ', '_') + '_ECP'   (replacing one character by one character: character by character) *)
Definition cp2k_ecp_name (bsname : string) : string :=
  smap (fun c => if Ascii.eqb c " " then "_"%char else c) bsname +++ "_ECP".

(* `if ecp_elements:` ... ; ecps = the elements that have 'ecp_potentials', in dictionary order (after sort_basis, which
   sorts the potentials - the writer sorts them again).  Nothing at all is written when there is none. *)
Definition cp2k_write_ecp (bsname : string) (ecps : list (Z * (Z * list epot))) : res string :=
  match ecps with
  | [] => ok ""
  | _ =>
    do parts <- mapM cp2k_write_ecp_element ecps;
    ok (nl1 +++ nl1 +++ "## Effective core potentials" +++ nl1 +++ cp2k_ecp_name bsname +++ nl1 +++
        String.concat "" parts +++ "END " +++ cp2k_ecp_name bsname +++ nl1)
  end.

(* write_cp2k after sort_basis: els / ecps are the two views of basis['elements'] *)
Definition cp2k_write_all (bsname : string) (els : list (Z * list sshell)) (ecps : list (Z * (Z * list epot))) : res string :=
  do a <- cp2k_write_electron bsname els;
  do b <- cp2k_write_ecp bsname ecps;
  ok (a +++ b).

(* read_cp2k on the whole text: there is nothing but Model.Cp2k.cp2k_read_electron *)
Definition cp2k_roundtrip_all (bsname : string) (els : list (Z * list sshell)) (ecps : list (Z * (Z * list epot)))
  : res (list (Z * list sshell)) :=
  do t <- cp2k_write_all bsname els ecps; cp2k_read_electron (splitlines t).
