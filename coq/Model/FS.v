(* Canonical form of the function set of a list of shells, on exact decimal values.
   Used (extracted) by the harness whenever "the same basis functions" is compared. *)
From BSE Require Import Model.Val Model.Num Model.Basis.

Definition dnum := (Z * Z)%type.                   (* canonical mantissa, exponent *)
Definition dpair := (dnum * dnum)%type.

Definition dnum_cmp (a b : dnum) : comparison := dec_compare a b.
Definition dpair_cmp (a b : dpair) : comparison :=
  match dnum_cmp (fst a) (fst b) with Eq => dnum_cmp (snd a) (snd b) | c => c end.

Section SortDedupe.
  Variable A : Type.
  Variable cmp : A -> A -> comparison.
  Fixpoint ins (x : A) (l : list A) : list A :=
    match l with
    | [] => [x]
    | y :: t => match cmp x y with Lt => x :: l | Eq => l | Gt => y :: ins x t end
    end.
  Definition sort_uniq (l : list A) : list A := fold_right ins [] l.
End SortDedupe.
Arguments ins {A}.
Arguments sort_uniq {A}.

Fixpoint list_cmp {A} (cmp : A -> A -> comparison) (a b : list A) : comparison :=
  match a, b with
  | [], [] => Eq
  | [], _ :: _ => Lt
  | _ :: _, [] => Gt
  | x :: a', y :: b' => match cmp x y with Eq => list_cmp cmp a' b' | c => c end
  end.

Definition ccfun := (Z * list dpair)%type.
Definition ccfun_cmp (a b : ccfun) : comparison :=
  match Z.compare (fst a) (fst b) with Eq => list_cmp dpair_cmp (snd a) (snd b) | c => c end.

(* pairs with an unparsable number are kept out of the canonical form and counted *)
Definition canon_pairs (ps : list (string * string)) : list dpair * nat :=
  fold_right (fun p acc =>
                match canon_num (fst p), canon_num (snd p) with
                | Some x, Some c => if Z.eqb (fst c) 0 then acc else (ins dpair_cmp (x, c) (fst acc), snd acc)
                | _, _ => (fst acc, S (snd acc))
                end) ([], O) ps.

Definition canon_cfun (f : cfun string) : ccfun * nat :=
  let '(ps, bad) := canon_pairs (snd f) in ((fst f, ps), bad).

Definition canonFS (shs : list sshell) : list ccfun * nat :=
  fold_right (fun f acc => let '(c, bad) := canon_cfun f in (ins ccfun_cmp c (fst acc), bad + snd acc)%nat)
             ([], O) (shells_cfuns shs).

Definition enc_dnum (d : dnum) : val := VList [VInt (fst d); VInt (snd d)].
Definition enc_ccfun (c : ccfun) : val :=
  VList [VInt (fst c); VList (map (fun p => VList [enc_dnum (fst p); enc_dnum (snd p)]) (snd c))].
Definition enc_canonFS (r : list ccfun * nat) : val :=
  VDict [("functions", VList (map enc_ccfun (fst r))); ("unparsable", VNat (snd r))].
