(* Model of the ECP part of the deMon2k writer / reader pair, and of the whole file (electron part + ECP part):
     writers/demon2k.py  write_demon2k      (the `ECP ... END` part; the electron part is Model/Demon2k.v)
     readers/demon2k.py  _parse_ecp_lines, read_demon2k (ecp_start_re, ecp_entry_re, ecp_shell_re, ecp_data_re, basis_end_re)
     readers/helpers.py  partition_lines, parse_line_regex
     printing.py         write_matrix([rexponents, gexponents, *coefficients], [0, 9, 32])
     lut.py              element_sym_from_Z(z, True), element_Z_from_sym, amint_to_char (hij=False on both sides)
     manip.py            create_element_data (key_exist_ok=False)
   The writer's ECP part is that of write_nwchem (Model/NwchemEcp.v: record epot, ecp_order, ecp_max_am, leftpad_check,
   ecp_cols) with other point places.  The reader is different: the potentials are NOT identified by their letters; the first
   block must be called `ul` and gets the momentum (number of blocks - 1), block number i gets i - 1 and its letter is only
   compared with that (assert).  Definitions only; statements in Proofs/Demon2kEcpDefs.v, proofs in Proofs/Demon2kEcpSpec.v. *)
From BSE Require Import Model.Val Model.Text Model.Basis Model.Manip Model.Matrix Model.Lut Model.Elements Model.Nwchem
                        Model.NwchemEcp Model.Turbomole Model.Demon2k.

(* ------------------------------------------------------------------ *)
(* writer                                                              *)
(* ------------------------------------------------------------------ *)
Definition d2k_ecp_point_places : list Z := [0; 9; 32]%Z.

(* the body of `for pot in ecp_list` *)
Definition d2k_write_pot (sym : string) (max_ecp_am : Z) (p : epot) : res string :=
  do amchar <- amint_to_char (p_am p) false false;
  do a0 <- am_first p;
  let head := if Z.eqb a0 max_ecp_am then sym +++ " ul" +++ nl1 else sym +++ " " +++ upper amchar +++ nl1 in
  do _ <- leftpad_check (ecp_cols p) d2k_ecp_point_places;
  do m <- write_matrix (ecp_cols p) d2k_ecp_point_places false;
  ok (head +++ m).

(* one iteration of `for z in ecp_elements`: (Z, (data['ecp_electrons'], data['ecp_potentials'])) *)
Definition d2k_write_ecp_element (e : Z * (Z * list epot)) : res string :=
  let '(z, (nelec, pots)) := e in
  do sym <- element_sym_from_Z z true;
  do mx <- ecp_max_am pots;
  do ecp_list <- ecp_order pots;
  do body <- mapM (d2k_write_pot sym mx) ecp_list;
  ok (sym +++ " nelec " +++ Z_to_string nelec +++ nl1 +++ String.concat "" body).

(* `if ecp_elements:` : nothing at all - and no END - when no element has an ECP *)
Definition d2k_write_ecp (ecps : list (Z * (Z * list epot))) : res string :=
  match ecps with
  | [] => ok ""
  | _ =>
    do parts <- mapM d2k_write_ecp_element ecps;
    ok (nl1 +++ nl1 +++ "ECP" +++ nl1 +++ String.concat "" parts +++ "END" +++ nl1)
  end.

(* write_demon2k after its three normalisation calls: els / ecps are the two views of basis['elements'] (els as in
   Model/Demon2k.v; sort_basis also sorts the potentials of an element by angular momentum) *)
Definition d2k_write_all (spherical : bool) (bsname : string) (els : list (Z * (Z * list sshell)))
                         (ecps : list (Z * (Z * list epot))) : res string :=
  do a <- d2k_write_electron spherical bsname els;
  do b <- d2k_write_ecp ecps;
  ok (a +++ b).

(* ------------------------------------------------------------------ *)
(* reader: the regular expressions                                     *)
(* ------------------------------------------------------------------ *)
(* ecp_shell_re = ^([A-Za-z]+)\s+([A-Za-z]+)\s*$ : two words, the first at the very beginning *)
Definition match_ecp_shell (l : string) : option (string * string) :=
  if negb (starts_nonspace l) then None else
  match tokens_acc l "" with
  | [a; b] => if andb (sall is_alpha a) (sall is_alpha b) then Some (a, b) else None
  | _ => None
  end.

(* ecp_data_re = ^\s*(\d+)\s+(F)\s+(F)\s*$ with F = helpers.floating_re_str: three tokens; parse_line_regex turns the first
   into an int and leaves the other two as they are (no replace_d here) *)
Definition match_ecp_data (l : string) : option (Z * string * string) :=
  match tokens_acc l "" with
  | [r; g; c] => if andb (isdecimal r) (andb (is_floating g) (is_floating c)) then Some (digits_val r 0, g, c) else None
  | _ => None
  end.

(* ------------------------------------------------------------------ *)
(* reader: one element                                                 *)
(* ------------------------------------------------------------------ *)
(* [ecp_am, [[rexp, gexp, gcoeff], ...]] *)
Definition amblock := (string * list (Z * string * string))%type.

Definition flush_block (blocks : list amblock) (cur : option amblock) : list amblock :=
  match cur with Some b => blocks ++ [b] | None => blocks end.

(* the `while iline < len(element_lines)` loop and the `if current_block is not None` after it *)
Fixpoint d2k_am_loop (element_sym : string) (lines : list string) (blocks : list amblock) (cur : option amblock)
  : res (list amblock) :=
  match lines with
  | [] => ok (flush_block blocks cur)
  | l :: t =>
    match match_ecp_shell l with
    | Some (ecp_element_sym, ecp_am) =>
      if negb (String.eqb ecp_element_sym element_sym) then fail ERuntime
      else d2k_am_loop element_sym t (flush_block blocks cur) (Some (ecp_am, []))
    | None =>
      match match_ecp_data l with
      | Some row =>
        match cur with
        | Some (a, rows) => d2k_am_loop element_sym t blocks (Some (a, rows ++ [row]))
        | None => fail EType                                  (* current_block[1] with current_block = None *)
        end
      | None => if is_basis_end l then ok (flush_block blocks cur)          (* break *)
                else fail ERuntime                                           (* 'Unexpected format of ECP block!' *)
      end
    end
  end.

(* the momentum of block number iblock: "First entry is highest projector, then S, P, ..." *)
Definition d2k_block_am (nblocks iblock : nat) (name : string) : res Z :=
  match iblock with
  | O => if String.eqb name "ul" then ok (Z.of_nat nblocks - 1)%Z else fail EAssert
  | S k =>
    let current_am := Z.of_nat k in
    do ch <- amint_to_char [current_am] false false;
    match ch with
    | String c _ => if String.eqb (lower (String c "")) (lower name) then ok current_am else fail EAssert
    | EmptyString => fail EIndex
    end
  end.

Fixpoint d2k_block_pots (nblocks iblock : nat) (blocks : list amblock) : res (list epot) :=
  match blocks with
  | [] => ok []
  | (name, rows) :: t =>
    do a <- d2k_block_am nblocks iblock name;
    do rest <- d2k_block_pots nblocks (S iblock) t;
    ok (mkEpot "scalar_ecp" [a] (map (fun x => fst (fst x)) rows) (map (fun x => snd (fst x)) rows) [map snd rows] :: rest)
  end.

(* the body of `for element_lines in element_ecps`.  The ECP keys of bs_data: NwchemEcp.ecp_state; here an element of the
   state always has both keys ('ecp_potentials' is created, 'ecp_electrons' assigned at once) *)
Definition d2k_parse_ecp_element (element_lines : list string) (d : ecp_state) : res ecp_state :=
  match element_lines with
  | [] => fail EIndex
  | first :: rest =>
    match match_ecp_entry first with
    | None => ok d                                                         (* "Check that this is an ECP block": continue *)
    | Some (element_sym, ecp_electrons) =>
      if Nat.ltb (List.length element_lines) 3 then ok d else                (* "Block must have at least three lines": continue *)
      do element_Z <- element_Z_from_sym element_sym;
      if existsb (Z.eqb element_Z) (map fst d) then fail ERuntime else       (* create_element_data: the key exists *)
      do amblocks <- d2k_am_loop element_sym rest [] None;
      do pots <- d2k_block_pots (List.length amblocks) 0 amblocks;
      ok (d ++ [(element_Z, (Some ecp_electrons, pots))])
    end
  end.

Fixpoint d2k_parse_ecp_elements (blocks : list (list string)) (d : ecp_state) : res ecp_state :=
  match blocks with
  | [] => ok d
  | b :: t => do d' <- d2k_parse_ecp_element b d; d2k_parse_ecp_elements t d'
  end.

(* readers/demon2k.py _parse_ecp_lines(ecp_lines, bs_data) *)
Definition d2k_parse_ecp_lines (ecp_lines : list string) (d : ecp_state) : res ecp_state :=
  do element_ecps <- partition_lines ecp_lines (fun l => ok (is_ecp_entry l)) true 1 0 0;
  d2k_parse_ecp_elements element_ecps d.

Fixpoint d2k_ecp_sections (sections : list (list string)) (d : ecp_state) : res ecp_state :=
  match sections with
  | [] => ok d
  | s :: t => do d' <- d2k_parse_ecp_lines s d; d2k_ecp_sections t d'
  end.

(* ------------------------------------------------------------------ *)
(* reader: the whole file                                              *)
(* ------------------------------------------------------------------ *)
(* read_demon2k.  bs_data as in Model/NwchemEcp.v (nw_state): the keys in insertion order, the 'electron_shells', the ECP
   keys.  The orbital sections come first, so the elements with electron shells are the first keys.  Every part of the file
   cut at the `ECP` lines (also the part before the first one) is searched for `sym nelec n` blocks. *)
Definition d2k_read_all_parts (lines : list string) : res nw_state :=
  let basis_lines := prune_lines lines "#" true true in
  match basis_lines with
  | [] => ok ([], [], [])
  | _ =>
    do em <- d2k_read_orbitals basis_lines;
    do ecp_sections <- partition_lines basis_lines (fun l => ok (is_ecp_start l)) true 3 0 0;
    do pm <- d2k_ecp_sections ecp_sections [];
    do _ <- d2k_end_check basis_lines;
    ok (add_keys (map fst em) (map fst pm), em, pm)
  end.

Definition d2k_read_all (lines : list string) : res (list (Z * nw_el)) :=
  do st <- d2k_read_all_parts lines; ok (nw_assemble st).

Definition d2k_roundtrip_all (spherical : bool) (bsname : string) (els : list (Z * (Z * list sshell)))
                             (ecps : list (Z * (Z * list epot))) : res (list (Z * nw_el)) :=
  do t <- d2k_write_all spherical bsname els ecps; d2k_read_all (splitlines t).
