(* Model of the three writers of writers/g94.py that are variations of write_g94 and have NO reader of their own:
     write_g94lib(basis) = _write_g94_common(basis, False, False, True)     format 'gaussian94lib'
     write_xtron(basis)  = _write_g94_common(basis, True,  False, False)    format 'xtron'
     write_psi4(basis)   = '****\n' + _write_g94_common(basis, False, True, False)     format 'psi4'
   (_write_g94_common(basis, add_harm_type, psi4_am, system_library)).
     printing.py  write_matrix(..., convert_exp=True) (Model.Matrix), _determine_leftpad (Model.G94Ecp.matrix_precheck)
     lut.py       element_sym_from_Z(z, True) / element_sym_from_Z(z).upper(), amint_to_char(am, hij=True)
   What the definitions below return is what the WRITER FUNCTION returns.  write_formatted_basis_str adds afterwards
   (Model.Header.assemble): the commented header (for gaussian94lib glued to the text without an empty line in between) and,
   for psi4, the line `spherical` / `cartesian` plus an empty line in front of everything, header included.
   INPUT (both lists are views of ONE dictionary basis['elements'], AFTER the three normalisation calls that
   _write_g94_common makes first, in this order:
       basis = manip.uncontract_general(basis, True)
       basis = manip.uncontract_spdf(basis, 1, False)
       basis = sort.sort_basis(basis, False)                                                        ):
     els  = [(z, data['electron_shells'])                        for the elements that have the key 'electron_shells']
     ecps = [(z, (data['ecp_electrons'], data['ecp_potentials'])) for the elements that have the key 'ecp_potentials']
   both in dictionary order.  An element may be in both lists, in one, or - then NOTHING is written for it - in none.
   The electron blocks reuse Model.G94.g94_write_shell (which has the three flags already), the ECP blocks are
   Model.G94Ecp.g94_write_ecp unchanged (record gpot / type gecp of Model.G94Ecp).
   Text is a string of bytes.  Definitions only; statements in Proofs/G94FamilyDefs.v, proofs in Proofs/G94FamilySpec.v. *)
From BSE Require Import Model.Val Model.Text Model.Num Model.Basis Model.Manip Model.Matrix Model.Lut Model.Elements
                        Model.Sort Model.Nwchem Model.G94 Model.G94Ecp.

(* [exponents, *coefficients] *)
Definition g94f_shell_mat (s : sshell) : list (list cell) := map CStr (exps s) :: map (map CStr) (coefs s).

(* one iteration of `for shell in data['electron_shells']`.  The order of the possible exceptions is the one of the code:
   lut.amint_to_char (IndexError), then - inside printing.write_matrix, before anything is printed - _determine_leftpad
   column by column (ValueError for a number without a decimal point, even in a part of a column that zip() would cut
   off: Model.G94Ecp.matrix_precheck); there are as many point places as columns.  After that Model.G94.g94_write_shell
   (the header line '{:4} {}   1.00{}' and the matrix) cannot fail any more. *)
Definition g94f_write_shell (add_harm_type psi4_am : bool) (s : sshell) : res string :=
  do _ <- amint_to_char (am s) true false;
  do _ <- matrix_precheck (g94f_shell_mat s) (nw_point_places (S (List.length (coefs s))));
  g94_write_shell add_harm_type psi4_am s.

(* one iteration of `for z in electron_elements`: '{}{}     0\n'.format('-' if system_library else '', sym) *)
Definition g94f_write_element (add_harm_type psi4_am system_library : bool) (zs : Z * list sshell) : res string :=
  let '(z, shs) := zs in
  do sym <- element_sym_from_Z z true;
  do body <- mapM (g94f_write_shell add_harm_type psi4_am) shs;
  ok ((if system_library then "-" else "") +++ sym +++ "     0" +++ nl1 +++ String.concat "" body +++ "****" +++ nl1).

(* the `if electron_elements:` part *)
Definition g94f_write_electron (add_harm_type psi4_am system_library : bool) (els : list (Z * list sshell)) : res string :=
  do parts <- mapM (g94f_write_element add_harm_type psi4_am system_library) els;
  ok (String.concat "" parts).

(* _write_g94_common after its normalisation calls: all electron blocks, then (if there is any ECP) an empty line and all
   ECP blocks.  The ECP part does not depend on the three flags: the symbol is upper case WITHOUT a dash also in the system
   library form, momenta >= 7 keep their letter also for psi4. *)
Definition g94f_write_common (add_harm_type psi4_am system_library : bool)
                             (els : list (Z * list sshell)) (ecps : list (Z * gecp)) : res string :=
  do a <- g94f_write_electron add_harm_type psi4_am system_library els;
  do b <- g94_write_ecp ecps;
  ok (a +++ b).

(* write_g94lib *)
Definition g94lib_write_all (els : list (Z * list sshell)) (ecps : list (Z * gecp)) : res string :=
  g94f_write_common false false true els ecps.

(* write_xtron: ' c' after the scale factor of a shell whose function_type is exactly 'gto_cartesian' *)
Definition xtron_write_all (els : list (Z * list sshell)) (ecps : list (Z * gecp)) : res string :=
  g94f_write_common true false false els ecps.

(* write_psi4: `L=<l>` instead of the letter for a shell with ONE momentum l >= 7; a line of asterisks first (also when
   there is nothing else) *)
Definition psi4_write_all (els : list (Z * list sshell)) (ecps : list (Z * gecp)) : res string :=
  do t <- g94f_write_common false true false els ecps;
  ok ("****" +++ nl1 +++ t).
