(* Model of the Crystal writer (there is no reader for this format):
     writers/crystal.py   write_crystal
     printing.py          write_matrix([exponents, *coefficients], point_places, convert_exp=True)   (e / E -> D)
   The writer prints, element by element in dictionary order: `NAT NSHELL` (NAT = Z, or Z + 200 for an element with an ECP),
   for an element with an ECP the `INPUT` block (effective charge Z - ecp_electrons, the number of terms per projector s p d f g
   and one line `gaussian-exponent coefficient r-exponent` per term, the numbers as they are: str.format on the strings),
   then per shell a descriptor `0 LAT NG 0 1.0` and the table of primitives; the text ends with `99 0`.
   Quirks that the model follows:
     - `if nat >= 99: continue` : an element with Z >= 99 is left out WITHOUT any message (the `raise` is commented out);
     - `len(data['electron_shells'])` is evaluated for EVERY element with Z < 99: an element that has an ECP only (no key
       'electron_shells') is a KeyError - the later test `if z in electron_elements` comes too late;
     - only potentials whose angular momentum is exactly [0] .. [4] are printed (`k['angular_momentum'] == [am]`), a potential
       with a higher first momentum is a RuntimeError; only the FIRST row of a potential's coefficients is printed;
     - the ECP numbers do NOT go through write_matrix: their exponent marker is not converted, the electron numbers are
       (convert_exp=True), so one file can carry both E and D.
   Text is a string of bytes, character classes are the ASCII ones, as everywhere in Model/.
   Definitions only; statements in Proofs/CrystalWDefs.v, proofs in Proofs/CrystalWSpec.v. *)
From BSE Require Import Model.Val Model.Text Model.Basis Model.Manip Model.Matrix Model.Lut Model.Elements Model.Nwchem
                        Model.NwchemEcp.

(* ------------------------------------------------------------------ *)
(* electron shells                                                     *)
(* ------------------------------------------------------------------ *)

(* shell type:  len(am) == 2: RuntimeError unless am == [0, 1], lat = 1;  len(am) == 1: lat = 0 if am[0] == 0 else am[0] + 1;
   any other length: RuntimeError *)
Definition crystal_lat (a : list Z) : res Z :=
  match a with
  | [a0; a1] => if orb (negb (Z.eqb a0 0)) (negb (Z.eqb a1 1)) then fail ERuntime else ok 1%Z
  | [a0] => ok (if Z.eqb a0 0 then 0 else a0 + 1)%Z
  | _ => fail ERuntime
  end.

(* the body of `for shell in data['electron_shells']`:
     s += '{} {} {} {} {:.1f}\n'.format(ityb, lat, ng, che, scal)        ityb = 0, che = 0, scal = 1 -> `1.0`
     point_places = [8 * i + 15 * (i - 1) for i in range(1, ncol + 1)]    ncol = len(coefficients) + 1
     s += printing.write_matrix([exponents, *coefficients], point_places, convert_exp=True)
   leftpad_check (Model/NwchemEcp.v) is the first statement of write_matrix *)
Definition crystal_write_shell (s : sshell) : res string :=
  do lat <- crystal_lat (am s);
  let ncol := S (List.length (coefs s)) in
  let cols := map CStr (exps s) :: map (map CStr) (coefs s) in
  do _ <- leftpad_check cols (nw_point_places ncol);
  do m <- write_matrix cols (nw_point_places ncol) true;
  ok ("0 " +++ Z_to_string lat +++ " " +++ nat_str (List.length (exps s)) +++ " 0 1.0" +++ nl1 +++ m).

(* ------------------------------------------------------------------ *)
(* ECP                                                                 *)
(* ------------------------------------------------------------------ *)

(* for i in range(len(exps)): ecp_entries += '{} {} {}\n'.format(exps[i], coefs[i], rexp[i])
   (IndexError when there are fewer coefficients or r exponents than gaussian exponents; surplus ones are not printed) *)
Fixpoint crystal_terms (g c : list string) (r : list Z) : res (list string) :=
  match g with
  | [] => ok []
  | gi :: g' =>
    match c with
    | [] => fail EIndex
    | ci :: c' =>
      match r with
      | [] => fail EIndex
      | ri :: r' => do t <- crystal_terms g' c' r'; ok ((gi +++ " " +++ ci +++ " " +++ Z_to_string ri) :: t)
      end
    end
  end.

(* the body of `for term in am_ecp`: coefs = term['coefficients'][0] comes before the loop *)
Definition crystal_pot_terms (p : epot) : res (list string) :=
  match p_coef p with
  | [] => fail EIndex
  | c0 :: _ => crystal_terms (p_gexp p) c0 (p_rexp p)
  end.

(* one iteration of `for am in range(5)`: am_ecp = [k for k in data['ecp_potentials'] if k['angular_momentum'] == [am]];
   the lines of its terms (without the line ends) *)
Definition crystal_am_block (pots : list epot) (a : Z) : res (list string) :=
  do ts <- mapM crystal_pot_terms (filter (fun p => list_Z_eqb (p_am p) [a]) pots);
  ok (concat ts).

(* `if z in ecp_elements:` ...
     Zeff = int(z) - data['ecp_electrons'];  max_ecp_am = max([x['angular_momentum'][0] for x in data['ecp_potentials']])
     RuntimeError if max_ecp_am > 4;  the five blocks;  M = 0
     s += 'INPUT\n';  s += '{:.0f} {} {} {} {} {} {}\n'.format(Zeff, M, *num_terms);  s += ecp_entries
   '{:.0f}' of the int Zeff is its decimal form (also when it is negative) *)
Definition crystal_write_ecp (z : Z) (e : Z * list epot) : res string :=
  let '(nelec, pots) := e in
  do mx <- ecp_max_am pots;
  if (4 <? mx)%Z then fail ERuntime else
  do blocks <- mapM (crystal_am_block pots) [0; 1; 2; 3; 4]%Z;
  ok ("INPUT" +++ nl1 +++
      Z_to_string (z - nelec) +++ " 0 " +++ sjoin " " (map (fun b => nat_str (List.length b)) blocks) +++ nl1 +++
      String.concat "" (map (fun l => l +++ nl1) (concat blocks))).

(* ------------------------------------------------------------------ *)
(* element, file                                                       *)
(* ------------------------------------------------------------------ *)

(* one iteration of `for z, data in basis['elements'].items()`:
     e = (int(z), (data.get('electron_shells'), (data['ecp_electrons'], data['ecp_potentials']) if 'ecp_potentials' in data)) *)
Definition crystal_write_element (e : Z * (option (list sshell) * option (Z * list epot))) : res string :=
  let '(z, (d, ecp)) := e in
  if (99 <=? z)%Z then ok "" else
  let nat := match ecp with Some _ => (z + 200)%Z | None => z end in
  match d with
  | None => fail EKey                                                   (* data['electron_shells'] *)
  | Some shs =>
    do ecptext <- match ecp with None => ok "" | Some e => crystal_write_ecp z e end;
    do body <- mapM crystal_write_shell shs;
    ok (Z_to_string nat +++ " " +++ nat_str (List.length shs) +++ nl1 +++ ecptext +++ String.concat "" body)
  end.

(* write_crystal(basis), the text it returns.
   INPUT: ONE entry per element of basis['elements'], in dictionary order, taken from the basis AFTER the writer's three
   normalisation calls
       basis = manip.uncontract_general(basis, True)     (a shell with ONE momentum and several general contractions becomes one
                                                          shell per contraction; fused shells are left alone; ends with
                                                          prune_basis)
       basis = manip.uncontract_spdf(basis, 1, False)    (max_am = 1: a fused shell keeps its momenta <= 1 - sp stays fused -, every
                                                          higher momentum becomes a shell of its own; ends with prune_basis)
       basis = sort.sort_basis(basis, False)             (elements by Z, shells by momentum, primitives by exponent, potentials by
                                                          momentum)
   each entry being (Z, (Some electron_shells | None, Some (ecp_electrons, ecp_potentials) | None)).
   Nothing else of the dictionary is printed (no name, no description, no function types: Crystal has no cartesian switch). *)
Definition crystal_write_all (els : list (Z * (option (list sshell) * option (Z * list epot)))) : res string :=
  do parts <- mapM crystal_write_element els;
  ok (String.concat "" parts +++ "99 0" +++ nl1).
