(* Model of curate/add_basis.py over the data directory as a finite map path -> parsed JSON (no crashes, no concurrent
   writers).  Validation is the C18 model, index regeneration the C11 model; `today` is a parameter. *)
From BSE Require Import Model.Val Model.Basis Model.Memo Model.Elements Model.Compose Model.Index Model.Validator.

Definition exists_path (d : datadir) (p : string) : bool := match assoc p d with Some _ => true | None => false end.
Definition write_file (d : datadir) (p : string) (v : val) : datadir := assoc_set p v d.
Definition remove_file (d : datadir) (p : string) : datadir := filter (fun kv => negb (String.eqb (fst kv) p)) d.

Definition bse_tag (t : string) : string * val :=
  ("molssi_bse_schema", VDict [("schema_type", VStr t); ("schema_version", VStr "0.1")]).

Definition intersect (a b : list string) : list string := filter (fun x => mem_str x b) a.

Definition check (r : res unit) : res unit := r.

(* returns the new directory; on any failure the directory passed in is what remains (the caller keeps its own copy) *)
Definition add_from_components (d : datadir) (comps : list string) (subdir file_base name family role description version
                                revision_description today : string) : res datadir :=
  match comps with
  | [] => fail ERuntime
  | c0 :: _ =>
    do keysets <- mapM (fun c => do j <- read_json_basis d c; do e <- (do x <- vfield "elements" j; vdict x); ok (map fst e)) comps;
    let common := fold_left intersect (tl keysets) (hd [] keysets) in
    do valid_elements <- sort_keys_int (dedupe_strs common);
    let element_rel := path_join subdir (file_base +++ "." +++ version +++ ".element.json") in
    let table_rel := file_base +++ "." +++ version +++ ".table.json" in
    let meta_rel := file_base +++ ".metadata.json" in
    let element_file := VDict [bse_tag "element"; ("name", VStr name); ("description", VStr description);
                               ("elements", VDict (map (fun z => (z, VDict [("components", VStrs comps)])) valid_elements))] in
    let table_file := VDict [bse_tag "table"; ("revision_description", VStr revision_description); ("revision_date", VStr today);
                             ("elements", VDict (map (fun z => (z, VStr element_rel)) valid_elements))] in
    let meta_file := VDict [bse_tag "metadata"; ("names", VStrs [name]); ("tags", VList []); ("family", VStr family);
                            ("description", VStr description); ("role", VStr role); ("auxiliaries", VDict [])] in
    do _ <- validate_data "element" element_file;
    do _ <- validate_data "table" table_file;
    do _ <- (if exists_path d meta_rel then ok tt else validate_data "metadata" meta_file);
    if exists_path d element_rel then fail ERuntime else
    if exists_path d table_rel then fail ERuntime else
    do _ <- match assoc "METADATA.json" d with
            | Some (VDict m) =>
              match assoc (transform_basis_name name) m with
              | Some e => do bn <- entry_str "basename" e; do rp <- entry_str "relpath" e;
                          if andb (String.eqb bn file_base) (String.eqb rp "") then ok tt else fail ERuntime
              | None => ok tt
              end
            | _ => ok tt
            end;
    let d1 := write_file (write_file d element_rel element_file) table_rel table_file in
    let d2 := if exists_path d1 meta_rel then d1 else write_file d1 meta_rel meta_file in
    do idx <- create_metadata (remove_file d2 "METADATA.json");
    ok (write_file d2 "METADATA.json" idx)
  end.

(* the reference map in its three accepted forms *)
Inductive refs_arg := RefsStr (s : string) | RefsList (l : list string) | RefsDict (m : list (string * (string + list string))).

Definition set_refs (elements : list (string * val)) (refs : refs_arg) : res (list (string * val)) :=
  let put (els : list (string * val)) (z : string) (r : list string) : list (string * val) :=
      map (fun kv => if String.eqb (fst kv) z
                     then (fst kv, match snd kv with VDict ed => VDict (assoc_set "references" (VStrs r) ed) | x => x end)
                     else kv) els in
  match refs with
  | RefsStr s => ok (fold_left (fun els kv => put els (fst kv) [s]) elements elements)
  | RefsList l => ok (fold_left (fun els kv => put els (fst kv) l) elements elements)
  | RefsDict m =>
    do r <- fold_left (fun acc kv =>
                         do st <- acc;
                         let '(els, done) := st in
                         do zs <- expand_elements (SelStr (fst kv));
                         let zstr := map Z_to_string zs in
                         do els' <- (fix go (l : list string) (els : list (string * val)) (seen : list string) : res (list (string * val)) :=
                                       match l with
                                       | [] => ok els
                                       | z :: t => if negb (mem_str z (map fst elements)) then fail ERuntime else
                                                   if mem_str z seen then fail ERuntime else
                                                   go t (put els z (match snd kv with inl s => [s] | inr l => l end)) seen
                                       end) zstr els done;
                         ok (els', done ++ zstr)) m (ok (elements, []));
    let '(els, done) := r in
    ok (fold_left (fun e kv => if mem_str (fst kv) done then e else put e (fst kv) []) elements els)
  end.

Definition add_basis_from_dict (d : datadir) (bs_data : val) (subdir file_base name family role description version
                                revision_description data_source today : string) (refs : refs_arg) : res datadir :=
  do top <- vdict bs_data;
  let top1 := assoc_set "data_source" (VStr data_source) (assoc_set "description" (VStr description) top) in
  do els <- (do e <- vfield "elements" bs_data; vdict e);
  do els' <- set_refs els refs;
  let comp := VDict (assoc_set "elements" (VDict els') top1) in
  let comp_rel := path_join subdir (file_base +++ "." +++ version +++ ".json") in
  do _ <- validate_data "component" comp;
  if exists_path d comp_rel then fail ERuntime else
  (* on failure of the second half the component file is removed again: the directory is unchanged *)
  add_from_components (write_file d comp_rel comp) [comp_rel] subdir file_base name family role description version
                      revision_description today.
