(* Model of compose.py + the plain part of api.get_basis over a data directory given as a finite
   map  relative path -> parsed JSON value  (the file system is modelled, DESIGN C01). *)
From BSE Require Import Model.Val Model.Elements.

Definition datadir := list (string * val).

Inductive ferr := FNotFound | FNotBse.
Definition read_json_basis (d : datadir) (p : string) : res val :=
  match assoc p d with
  | None => fail EOther                      (* FileNotFoundError *)
  | Some (VDict kv) => match assoc "molssi_bse_schema" kv with Some _ => ok (VDict kv) | None => fail ERuntime end
  | Some VNone => fail ERuntime              (* present but not JSON (zero-length file): "contains JSON errors" *)
  | Some _ => fail EType
  end.

Definition vfield (k : string) (v : val) : res val :=
  match v with
  | VDict d => match assoc k d with Some x => ok x | None => fail EKey end
  | _ => fail EType
  end.
Definition vdict (v : val) : res (list (string * val)) := match v with VDict d => ok d | _ => fail EType end.
Definition vlist (v : val) : res (list val) := match v with VList l => ok l | _ => fail EType end.
Definition vstr (v : val) : res string := match v with VStr s => ok s | _ => fail EType end.

(* dict.update: existing keys keep their position *)
Definition dict_update (a b : list (string * val)) : list (string * val) :=
  fold_left (fun acc kv => assoc_set (fst kv) (snd kv) acc) b a.

(* ---- string order (code points = bytes for ASCII) and sorted(set(..)) ---- *)
Fixpoint str_ltb (a b : string) : bool :=
  match a, b with
  | EmptyString, EmptyString => false
  | EmptyString, String _ _ => true
  | String _ _, EmptyString => false
  | String x a', String y b' => if ascii_ltb x y then true else if ascii_ltb y x then false else str_ltb a' b'
  end.
Fixpoint insert_str (x : string) (l : list string) : list string :=
  match l with
  | [] => [x]
  | y :: t => if str_ltb x y then x :: l else if String.eqb x y then l else y :: insert_str x t
  end.
Definition sorted_set (l : list string) : list string := fold_right insert_str [] l.

(* ---- _whole_basis_types ---- *)
Definition types_of (key tkey : string) (el : val) : res (list string) :=
  match el with
  | VDict d => match assoc key d with
               | None => ok []
               | Some x => do l <- vlist x; mapM (fun sh => do t <- vfield tkey sh; vstr t) l
               end
  | _ => fail EType
  end.
Definition whole_basis_types (elements : list (string * val)) : res (list string) :=
  do ts <- mapM (fun kv => do a <- types_of "electron_shells" "function_type" (snd kv);
                          do b <- types_of "ecp_potentials" "ecp_type" (snd kv); ok (a ++ b)) elements;
  ok (sorted_set (concat ts)).

(* ---- manip.merge_element_data(None, sources) ---- *)
Definition merge_one (ret : list (string * val)) (s : val) : res (list (string * val)) :=
  do sd <- vdict s;
  do ret1 <- match assoc "electron_shells" sd with
             | None => ok ret
             | Some x => do l <- vlist x;
                         let cur := match assoc "electron_shells" ret with Some (VList c) => c | _ => [] end in
                         ok (assoc_set "electron_shells" (VList (cur ++ l)) ret)
             end;
  do ret2 <- match assoc "ecp_potentials" sd with
             | None => ok ret1
             | Some p => match assoc "ecp_potentials" ret1 with
                         | Some _ => fail ERuntime
                         | None => do ne <- vfield "ecp_electrons" s;
                                   ok (assoc_set "ecp_electrons" ne (assoc_set "ecp_potentials" p ret1))
                         end
             end;
  match assoc "references" sd with
  | None => ok ret2
  | Some r => do l <- vlist r;
              let cur := match assoc "references" ret2 with Some (VList c) => c | _ => [] end in
              ok (assoc_set "references" (VList (cur ++ l)) ret2)
  end.
Fixpoint merge_sources (ret : list (string * val)) (srcs : list val) : res (list (string * val)) :=
  match srcs with [] => ok ret | s :: t => do r <- merge_one ret s; merge_sources r t end.

(* ---- compose_elemental_basis ---- *)
(* a component file with every element's reference key list wrapped into one group *)
Definition wrap_component (comp : val) : res val :=
  do cd <- vdict comp;
  do els <- (do e <- vfield "elements" comp; vdict e);
  match els with
  | [] => ok comp
  | _ =>
    do desc <- vfield "description" comp;
    do els' <- mapM (fun kv => do ed <- vdict (snd kv);
                               do refs <- vfield "references" (snd kv);
                               ok (fst kv, VDict (assoc_set "references"
                                     (VList [VDict [("reference_description", desc); ("reference_keys", refs)]]) ed))) els;
    ok (VDict (assoc_set "elements" (VDict els') cd))
  end.

Definition dedupe_strs (l : list string) : list string :=
  fold_left (fun acc x => if existsb (String.eqb x) acc then acc else acc ++ [x]) l [].

Definition compose_elemental_basis (d : datadir) (relpath : string) : res val :=
  do el_bs <- read_json_basis d relpath;
  do top <- vdict el_bs;
  do els <- (do e <- vfield "elements" el_bs; vdict e);
  do comp_lists <- mapM (fun kv => do c <- vfield "components" (snd kv); do l <- vlist c; mapM vstr l) els;
  let files := dedupe_strs (concat comp_lists) in
  do cmap <- mapM (fun f => do j <- read_json_basis d f; do w <- wrap_component j; ok (f, w)) files;
  do els' <- mapM (fun kv =>
      do comps <- (do c <- vfield "components" (snd kv); do l <- vlist c; mapM vstr l);
      do srcs <- mapM (fun c => match assoc c cmap with
                                | None => fail EKey
                                | Some comp => do ce <- (do e <- vfield "elements" comp; vdict e);
                                               match assoc (fst kv) ce with
                                               | None => fail ERuntime
                                               | Some x => ok x
                                               end
                                end) comps;
      do merged <- merge_sources [] srcs;
      ok (fst kv, VDict merged)) els;
  ok (VDict (assoc_set "elements" (VDict els') top)).

(* ---- path helpers: os.path.basename / os.path.split on '/'-separated relative paths ---- *)
Definition path_parts (p : string) : list string := split_on "/" p.
Definition basename (p : string) : string := last (path_parts p) "".
Definition dirname (p : string) : string := sjoin "/" (removelast (path_parts p)).
Definition path_join (a b : string) : string := match a with EmptyString => b | _ => a +++ "/" +++ b end.

Definition nth_from_end (l : list string) (k : nat) : res string :=
  match nth_error (rev l) k with Some x => ok x | None => fail EIndex end.

(* ---- compose_table_basis ---- *)
Definition compose_table_basis (d : datadir) (relpath : string) : res val :=
  do table <- read_json_basis d relpath;
  do top <- vdict table;
  do tels <- (do e <- vfield "elements" table; vdict e);
  do efiles <- mapM (fun kv => vstr (snd kv)) tels;
  do emap <- mapM (fun f => do e <- compose_elemental_basis d f; ok (f, e)) (dedupe_strs efiles);
  do els' <- mapM (fun kv =>
      do f <- vstr (snd kv);
      match assoc f emap with
      | None => fail EKey
      | Some data => do de <- (do e <- vfield "elements" data; vdict e);
                     match assoc (fst kv) de with
                     | None => fail EKey
                     | Some x => ok (fst kv, x)
                     end
      end) tels;
  let fb := basename relpath in
  do version <- nth_from_end (split_on "." fb) 2;
  do ftypes <- whole_basis_types els';
  let top1 := assoc_set "function_types" (VStrs ftypes)
              (assoc_set "version" (VStr version) (assoc_set "elements" (VDict els') top)) in
  let meta_name := hd "" (split_on "." fb) +++ ".metadata.json" in
  do meta <- read_json_basis d (path_join (dirname relpath) meta_name);
  do md <- vdict meta;
  ok (VDict (assoc_set "molssi_bse_schema" (VDict [("schema_type", VStr "complete"); ("schema_version", VStr "0.1")])
                       (dict_update top1 md))).

(* ---- the plain part of api.get_basis: name -> index entry -> version -> compose, display name, element selection ---- *)
Inductive version_arg := VerNone | VerStr (s : string).

Definition get_basis_plain (d : datadir) (name : string) (ver : version_arg) (elements : option elsel) : res val :=
  do index <- match assoc "METADATA.json" d with Some v => ok v | None => fail EOther end;
  let tr := transform_basis_name name in
  do entry <- vfield tr index;
  do version <- match ver with
                | VerNone => do v <- vfield "latest_version" entry; vstr v
                | VerStr s => ok s
                end;
  do versions <- vfield "versions" entry;
  do vinfo <- vfield version versions;
  do relpath <- (do r <- vfield "file_relpath" vinfo; vstr r);
  do b <- compose_table_basis d relpath;
  do bd <- vdict b;
  do disp <- vfield "display_name" entry;
  let bd1 := assoc_set "name" disp bd in
  match elements with
  | None => ok (VDict bd1)
  | Some sel =>
    do zs <- expand_elements sel;
    match zs with
    | [] => ok (VDict bd1)
    | _ =>
      let want := map Z_to_string zs in
      do els <- (do e <- vfield "elements" (VDict bd1); vdict e);
      if forallb (fun z => existsb (String.eqb z) (map fst els)) want then
        let sub := filter (fun kv => existsb (String.eqb (fst kv)) want) els in
        do ft <- whole_basis_types sub;
        ok (VDict (assoc_set "function_types" (VStrs ft) (assoc_set "elements" (VDict sub) bd1)))
      else fail EKey
    end
  end.
