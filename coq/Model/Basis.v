(* Basis-set dictionaries as typed records, polymorphic in the number carrier N, and the
   function-set semantics FS of DESIGN 3.3. *)
From BSE Require Import Model.Val.
Set Implicit Arguments.

Section Types.
  Variable N : Type.

  (* coefs: one list per general contraction (as in the JSON), each of the length of exps *)
  Record shell := mkShell { ftype : string; region : string; am : list Z; exps : list N; coefs : list (list N) }.

  (* an element: its electron shells (None = key absent) and every other key, carried verbatim *)
  Record element := mkElement { eshells : option (list shell); erest : list (string * val) }.
  Record basis := mkBasis { belems : list (string * element); brest : list (string * val) }.

  Definition map_shells (f : list shell -> list shell) (e : element) : element :=
    match eshells e with
    | None => e
    | Some shs => mkElement (Some (f shs)) (erest e)
    end.
  Definition map_shellsM (f : list shell -> res (list shell)) (e : element) : res element :=
    match eshells e with
    | None => ok e
    | Some shs => do shs' <- f shs; ok (mkElement (Some shs') (erest e))
    end.
  Definition map_elems (f : element -> element) (b : basis) : basis :=
    mkBasis (map (fun kv => (fst kv, f (snd kv))) (belems b)) (brest b).
  Fixpoint mapM_elems_list (f : element -> res element) (l : list (string * element)) : res (list (string * element)) :=
    match l with
    | [] => ok []
    | (k, e) :: t => do e' <- f e; do t' <- mapM_elems_list f t; ok ((k, e') :: t')
    end.
  Definition mapM_elems (f : element -> res element) (b : basis) : res basis :=
    do l <- mapM_elems_list f (belems b); ok (mkBasis l (brest b)).

  (* ---------- contracted functions ---------- *)
  (* a contracted function: angular momentum and the (exponent, coefficient) pairs of one contraction *)
  Definition cfun := (Z * list (N * N))%type.

  Fixpoint zip_am (ams : list Z) (cs : list (list N)) (xs : list N) : list cfun :=
    match ams, cs with
    | l :: ams', c :: cs' => (l, combine xs c) :: zip_am ams' cs' xs
    | _, _ => []
    end.

  (* single momentum: every contraction carries it; fused shell: contraction g carries am[g] *)
  Definition shell_cfuns (s : shell) : list cfun :=
    match am s with
    | [l] => map (fun c => (l, combine (exps s) c)) (coefs s)
    | ams => zip_am ams (coefs s) (exps s)
    end.

  Definition shells_cfuns (shs : list shell) : list cfun := flat_map shell_cfuns shs.
End Types.

Arguments mkShell {N}.
Arguments mkElement {N}.
Arguments mkBasis {N}.

(* ---------- decoding / encoding of the wire values (N = string) ---------- *)
Definition sshell := shell string.
Definition selement := element string.
Definition sbasis := basis string.

Definition dec_strs (v : val) : res (list string) := do l <- as_list v; mapM as_str l.
Definition dec_ints (v : val) : res (list Z) := do l <- as_list v; mapM as_int l.

Definition dec_shell (v : val) : res sshell :=
  do d <- as_dict v;
  do ft <- (do x <- field "function_type" d; as_str x);
  do rg <- (do x <- field "region" d; as_str x);
  do a <- (do x <- field "angular_momentum" d; dec_ints x);
  do ex <- (do x <- field "exponents" d; dec_strs x);
  do cf <- (do x <- field "coefficients" d; do l <- as_list x; mapM dec_strs l);
  ok (mkShell ft rg a ex cf).

Definition enc_shell (s : sshell) : val :=
  VDict [("function_type", VStr (ftype s)); ("region", VStr (region s));
         ("angular_momentum", VList (map VInt (am s)));
         ("exponents", VStrs (exps s)); ("coefficients", VList (map VStrs (coefs s)))].

Fixpoint remove_key (k : string) (d : list (string * val)) : list (string * val) :=
  match d with
  | [] => []
  | (k', v) :: t => if String.eqb k k' then remove_key k t else (k', v) :: remove_key k t
  end.

Definition dec_element (v : val) : res selement :=
  do d <- as_dict v;
  match assoc "electron_shells" d with
  | None => ok (mkElement None d)
  | Some x => do l <- as_list x; do shs <- mapM dec_shell l; ok (mkElement (Some shs) (remove_key "electron_shells" d))
  end.

Definition enc_element (e : selement) : val :=
  match eshells e with
  | None => VDict (erest e)
  | Some shs => VDict (erest e ++ [("electron_shells", VList (map enc_shell shs))])
  end.

Definition dec_basis (v : val) : res sbasis :=
  do d <- as_dict v;
  do ev <- field "elements" d;
  do ed <- as_dict ev;
  do els <- mapM (fun kv => do e <- dec_element (snd kv); ok (fst kv, e)) ed;
  ok (mkBasis els (remove_key "elements" d)).

Definition enc_basis (b : sbasis) : val :=
  VDict (brest b ++ [("elements", VDict (map (fun kv => (fst kv, enc_element (snd kv))) (belems b)))]).
