(* Model of the ELECTRON-SHELL part of the CP2K writer / reader pair:
     writers/cp2k.py     write_cp2k              (the `if electron_elements:` part, after sort.sort_basis)
     readers/cp2k.py     read_cp2k, _read_shell  (element_shell_re, nblocks_re, block_re)
     readers/helpers.py  prune_lines (twice: '!' then '#'), partition_lines, parse_line_regex_dict (with _convert_str_int),
                         parse_primitive_matrix (with the nprim and ngen checks)
     printing.py         write_matrix([exponents, *coefficients], point_places, convert_exp=False)
     lut.py              element_sym_from_Z, element_name_from_Z (normalize=True), element_Z_from_sym, function_type_from_am
     misc.py             contraction_string
     manip.py            create_element_data
   The ECP part (`## Effective core potentials` ... `END name_ECP`) is modelled in Model/Cp2kEcp.v.
   Text is a string of bytes, white space is ASCII white space (\s, str.strip), word characters / digits are ASCII
   (\w, \d), as everywhere in Model/.  int() of a run of digits is its value.
   Definitions only; statements in Proofs/Cp2kDefs.v, proofs in Proofs/Cp2kSpec.v. *)
From BSE Require Import Model.Val Model.Text Model.Basis Model.Manip Model.Matrix Model.Lut Model.Elements Model.Nwchem
                        Model.NwchemEcp Model.G94 Model.GamessUs.

(* ------------------------------------------------------------------ *)
(* writer                                                              *)
(* ------------------------------------------------------------------ *)

(* min(am) *)
Definition zmin (a : list Z) : Z := fold_left Z.min a (hd 0%Z a).

(* s += '{} {} {} {}'.format("1", min_am, max_am, nprim)
   if len(am) > 1: for _ in am: s += ' 1'   else: s += ' ' + str(ncont)
   (min() / max() of an empty list: ValueError) *)
Definition cp2k_block_line (s : sshell) : res string :=
  match am s with
  | [] => fail EValue
  | _ =>
    let head := "1 " +++ Z_to_string (zmin (am s)) +++ " " +++ Z_to_string (zmax (am s)) +++ " "
                +++ nat_str (List.length (exps s)) in
    ok (head +++ (if Nat.ltb 1 (List.length (am s)) then String.concat "" (map (fun _ => " 1") (am s))
                  else " " +++ nat_str (List.length (coefs s))))
  end.

(* the columns handed to printing.write_matrix and its point places: the same as in the NWChem writer,
   point_places = [8 * i + 15 * (i - 1) for i in range(1, ncol + 1)] *)
Definition cp2k_cols (s : sshell) : list (list cell) := map CStr (exps s) :: map (map CStr) (coefs s).

(* one iteration of `for shell in data['electron_shells']`.  leftpad_check (Model/NwchemEcp.v) is the first statement of
   write_matrix: _find_point of EVERY cell of every column, before zip() cuts the columns to the shortest one *)
Definition cp2k_write_shell (s : sshell) : res string :=
  let ncol := S (List.length (coefs s)) in
  do bl <- cp2k_block_line s;
  do _ <- leftpad_check (cp2k_cols s) (nw_point_places ncol);
  do m <- write_matrix (cp2k_cols s) (nw_point_places ncol) false;
  ok (bl +++ nl1 +++ m).

(* one iteration of `for z in electron_elements`:
     s += '# {} {} {}\n'.format(elname, basis['name'], cont_string);  s += '{} {}\n'.format(sym, basis['name'])
     s += '    {}\n'.format(nshells);  the shells;  s += '\n' *)
Definition cp2k_write_element (bsname : string) (zs : Z * list sshell) : res string :=
  let '(z, shs) := zs in
  do sym <- element_sym_from_Z z true;
  do elname <- element_name_from_Z z true;
  do cs <- contraction_string (Some (map nw_cshell shs)) false;
  do body <- mapM cp2k_write_shell shs;
  ok ("# " +++ elname +++ " " +++ bsname +++ " " +++ cs +++ nl1 +++
      sym +++ " " +++ bsname +++ nl1 +++
      "    " +++ nat_str (List.length shs) +++ nl1 +++
      String.concat "" body +++ nl1).

(* write_cp2k, the `if electron_elements:` part.
   INPUT: bsname = basis['name'];  els = [(z, data['electron_shells']) for the elements that have the key
   'electron_shells'], in dictionary order, taken from the basis AFTER the only normalisation call the writer makes:
       basis = sort.sort_basis(basis, True)     (sort_shells per element: primitives by decreasing exponent, general
                                                 contractions of a one-momentum shell by spatial extent, shells by
                                                 max(am) and spatial extent; sort_potentials; keys in canonical order -
                                                 the elements in increasing Z)
   NO uncontract_spdf / uncontract_general / make_general: fused (sp, spd ...) shells and general contractions are
   printed as they are.  Nothing else of the dictionary is printed (no role, description, function types, region).
   Nothing at all is written when no element has electron shells. *)
Definition cp2k_write_electron (bsname : string) (els : list (Z * list sshell)) : res string :=
  do parts <- mapM (cp2k_write_element bsname) els;
  ok (String.concat "" parts).

(* ------------------------------------------------------------------ *)
(* reader: the regular expressions (all used with .match on a line that prune_lines has stripped)                          *)
(* ------------------------------------------------------------------ *)

Fixpoint span_word (s : string) : string * string :=
  match s with
  | String c t => if is_word c then let '(a, r) := span_word t in (String c a, r) else (EmptyString, s)
  | EmptyString => (EmptyString, EmptyString)
  end.

(* helpers.basis_name_re_str = \d*[a-zA-Z][a-zA-Z0-9\-\+\*\(\)\[\]]*  matched against a WHOLE white-space delimited word:
   `\d*` is forced to take all leading digits (the next character has to be a letter) *)
Definition name_char (c : ascii) : bool :=
  orb (is_alpha c) (orb (is_digit c) (sany (Ascii.eqb c) "-+*()[]")).
Definition name_word (w : string) : bool :=
  match skip_digits w with
  | String c r => andb (is_alpha c) (sall name_char r)
  | EmptyString => false
  end.

(* element_shell_re = ^\s*(?P<sym>\w+)(?:\s+(?P<name>NAME))+\s*$ : the run of word characters is forced to be maximal
   (white space has to follow), every NAME is followed by white space or the end, hence is a whole word of the rest of
   the line; at least one of them.  Gives the captures of `sym` (one) - the names are not used. *)
Definition match_element_shell (l : string) : option string :=
  let '(a, r) := span_word (lstrip_ws l) in
  match a, r with
  | String _ _, String c _ =>
    if is_space c then
      match tokens_acc r "" with
      | [] => None
      | ws => if forallb name_word ws then Some a else None
      end
    else None
  | _, _ => None
  end.
Definition is_element_shell_line (l : string) : bool :=
  match match_element_shell l with Some _ => true | None => false end.

(* nblocks_re = ^\s*(?P<nblocks>\d+)\s*$ *)
Definition match_nblocks (l : string) : option string :=
  let '(n, r) := span_digit (lstrip_ws l) in
  match n with
  | String _ _ => if ws_only r then Some n else None
  | EmptyString => None
  end.

(* block_re = ^\s*(?P<n>\d+)\s+(?P<lmin>\d+)\s+(?P<lmax>\d+)\s+(?P<nprim>\d+)(?:\s+(?P<nshell>\d+))+\s*$ : the words of
   the line are runs of digits, at least five of them.  Gives lmin, lmax, nprim and the list nshell, after int() *)
Definition match_block (l : string) : option (Z * Z * Z * list Z) :=
  match tokens_acc l "" with
  | n :: lmin :: lmax :: nprim :: ns0 :: ns =>
    if forallb isdecimal (n :: lmin :: lmax :: nprim :: ns0 :: ns)
    then Some (digits_val lmin 0, digits_val lmax 0, digits_val nprim 0, map (fun x => digits_val x 0) (ns0 :: ns))
    else None
  | _ => None
  end.

(* _convert_str_int(sym): int(sym) succeeds for a word made of digits with single underscores between them
   (int('1_0') == 10); such a `sym` is then an int and lut.element_data_from_sym calls .lower() on it: AttributeError *)
Fixpoint int_word (s : string) (prev_digit : bool) : bool :=
  match s with
  | EmptyString => prev_digit
  | String c t => if is_digit c then int_word t true
                  else if Ascii.eqb c "_" then andb prev_digit (int_word t false) else false
  end.

(* ------------------------------------------------------------------ *)
(* reader                                                              *)
(* ------------------------------------------------------------------ *)

(* helpers.parse_primitive_matrix(lines, nprim=nprim, ngen=ncontr): Model.Matrix.parse_primitive_matrix plus the two
   final tests *)
Definition parse_primitive_matrix_np_ng (lines : list string) (nprim ngen : Z)
  : res (list string * list (list string)) :=
  do ec <- parse_primitive_matrix lines;
  if negb (Z.eqb (Z.of_nat (List.length (fst ec))) nprim) then fail ERuntime else
  if negb (Z.eqb (Z.of_nat (List.length (snd ec))) ngen) then fail ERuntime else ok ec.

(* `for l in range(lmin, lmax + 1)`: col_offset = sum(nshell[:l - lmin]); ncontr_l = nshell[l - lmin];
   l_coeff = coeffs[:][col_offset:col_offset + ncontr_l]   (`coeffs[:]` is a copy of the list of contractions, so this
   takes the contractions col_offset .. col_offset + ncontr_l - 1).  The assert before guarantees that nshell has exactly
   lmax - lmin + 1 entries; the recursion walks along nshell and keeps the contractions that are left *)
Fixpoint cp2k_split (l : Z) (nshell : list Z) (exponents : list string) (coeffs : list (list string))
  : res (list sshell) :=
  match nshell with
  | [] => ok []
  | k :: t =>
    do func_type <- function_type_from_am [l] "gto" "spherical";
    do rest <- cp2k_split (l + 1)%Z t exponents (skipn (Z.to_nat k) coeffs);
    ok (mkShell func_type "" [l] exponents (firstn (Z.to_nat k) coeffs) :: rest)
  end.

Definition zsum (l : list Z) : Z := fold_left Z.add l 0%Z.

(* `for iblock in range(nblocks)`: basis_lines[iline] (IndexError), block_re (RuntimeError), the assert, the matrix on
   the next nprim lines (a slice: fewer lines are a RuntimeError of parse_primitive_matrix), the shells.
   Gives the shells in the order they are appended *)
Fixpoint cp2k_read_blocks (nblocks : nat) (lines : list string) : res (list sshell) :=
  match nblocks with
  | O => ok []
  | S k =>
    match lines with
    | [] => fail EIndex
    | l :: rest =>
      match match_block l with
      | None => fail ERuntime
      | Some (lmin, lmax, nprim, nshell) =>
        if negb (Z.eqb (Z.of_nat (List.length nshell)) (lmax - lmin + 1)) then fail EAssert else
        do ec <- parse_primitive_matrix_np_ng (firstn (Z.to_nat nprim) rest) nprim (zsum nshell);
        do shs <- cp2k_split lmin nshell (fst ec) (snd ec);
        do more <- cp2k_read_blocks k (skipn (Z.to_nat nprim) rest);
        ok (shs ++ more)
      end
    end
  end.

(* bs_data: element -> its 'electron_shells' list, in insertion order (the Python key is str(Z), the model keeps Z).
   `if element_Z not in bs_data ...: create_element_data(bs_data, element_Z, 'electron_shells')` followed by the
   .append(shell) calls: a new element gets an entry even when no shell follows *)
Fixpoint extend_element (z : Z) (shs : list sshell) (d : list (Z * list sshell)) : list (Z * list sshell) :=
  match d with
  | [] => [(z, shs)]
  | (z', l) :: t => if Z.eqb z z' then (z', l ++ shs) :: t else (z', l) :: extend_element z shs t
  end.

(* readers/cp2k.py _read_shell.  Lines after the last block are never looked at *)
Definition cp2k_read_shell (basis_lines : list string) (bs_data : list (Z * list sshell))
  : res (list (Z * list sshell)) :=
  match basis_lines with
  | [] => fail EIndex
  | first :: rest =>
    match match_element_shell first with
    | None => fail ERuntime
    | Some element_sym =>
      if int_word element_sym false then fail EOther else
      do element_Z <- element_Z_from_sym element_sym;
      match rest with
      | [] => fail EIndex
      | second :: rest' =>
        match match_nblocks second with
        | None => fail ERuntime
        | Some n =>
          do shs <- cp2k_read_blocks (Z.to_nat (digits_val n 0)) rest';
          ok (extend_element element_Z shs bs_data)
        end
      end
    end
  end.

(* `for es in element_sections: _read_shell(es, bs_data)` *)
Fixpoint cp2k_sections (sections : list (list string)) (bs_data : list (Z * list sshell))
  : res (list (Z * list sshell)) :=
  match sections with
  | [] => ok bs_data
  | es :: t => do d <- cp2k_read_shell es bs_data; cp2k_sections t d
  end.

(* readers/cp2k.py read_cp2k, bs_data.  (For an empty file Python returns bs_data alone, otherwise the pair
   (bs_data, other_data); the model gives bs_data in both cases - as Model/G94.v does.  readers.read_formatted_basis_str
   unpacks the result into two names and so raises ValueError for the empty file.)
   Lines in front of the first element line form a section of their own, which _read_shell refuses (RuntimeError). *)
Definition cp2k_read_electron (lines : list string) : res (list (Z * list sshell)) :=
  let basis_lines := prune_lines (prune_lines lines "!" true true) "#" true true in
  match basis_lines with
  | [] => ok []
  | _ =>
    do element_sections <- partition_lines basis_lines (fun x => ok (is_element_shell_line x)) true 1 0 0;
    cp2k_sections element_sections []
  end.

Definition cp2k_roundtrip (bsname : string) (els : list (Z * list sshell)) : res (list (Z * list sshell)) :=
  do t <- cp2k_write_electron bsname els; cp2k_read_electron (splitlines t).
