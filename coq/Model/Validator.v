(* Model of validator.py: schema check (Model/Schema.v over the translated schemas) followed by the semantic rules. *)
From BSE Require Import Model.Val Model.Num Model.Basis Model.Manip Model.Memo Model.Schema Gen.GenSchema Model.Compose.

(* float(x) for every x of a list: ValueError on an unparsable string *)
Definition all_parse (l : list string) : bool := forallb (fun s => match parse_num s with Some _ => true | None => false end) l.
Definition nonpositive (s : string) : bool := match parse_num s with Some (m, _) => (m <=? 0)%Z | None => false end.

(* _list_has_duplicates on floats / on lists of floats *)
Fixpoint has_dup {A} (eqb : A -> A -> bool) (l : list A) : bool :=
  match l with [] => false | x :: t => orb (existsb (eqb x) t) (has_dup eqb t) end.
Definition row_same (a b : list string) : bool := list_eqb same_s a b.

Definition tr_strings := @transpose string.

Notation "a ;; b" := (bind a (fun _ => b)) (at level 61, right associativity).

Definition validate_shell (s : sshell) : res unit :=
  let nprim := List.length (exps s) in
  if Nat.eqb nprim 0 then fail ERuntime else
  match am s with
  | [] => fail EValue                                  (* max() of an empty sequence *)
  | _ =>
    let spherical := orb (infix "spherical" (ftype s)) (infix "cartesian" (ftype s)) in
    if (zmax (am s) >? 1)%Z
    then (if orb (String.eqb (ftype s) "gto_spherical") (String.eqb (ftype s) "gto_cartesian") then ok tt else fail ERuntime)
    else (if spherical then fail ERuntime else ok tt)
  end;;
  (if all_parse (exps s) then ok tt else fail EValue);;
  (if has_dup same_s (exps s) then fail ERuntime else ok tt);;
  (if existsb nonpositive (exps s) then fail ERuntime else ok tt);;
  (fix cols (cs : list (list string)) : res unit :=
     match cs with
     | [] => ok tt
     | g :: t => if negb (Nat.eqb (List.length g) nprim) then fail ERuntime else
                 if negb (all_parse g) then fail EValue else
                 if forallb is0_s g then fail ERuntime else cols t
     end) (coefs s);;
  (if andb (Nat.eqb (List.length (am s)) 1) (has_dup row_same (coefs s)) then fail ERuntime else ok tt);;
  (if existsb (forallb is0_s) (tr_strings (coefs s)) then fail ERuntime else ok tt);;
  (if andb (Nat.ltb 1 (List.length (am s))) (negb (Nat.eqb (List.length (coefs s)) (List.length (am s))))
   then fail ERuntime else ok tt).

Record pot := mkPot { p_type : string; p_am : list Z; p_rexp : list Z; p_gexp : list string; p_coefs : list (list string) }.
Definition dec_pot (v : val) : res pot :=
  do d <- as_dict v;
  do t <- (do x <- field "ecp_type" d; as_str x);
  do a <- (do x <- field "angular_momentum" d; dec_ints x);
  do r <- (do x <- field "r_exponents" d; dec_ints x);
  do g <- (do x <- field "gaussian_exponents" d; dec_strs x);
  do c <- (do x <- field "coefficients" d; do l <- as_list x; mapM dec_strs l);
  ok (mkPot t a r g c).

Definition zlist_eqb (a b : list Z) : bool := list_eqb Z.eqb a b.
Fixpoint zlist_ltb (a b : list Z) : bool :=
  match a, b with
  | [], _ :: _ => true
  | _, [] => false
  | x :: a', y :: b' => if (x <? y)%Z then true else if (y <? x)%Z then false else zlist_ltb a' b'
  end.
Definition max_am_list (ps : list pot) : list Z :=
  fold_left (fun m p => if zlist_ltb m (p_am p) then p_am p else m) ps (match ps with p :: _ => p_am p | [] => [] end).

Definition validate_pots (ps : list pot) : res unit :=
  (if existsb (fun p => Nat.ltb 1 (List.length (p_am p))) ps then fail ERuntime else ok tt);;
  (if existsb (fun p => match p_am p with [] => true | _ => false end) ps then fail EIndex else ok tt);;
  (if has_dup Z.eqb (map (fun p => hd 0%Z (p_am p)) ps) then fail ERuntime else ok tt);;
  match ps with
  | [] => fail EValue
  | _ =>
    let mx := max_am_list ps in
    (fix each (ps : list pot) : res unit :=
       match ps with
       | [] => ok tt
       | p :: t =>
         let nexp := List.length (p_rexp p) in
         let exempt := andb (Nat.leb nexp 1) (zlist_eqb (p_am p) mx) in
         (if negb (Nat.eqb (List.length (p_gexp p)) nexp) then fail ERuntime else ok tt);;
         (fix cols (cs : list (list string)) : res unit :=
            match cs with
            | [] => ok tt
            | g :: r => if negb (Nat.eqb (List.length g) nexp) then fail ERuntime else
                        if negb exempt then
                          (if negb (all_parse g) then fail EValue else if forallb is0_s g then fail ERuntime else cols r)
                        else cols r
            end) (p_coefs p);;
         (if negb (forallb all_parse (p_coefs p)) then fail EValue else ok tt);;
         (if has_dup row_same (p_coefs p) then fail ERuntime else ok tt);;
         (if andb (negb exempt) (existsb (forallb is0_s) (tr_strings (p_coefs p))) then fail ERuntime else ok tt);;
         each t
       end) ps
  end.

Definition validate_element (el : val) : res unit :=
  do d <- as_dict el;
  (match assoc "electron_shells" d with
   | Some x => do l <- as_list x; do shs <- mapM dec_shell l;
               (fix each (l : list sshell) : res unit := match l with [] => ok tt | s :: t => validate_shell s ;; each t end) shs
   | None => ok tt
   end);;
  match assoc "ecp_potentials" d with
  | Some x => match assoc "ecp_electrons" d with
              | None => fail ERuntime
              | Some _ => do l <- as_list x; do ps <- mapM dec_pot l; validate_pots ps
              end
  | None => ok tt
  end.

Definition validate_elements (v : val) : res unit :=
  do els <- (do e <- vfield "elements" v; vdict e);
  (match els with [] => fail EAssert | _ => ok tt end);;
  (fix each (l : list (string * val)) : res unit :=
     match l with [] => ok tt | kv :: t => validate_element (snd kv) ;; each t end) els.

Definition schema_of (kind : string) : option schema :=
  if String.eqb kind "component" then Some schema_component else
  if String.eqb kind "element" then Some schema_element else
  if String.eqb kind "table" then Some schema_table else
  if String.eqb kind "metadata" then Some schema_metadata else
  if String.eqb kind "complete" then Some schema_complete else
  if String.eqb kind "minimal" then Some schema_minimal else
  if String.eqb kind "references" then Some schema_references else None.

Definition validate_data (kind : string) (v : val) : res unit :=
  match schema_of kind with
  | None => fail ERuntime
  | Some sc =>
    if negb (check_schema sc v) then fail EValidation else
    if String.eqb kind "component" then validate_elements v else
    if String.eqb kind "minimal" then validate_elements v else
    if String.eqb kind "complete" then
      do els <- (do e <- vfield "elements" v; vdict e);
      (match els with [] => fail EAssert | _ => ok tt end);;
      do nm <- vfield "name" v;
      do names <- (do n <- vfield "names" v; vlist n);
      (if existsb (val_eqb nm) names then ok tt else fail ERuntime);;
      (fix each (l : list (string * val)) : res unit :=
         match l with [] => ok tt | kv :: t => validate_element (snd kv) ;; each t end) els
    else if String.eqb kind "metadata" then
      do fam <- (do f <- vfield "family" v; vstr f);
      (* str.islower(): at least one cased character and no upper-case one (ASCII) *)
      if andb (sany is_lower fam) (negb (sany is_upper fam)) then ok tt else fail ERuntime
    else ok tt   (* element / table (date check not modelled) / references *)
  end.
