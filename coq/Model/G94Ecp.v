(* Model of the ECP part of the Gaussian94 writer / reader pair, and of the WHOLE file (electron blocks + ECP blocks):
     writers/g94.py      _write_g94_common, the part after the electron blocks (`if ecp_elements:`): the blank line, per
                         element `SYM     0`, `SYM-ECP     maxam     nelec`, per potential the title line
                         `<am> potential` / `<am>-<maxam> potential`, the count line `  nprim`, and
                         printing.write_matrix([rexponents, gexponents, *coefficients], [0, 9, 32], convert_exp=True);
                         the potentials in the order sorted(key=angular_momentum), last one moved to the front
     readers/g94.py      read_g94 (the guess `len(es) > 3 and helpers.is_integer(es[3])`), _parse_ecp_lines (ecp_am_nelec_re),
                         _parse_electron_lines (through Model.G94)
     readers/helpers.py  partition_lines(..., before=1), is_integer, parse_ecp_table, potential_am_list, parse_line_regex
     manip.py            create_element_data (key_exist_ok=False, element_exist_ok=True): ONE dictionary entry per element,
                         with the keys 'electron_shells' and / or 'ecp_potentials' + 'ecp_electrons'
   The electron blocks are Model.G94 (g94_write_electron, g94_parse_electron_lines, g94_parse_shell_block ...).
   What stays outside the modelled fragment: scale factors other than +-1.00 / several scale factors (ENotImpl, as in
   Model.G94).  Text is a string of bytes, white space / letters / digits are ASCII, as everywhere in Model/.
   Definitions only; statements in Proofs/G94EcpDefs.v, proofs in Proofs/G94EcpSpec.v. *)
From BSE Require Import Model.Val Model.Text Model.Num Model.Basis Model.Manip Model.Matrix Model.Lut Model.Elements
                        Model.Sort Model.Nwchem Model.G94.

(* ------------------------------------------------------------------ *)
(* data                                                                *)
(* ------------------------------------------------------------------ *)

(* one entry of 'ecp_potentials':  ecp_type, angular_momentum, r_exponents (ints), gaussian_exponents, coefficients *)
Record gpot := mkGpot { p_type : string; p_am : list Z; p_rexp : list Z; p_gexp : list string; p_coef : list (list string) }.

(* the ECP of an element: ('ecp_electrons', 'ecp_potentials') *)
Definition gecp : Type := (Z * list gpot)%type.

(* bs_data[str(Z)] of the reader: 'electron_shells' (None = key absent) and ('ecp_electrons', 'ecp_potentials') *)
Definition gel : Type := (option (list sshell) * option gecp)%type.

(* ------------------------------------------------------------------ *)
(* writer                                                              *)
(* ------------------------------------------------------------------ *)

(* sorted(data['ecp_potentials'], key=lambda x: x['angular_momentum']): a stable sort, the keys are lists of ints compared
   lexicographically (Model.Sort.zlist_leb a b : a <= b).  x is put in front of the first q with x <= q. *)
Fixpoint insert_gpot (x : gpot) (l : list gpot) : list gpot :=
  match l with
  | [] => [x]
  | q :: t => if zlist_leb (p_am x) (p_am q) then x :: l else q :: insert_gpot x t
  end.
Fixpoint sort_gpots (l : list gpot) : list gpot :=
  match l with [] => [] | x :: t => insert_gpot x (sort_gpots t) end.
(* ecp_list = sorted(...); ecp_list.insert(0, ecp_list.pop())   (never reached with an empty list: max() has raised) *)
Definition g94_ecp_order (pots : list gpot) : list gpot :=
  match rev (sort_gpots pots) with
  | [] => []
  | lastp :: r => lastp :: rev r
  end.

Definition ecp_point_places : list Z := [0; 9; 32]%Z.

(* The exceptions of printing.write_matrix come COLUMN by column (pad = [_determine_leftpad(c, point_place[i]) for i, c in
   enumerate(mat)]: IndexError for a column without a point place, before that column is looked at; ValueError for a
   string without a point), Model.Matrix.write_matrix meets them row by row.  This test raises what Python raises; when it
   passes, write_matrix below cannot fail. *)
Fixpoint matrix_precheck (cols : list (list cell)) (pps : list Z) : res unit :=
  match cols with
  | [] => ok tt
  | c :: t =>
    match pps with
    | [] => fail EIndex
    | _ :: pt => do _ <- mapM find_point c; matrix_precheck t pt
    end
  end.

Definition am_first (p : gpot) : res Z := match p_am p with a :: _ => ok a | [] => fail EIndex end.

(* one iteration of `for pot in ecp_list` *)
Definition g94_write_pot (max_am : Z) (maxchar : string) (p : gpot) : res string :=
  let nprim := List.length (p_rexp p) in
  do amchar <- amint_to_char (p_am p) true false;
  do a0 <- am_first p;
  let title := if Z.eqb a0 max_am then amchar +++ " potential" else amchar +++ "-" +++ maxchar +++ " potential" in
  let mat := map CInt (p_rexp p) :: map CStr (p_gexp p) :: map (map CStr) (p_coef p) in
  do _ <- matrix_precheck mat ecp_point_places;
  do m <- write_matrix mat ecp_point_places true;
  ok (title +++ nl1 +++ "  " +++ nat_str nprim +++ nl1 +++ m).

(* one iteration of `for z in ecp_elements`.  max() of no potential is a ValueError, x['angular_momentum'][0] of an
   empty list an IndexError; lut.element_sym_from_Z(z) WITHOUT normalize, then .upper() *)
Definition g94_write_ecp_element (zp : Z * gecp) : res string :=
  let '(z, (nelec, pots)) := zp in
  do sym0 <- element_sym_from_Z z false;
  let sym := upper sym0 in
  do firsts <- mapM am_first pots;
  match firsts with
  | [] => fail EValue
  | _ =>
    let max_am := zmax firsts in
    do maxchar <- amint_to_char [max_am] true false;
    do body <- mapM (g94_write_pot max_am maxchar) (g94_ecp_order pots);
    ok (sym +++ "     0" +++ nl1 +++
        sym +++ "-ECP     " +++ Z_to_string max_am +++ "     " +++ Z_to_string nelec +++ nl1 +++
        String.concat "" body)
  end.

(* _write_g94_common, the `if ecp_elements:` part.
   INPUT: ecps = [(z, (data['ecp_electrons'], data['ecp_potentials'])) for the elements that have the key
   'ecp_potentials'], in dictionary order, taken from the basis after uncontract_general / uncontract_spdf / sort_basis
   (sort_basis has put the potentials in the order the writer establishes once more). *)
Definition g94_write_ecp (ecps : list (Z * gecp)) : res string :=
  match ecps with
  | [] => ok ""
  | _ => do parts <- mapM g94_write_ecp_element ecps; ok (nl1 +++ String.concat "" parts)
  end.

(* write_g94 = _write_g94_common(basis, False, False, False): all the electron blocks, then (if there is any ECP) an
   empty line and all the ECP blocks.  els / ecps are the two views of ONE dictionary basis['elements'] (an element may
   occur in both, in one of them, or - then nothing is written for it - in none). *)
Definition g94_write_all (els : list (Z * list sshell)) (ecps : list (Z * gecp)) : res string :=
  do a <- g94_write_electron els;
  do b <- g94_write_ecp ecps;
  ok (a +++ b).

(* ------------------------------------------------------------------ *)
(* reader: ecp_am_nelec_re and partition_lines(before=1)               *)
(* ------------------------------------------------------------------ *)

Fixpoint span_nonspace (s : string) : string * string :=
  match s with
  | String c t => if is_space c then (EmptyString, s) else let '(a, r) := span_nonspace t in (String c a, r)
  | EmptyString => (EmptyString, EmptyString)
  end.

(* ecp_am_nelec_re = ^\S+\s+(\d+)\s+(\d+)$ : every run is forced to be maximal by what has to follow it, so the match is
   deterministic.  Gives the two groups. *)
Definition match_ecp_am_nelec (l : string) : option (string * string) :=
  let '(w, r) := span_nonspace l in
  match w, r with
  | String _ _, String _ _ =>          (* r begins with white space: the run w is maximal *)
    let '(d1, r1) := span_digit (lstrip_ws r) in
    match d1, r1 with
    | String _ _, String c _ =>
      if is_space c then
        let '(d2, r2) := span_digit (lstrip_ws r1) in
        match d2 with
        | String _ _ => if dollar r2 then Some (d1, d2) else None
        | EmptyString => None
        end
      else None
    | _, _ => None
    end
  | _, _ => None
  end.

(* l[-n:] and l[:-n] for n > 0 *)
Definition lastn {A} (n : nat) (l : list A) : list A := skipn (List.length l - n) l.
Definition droplast {A} (n : nat) (l : list A) : list A := firstn (List.length l - n) l.

(* for idx in range(1, len(all_blocks)):
       all_blocks[idx] = all_blocks[idx - 1][-before:] + all_blocks[idx]; all_blocks[idx - 1] = all_blocks[idx - 1][:-before]
   prev = all_blocks[idx - 1] as it is when idx is reached, rest = all_blocks[idx:] *)
Fixpoint steal_before (before : nat) (prev : list string) (rest : list (list string)) : list (list string) :=
  match rest with
  | [] => [prev]
  | b :: t => droplast before prev :: steal_before before (lastn before prev ++ b) t
  end.

(* helpers.partition_lines(lines, condition, before=before, min_size=min_size) for before > 0 (include_match=True, no
   min_after / min_blocks / max_blocks); the while loop is Model.Nwchem.part_go *)
Definition partition_lines_before (lines : list string) (cond : string -> res bool) (before min_size : nat)
  : res (list (list string)) :=
  do blocks <- part_go cond true lines [] [];
  match blocks with
  | [] => fail ERuntime
  | [_] => fail ERuntime                                  (* len(all_blocks) <= 1 *)
  | first :: rest =>
    if negb (Nat.eqb (List.length first) before) then fail ERuntime else
    match steal_before before first rest with
    | [] => fail EIndex                                   (* unreachable *)
    | first_block :: blocks' =>
      match first_block with
      | _ :: _ => fail EAssert                            (* assert len(first_block) == 0: unreachable *)
      | [] =>
        if existsb (fun b => Nat.ltb (List.length b) min_size) blocks' then fail ERuntime else ok blocks'
      end
    end
  end.

(* int(s) for a string that matches integer_only_re = ^[-+]?\d+$ *)
Definition int_of_str (s : string) : Z :=
  match s with
  | String "-" t => (- digits_val t 0)%Z
  | String "+" t => digits_val t 0
  | _ => digits_val s 0
  end.

(* ------------------------------------------------------------------ *)
(* reader: one ECP section                                             *)
(* ------------------------------------------------------------------ *)

(* the body of `for pot_lines in ecp_blocks`; 'angular_momentum': None is [] here, it is assigned afterwards *)
Definition g94_parse_pot_block (pot_lines : list string) : res gpot :=
  match nth_error pot_lines 1 with
  | None => fail EIndex
  | Some l1 =>
    if negb (is_integer l1) then fail ERuntime else
    let nlines := int_of_str l1 in
    if (nlines <=? 0)%Z then fail ERuntime else
    if negb (Z.eqb (Z.of_nat (List.length pot_lines)) (nlines + 2)) then fail ERuntime else
    do t <- parse_ecp_table (skipn 2 pot_lines);
    let '(r, g, c) := t in
    ok (mkGpot "scalar_ecp" [] r g c)
  end.

(* 'ecp_potentials' in bs_data[element_Z] *)
Fixpoint has_ecp (z : Z) (d : list (Z * gel)) : bool :=
  match d with
  | [] => false
  | (z', (_, e)) :: t => if Z.eqb z z' then match e with Some _ => true | None => false end else has_ecp z t
  end.
(* element_data = bs_data[element_Z] (created at the end when absent); its ECP keys are set *)
Fixpoint set_ecp (z : Z) (e : gecp) (d : list (Z * gel)) : list (Z * gel) :=
  match d with
  | [] => [(z, (None, Some e))]
  | (z', (s, e')) :: t => if Z.eqb z z' then (z', (s, Some e)) :: t else (z', (s, e')) :: set_ecp z e t
  end.
Fixpoint set_shells (z : Z) (shs : list sshell) (d : list (Z * gel)) : list (Z * gel) :=
  match d with
  | [] => [(z, (Some shs, None))]
  | (z', (s, e)) :: t => if Z.eqb z z' then (z', (Some shs, e)) :: t else (z', (s, e)) :: set_shells z shs t
  end.

(* for idx, pot in enumerate(...): pot['angular_momentum'] = [all_pot_am[idx]]   (the two lists have the same length) *)
Fixpoint assign_am (ams : list nat) (pots : list gpot) : list gpot :=
  match ams, pots with
  | a :: ams', p :: pots' => mkGpot (p_type p) [Z.of_nat a] (p_rexp p) (p_gexp p) (p_coef p) :: assign_am ams' pots'
  | _, _ => []
  end.

(* readers/g94.py _parse_ecp_lines.  The element symbol is NOT stripped of a leading dash here.  An exception leaves no
   result, so setting 'ecp_electrons' / appending the potentials at the end is the same.  The number of potentials is
   compared with max_am + 1 = len(potential_am_list(max_am)) before that list is built (Python builds it first: for an
   absurdly large max_am that is a MemoryError instead of the RuntimeError). *)
Definition g94_parse_ecp_lines (es : list string) (bs_data : list (Z * gel)) : res (list (Z * gel)) :=
  match es with
  | [] => fail EIndex
  | first :: rest =>
    match tokens_acc first "" with
    | [] => fail EIndex
    | element_sym :: _ =>
      do element_Z <- element_Z_from_sym element_sym;
      if has_ecp element_Z bs_data then fail ERuntime else
      match rest with
      | [] => fail EIndex
      | second :: body =>
        match match_ecp_am_nelec second with
        | None => fail ERuntime
        | Some (d1, d2) =>
          let max_am := digits_val d1 0 in
          let ecp_electrons := digits_val d2 0 in
          do ecp_blocks <- partition_lines_before body (fun x => ok (is_integer x)) 1 1;
          do pots <- mapM g94_parse_pot_block ecp_blocks;
          if negb (Z.eqb (max_am + 1) (Z.of_nat (List.length pots))) then fail ERuntime else
          ok (set_ecp element_Z (ecp_electrons, assign_am (potential_am_list (Z.to_nat max_am)) pots) bs_data)
        end
      end
    end
  end.

(* ------------------------------------------------------------------ *)
(* reader: the whole file                                              *)
(* ------------------------------------------------------------------ *)

(* the elements that have the key 'electron_shells', with their shells: what Model.G94.g94_parse_electron_lines calls
   bs_data *)
Definition el_proj (d : list (Z * gel)) : list (Z * list sshell) :=
  flat_map (fun e => match fst (snd e) with Some s => [(fst e, s)] | None => [] end) d.

(* readers/g94.py _parse_electron_lines on the full bs_data: Model.G94.g94_parse_electron_lines (same exceptions in the
   same order: create_element_data(bs_data, element_Z, 'electron_shells') raises exactly when the element already has
   that key) answers its bs_data plus (element_Z, shells) at the end; the shells go to the entry of element_Z, which is
   created at the end of the dictionary when the element is new *)
Definition last_opt {A} (r : list A) : option A := match rev r with [] => None | x :: _ => Some x end.
Definition g94_parse_electron_lines_all (es : list string) (bs_data : list (Z * gel)) : res (list (Z * gel)) :=
  do r <- g94_parse_electron_lines es (el_proj bs_data);
  match last_opt r with
  | None => fail EIndex                                   (* unreachable *)
  | Some (z, shells) => ok (set_shells z shells bs_data)
  end.

(* `for es in element_sections`: `len(es) > 3 and helpers.is_integer(es[3])` is the guess "this is an ECP" *)
Fixpoint g94_sections_all (sections : list (list string)) (bs_data : list (Z * gel)) : res (list (Z * gel)) :=
  match sections with
  | [] => ok bs_data
  | es :: t =>
    if match nth_error es 3 with Some l3 => is_integer l3 | None => false end
    then do d <- g94_parse_ecp_lines es bs_data; g94_sections_all t d
    else do d <- g94_parse_electron_lines_all es bs_data; g94_sections_all t d
  end.

(* readers/g94.py read_g94: bs_data in insertion order, the key str(Z) kept as Z *)
Definition g94_read_all (lines : list string) : res (list (Z * gel)) :=
  let basis_lines := prune_lines lines "!" true true in
  match basis_lines with
  | [] => ok []
  | _ =>
    do element_sections <- partition_lines basis_lines (fun x => ok (is_element_line x)) true 3 0 0;
    g94_sections_all element_sections []
  end.

Definition g94_roundtrip_all (els : list (Z * list sshell)) (ecps : list (Z * gecp)) : res (list (Z * gel)) :=
  do t <- g94_write_all els ecps; g94_read_all (splitlines t).

(* the ECP part alone (g94_write_all [] ecps = g94_write_ecp ecps) *)
Definition g94_roundtrip_ecp (ecps : list (Z * gecp)) : res (list (Z * gel)) :=
  do t <- g94_write_ecp ecps; g94_read_all (splitlines t).
