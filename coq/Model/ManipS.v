(* The manipulation model instantiated with decimal strings and the literals of manip.py
   (Gen/GenConsts.v = the literals as they are in the source now). *)
From BSE Require Import Model.Val Model.Num Model.Basis Model.Manip Gen.GenConsts.

Definition s_prune_shell := prune_shell is0_s same_s.
Definition s_prune_basis := prune_basis is0_s same_s String.eqb.
Definition s_uncontract_spdf := uncontract_spdf (N := string).
Definition s_uncontract_general := uncontract_general is0_s same_s String.eqb.
Definition s_uncontract_segmented := uncontract_segmented same_s lit_unc_seg_one.
Definition s_make_general := make_general is0_s same_s String.eqb lit_make_general_zero.
Definition s_remove_free_primitives := remove_free_primitives is0_s same_s String.eqb.
Definition s_optimize_general := optimize_general is0_s same_s String.eqb lit_make_general_zero lit_optimize_zero.
