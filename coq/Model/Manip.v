(* Model of manip.py: the contraction-manipulation routines, following the Python loop by loop.
   Parametric in the number carrier (Section) so that the theorems of Proofs/ are about any
   carrier with a zero test and a value equality; instantiated with decimal strings at the end. *)
From BSE Require Import Model.Val Model.Basis.
Set Implicit Arguments.

Section Manip.
  Variable N : Type.
  Variable is0 : N -> bool.          (* float(x) == 0.0 *)
  Variable same : N -> N -> bool.    (* float(a) == float(b) *)
  Variable eqN : N -> N -> bool.     (* equality of the stored strings (dict == dict) *)
  Variable zero_lit : N.             (* '0.00000000'     make_general padding *)
  Variable one_lit : N.              (* '1.00000000E+00' uncontract_segmented *)
  Variable ozero_lit : N.            (* '0.0000000E+00'  optimize_general *)

  Notation shell := (shell N).
  Notation element := (element N).
  Notation basis := (basis N).

  (* ---------- list(map(list, zip( *m ))) ---------- *)
  Fixpoint zipcons (r : list N) (t : list (list N)) : list (list N) :=
    match r, t with
    | x :: r', row :: t' => (x :: row) :: zipcons r' t'
    | _, _ => []
    end.
  Fixpoint transpose (m : list (list N)) : list (list N) :=
    match m with
    | [] => []
    | [r] => map (fun x => [x]) r
    | r :: m' => zipcons r (transpose m')
    end.

  Fixpoint list_eqb {A} (eqb : A -> A -> bool) (a b : list A) : bool :=
    match a, b with
    | [], [] => true
    | x :: a', y :: b' => andb (eqb x y) (list_eqb eqb a' b')
    | _, _ => false
    end.

  Definition all0 (row : list N) : bool := forallb is0 row.
  Definition nonzeros (g : list N) : list N := filter (fun x => negb (is0 x)) g.

  (* ---------- prune_shell ---------- *)
  Definition group := (N * list (list N))%type.   (* representative exponent, rows of coefficients *)

  Fixpoint add_group (x : N) (row : list N) (gs : list group) : list group :=
    match gs with
    | [] => [(x, [row])]
    | (e, rows) :: t => if same x e then (e, rows ++ [row]) :: t else (e, rows) :: add_group x row t
    end.

  (* rows = coeff_t[i] for i in range(nprim); IndexError when coeff_t is shorter than exponents *)
  Fixpoint pair_rows (xs : list N) (ct : list (list N)) : res (list (N * list N)) :=
    match xs, ct with
    | [], _ => ok []
    | x :: xs', row :: ct' => do r <- pair_rows xs' ct'; ok ((x, row) :: r)
    | _ :: _, [] => fail EIndex
    end.

  Definition build_groups (prs : list (N * list N)) : list group :=
    fold_left (fun gs p => add_group (fst p) (snd p) gs) prs [].

  (* one entry of new_coeff_row from the coefficients g of one contraction over the duplicate rows *)
  Definition merge_col (g : list N) : res N :=
    match nonzeros g with
    | [] => match g with x :: _ => ok x | [] => fail EIndex end
    | [x] => ok x
    | _ :: _ :: _ => fail ERuntime
    end.

  Definition merge_group (g : group) : res (option (N * list N)) :=
    let '(e, rows) := g in
    match rows with
    | [row] => if all0 row then ok None else ok (Some (e, row))
    | _ => do newrow <- mapM merge_col (transpose rows);
           if all0 newrow then ok None else ok (Some (e, newrow))
    end.

  Fixpoint merge_groups (gs : list group) : res (list (N * list N)) :=
    match gs with
    | [] => ok []
    | g :: t => do r <- merge_group g; do rest <- merge_groups t;
                ok (match r with Some p => p :: rest | None => rest end)
    end.

  Definition prune_shell (s : shell) : res shell :=
    do prs <- pair_rows (exps s) (transpose (coefs s));
    do kept <- merge_groups (build_groups prs);
    ok (mkShell (ftype s) (region s) (am s) (map fst kept) (transpose (map snd kept))).

  (* ---------- structural equality of shells (Python dict ==) ---------- *)
  Definition shell_eqb (a b : shell) : bool :=
    String.eqb (ftype a) (ftype b) && String.eqb (region a) (region b) && list_eqb Z.eqb (am a) (am b)
    && list_eqb eqN (exps a) (exps b) && list_eqb (list_eqb eqN) (coefs a) (coefs b).

  Fixpoint dedupe_shells (shs acc : list shell) : list shell :=
    match shs with
    | [] => acc
    | s :: t => if existsb (shell_eqb s) acc then dedupe_shells t acc else dedupe_shells t (acc ++ [s])
    end.

  Definition prune_shells (shs : list shell) : res (list shell) :=
    do ps <- mapM prune_shell shs; ok (dedupe_shells ps []).
  Definition prune_basis (b : basis) : res basis := mapM_elems (map_shellsM prune_shells) b.

  (* ---------- uncontract_spdf ---------- *)
  (* _split_function_type: a part holding only s and p functions loses the spherical/cartesian tag *)
  Definition zmax (a : list Z) : Z := fold_left Z.max a (hd 0%Z a).
  Fixpoint stake (n : nat) (s : string) : string :=
    match n, s with
    | S k, String c t => String c (stake k t)
    | _, _ => EmptyString
    end.
  Definition strip_suffix (suf s : string) : option string :=
    if str_suffix suf s then Some (stake (String.length s - String.length suf) s) else None.
  Definition split_function_type (ft : string) (a : list Z) : string :=
    match a with
    | [] => ft
    | _ => if (zmax a <=? 1)%Z then
             match strip_suffix "_spherical" ft with
             | Some r => r
             | None => match strip_suffix "_cartesian" ft with Some r => r | None => ft end
             end
           else ft
    end.
  (* walk am[g], coeff[g] for g in range(len(coefficients)); am[g] beyond the list is an IndexError *)
  Fixpoint split_fused (max_am : Z) (s : shell) (ams : list Z) (cs : list (list N))
           (kept_am : list Z) (kept_c : list (list N)) (out : list shell) : res (list Z * list (list N) * list shell) :=
    match cs with
    | [] => ok (kept_am, kept_c, out)
    | c :: cs' =>
      match ams with
      | [] => fail EIndex
      | l :: ams' =>
        if (l >? max_am)%Z
        then split_fused max_am s ams' cs' kept_am kept_c
                          (out ++ [mkShell (split_function_type (ftype s) [l]) (region s) [l] (exps s) [c]])
        else split_fused max_am s ams' cs' (kept_am ++ [l]) (kept_c ++ [c]) out
      end
    end.

  (* the loop over el['electron_shells'] with newshells.append / newshells.insert(0, ..) *)
  Fixpoint unc_spdf_shells (max_am : Z) (shs : list shell) (news : list shell) : res (list shell) :=
    match shs with
    | [] => ok news
    | s :: t =>
      if Nat.ltb 1 (List.length (am s)) then
        do r <- split_fused max_am s (am s) (coefs s) [] [] [];
        let '(ka, kc, out) := r in
        (* `if newsh['angular_momentum']: newshells.insert(0, newsh)`: no shell is emitted for an empty low part *)
        unc_spdf_shells max_am t ((match ka with [] => [] | _ => [mkShell (split_function_type (ftype s) ka) (region s) ka (exps s) kc] end) ++ (news ++ out))
      else unc_spdf_shells max_am t (news ++ [s])
    end.
  Definition uncontract_spdf (max_am : Z) (b : basis) : res basis :=
    mapM_elems (map_shellsM (fun shs => unc_spdf_shells max_am shs [])) b.

  (* ---------- uncontract_general ---------- *)
  Definition unc_gen_shell (s : shell) : list shell :=
    if orb (Nat.eqb (List.length (coefs s)) 1) (Nat.ltb 1 (List.length (am s))) then [s]
    else if Nat.eqb (List.length (am s)) 1
         then map (fun c => mkShell (ftype s) (region s) (am s) (exps s) [c]) (coefs s)
         else [].
  Definition unc_gen_shells (shs : list shell) : list shell := flat_map unc_gen_shell shs.
  Definition uncontract_general (b : basis) : res basis :=
    prune_basis (map_elems (map_shells unc_gen_shells) b).

  (* ---------- uncontract_segmented ---------- *)
  Definition unit_shell (s : shell) (x : N) : shell :=
    mkShell (ftype s) (region s) (am s) [x] (transpose [repeat one_lit (List.length (am s))]).
  (* the unit shells without the seen-set: one per occurrence of a primitive *)
  Definition unc_seg_shell (s : shell) : list shell := map (unit_shell s) (exps s).

  (* seen_primitives: (am, float(exponent)) for every single momentum am already emitted with that primitive for this element;
     a primitive of a combined shell is emitted for the momenta that are still missing (new_am), not at all if none is *)
  Definition prim := (Z * N)%type.
  Definition prim_seen (l : Z) (x : N) (seen : list prim) : bool :=
    existsb (fun p => andb (Z.eqb (fst p) l) (same (snd p) x)) seen.
  Definition unit_shell_am (s : shell) (ams : list Z) (x : N) : shell :=
    mkShell (if Nat.eqb (List.length ams) (List.length (am s)) then ftype s else split_function_type (ftype s) ams)
            (region s) ams [x]
            (map (fun _ => [one_lit]) ams).
  Fixpoint unc_seg_prims (s : shell) (xs : list N) (seen : list prim) : list shell * list prim :=
    match xs with
    | [] => ([], seen)
    | x :: t =>
      let new_am := filter (fun l => negb (prim_seen l x seen)) (am s) in
      match new_am with
      | [] => unc_seg_prims s t seen
      | _ => let '(out, seen') := unc_seg_prims s t (seen ++ map (fun l => (l, x)) new_am) in
             (unit_shell_am s new_am x :: out, seen')
      end
    end.
  Fixpoint unc_seg_shells (shs : list shell) (seen : list prim) : list shell :=
    match shs with
    | [] => []
    | s :: t => let '(out, seen') := unc_seg_prims s (exps s) seen in out ++ unc_seg_shells t seen'
    end.
  Definition uncontract_segmented (b : basis) : basis :=
    map_elems (map_shells (fun shs => unc_seg_shells shs [])) b.

  (* ---------- make_general ---------- *)
  Fixpoint am_leb (a b : list Z) : bool :=      (* list comparison used by sorted(all_am) *)
    match a, b with
    | [], _ => true
    | _ :: _, [] => false
    | x :: a', y :: b' => if (x <? y)%Z then true else if (y <? x)%Z then false else am_leb a' b'
    end.
  Fixpoint insert_am (a : list Z) (l : list (list Z)) : list (list Z) :=
    match l with
    | [] => [a]
    | b :: t => if am_leb a b then a :: l else b :: insert_am a t
    end.
  Definition am_eqb (a b : list Z) : bool := list_eqb Z.eqb a b.

  (* all_am: the distinct single-momentum lists in order of first appearance, then sorted *)
  Fixpoint collect_am (shs : list shell) (acc : list (list Z)) : list (list Z) :=
    match shs with
    | [] => acc
    | s :: t => if Nat.ltb 1 (List.length (am s)) then collect_am t acc
                else if existsb (am_eqb (am s)) acc then collect_am t acc else collect_am t (acc ++ [am s])
    end.
  Definition sorted_am (shs : list shell) : list (list Z) := fold_right insert_am [] (collect_am shs []).

  Definition pad_coef (cur nprim : nat) (c : list N) : list N :=
    let pre := repeat zero_lit cur ++ c in
    pre ++ repeat zero_lit (nprim - List.length pre).

  (* second loop over the shells of one momentum: function-type check, padded coefficient rows *)
  Fixpoint gen_coefs (a : list Z) (shs : list shell) (nprim cur : nat) (ft : option string)
    : res (option string * list (list N)) :=
    match shs with
    | [] => ok (ft, [])
    | s :: t =>
      if negb (am_eqb (am s) a) then gen_coefs a t nprim cur ft else
      let ft1 := match ft with None => ftype s | Some f => f end in
      let ft2 := ftype s in
      if andb (negb (infix ft1 ft2)) (negb (infix ft2 ft1)) then fail ERuntime else
      do r <- gen_coefs a t nprim (cur + List.length (exps s)) (Some ft1);
      ok (fst r, map (pad_coef cur nprim) (coefs s) ++ snd r)
    end.

  Definition general_shell (shs : list shell) (a : list Z) : res shell :=
    let xs := flat_map (fun s => if am_eqb (am s) a then exps s else []) shs in
    do r <- gen_coefs a shs (List.length xs) 0 None;
    (* function_type stays None only when no shell has this momentum, which cannot happen for a in all_am *)
    ok (mkShell (match fst r with Some f => f | None => "" end) "" a xs (snd r)).

  Definition make_general_shells (shs : list shell) : res (list shell) :=
    let fused := filter (fun s => Nat.ltb 1 (List.length (am s))) shs in
    do gens <- mapM (general_shell shs) (sorted_am shs);
    ok (fused ++ gens).

  Definition make_general (skip_spdf : bool) (b : basis) : res basis :=
    do b1 <- (if skip_spdf then ok b else uncontract_spdf 0 b);
    do b2 <- mapM_elems (map_shellsM make_general_shells) b1;
    prune_basis b2.

  (* ---------- free primitives ---------- *)
  Definition is_single_column (c : list N) : bool := Nat.eqb (List.length (nonzeros c)) 1.

  (* the momenta that go with the kept (contracted) columns of a fused shell; am[c] beyond the list is an IndexError,
     which cannot happen when there is one contraction per momentum *)
  Fixpoint kept_am (ams : list Z) (cs : list (list N)) : list Z :=
    match ams, cs with
    | l :: ams', c :: cs' => if is_single_column c then kept_am ams' cs' else l :: kept_am ams' cs'
    | _, _ => []
    end.
  (* what is left of a fused shell may hold s and p functions only: it then loses the spherical/cartesian tag, like the parts
     uncontract_spdf splits off *)
  Definition rm_ftype (s : shell) : string :=
    if Nat.ltb 1 (List.length (am s)) then split_function_type (ftype s) (kept_am (am s) (coefs s)) else ftype s.
  Definition rm_free_shell (s : shell) : list shell :=
    let cs := filter (fun c => negb (is_single_column c)) (coefs s) in
    match cs with
    | [] => []
    | _ => [mkShell (rm_ftype s) (region s)
                    (if Nat.ltb 1 (List.length (am s)) then kept_am (am s) (coefs s) else am s) (exps s) cs]
    end.
  Definition remove_free_primitives (b : basis) : res basis :=
    prune_basis (map_elems (map_shells (flat_map rm_free_shell)) b).

  (* ---------- optimize_general ---------- *)
  (* indices of the non-zero entries of a column, restricted to range(nprim) *)
  Fixpoint nz_rows (col : list N) (i : nat) (nprim : nat) : list nat :=
    match nprim, col with
    | O, _ => []
    | S k, x :: t => if is0 x then nz_rows t (S i) k else i :: nz_rows t (S i) k
    | S _, [] => []     (* col[row_idx] would be an IndexError; excluded by rectangular input *)
    end.

  (* the double loop building row_col_pairs; RuntimeError when a row is hit twice *)
  Fixpoint pairs_of (cols : list (list N)) (idx : nat) (nprim : nat) (seen : list nat) (acc : list (nat * nat))
    : res (list (nat * nat)) :=
    match cols with
    | [] => ok acc
    | c :: t =>
      if is_single_column c then
        (fix rows (rs : list nat) (seen : list nat) (acc : list (nat * nat)) : res (list (nat * nat)) :=
           match rs with
           | [] => pairs_of t (S idx) nprim seen acc
           | r :: rs' => if existsb (Nat.eqb r) seen then fail ERuntime
                         else rows rs' (seen ++ [r]) (acc ++ [(r, idx)])
           end) (nz_rows c 0 nprim) seen acc
      else pairs_of t (S idx) nprim seen acc
    end.

  Fixpoint set_nth (l : list N) (n : nat) (v : N) : list N :=
    match l, n with
    | [], _ => []
    | _ :: t, O => v :: t
    | x :: t, S k => x :: set_nth t k v
    end.

  (* for idx, col in enumerate(coefficients): if float(col[row]) != 0 and col_idx != idx: col[row] = lit *)
  Fixpoint zero_row (cols : list (list N)) (idx row col_idx : nat) : list (list N) :=
    match cols with
    | [] => []
    | c :: t =>
      let c' := match nth_error c row with
                | Some x => if andb (negb (is0 x)) (negb (Nat.eqb col_idx idx)) then set_nth c row ozero_lit else c
                | None => c
                end in
      c' :: zero_row t (S idx) row col_idx
    end.

  Definition opt_shell (s : shell) : res shell :=
    if orb (Nat.ltb 1 (List.length (am s))) (Nat.ltb (List.length (coefs s)) 2) then ok s else
    do prs <- pairs_of (coefs s) 0 (List.length (exps s)) [] [];
    ok (mkShell (ftype s) (region s) (am s) (exps s)
                (fold_left (fun cols rc => zero_row cols 0 (fst rc) (snd rc)) prs (coefs s))).

  Definition optimize_general (b : basis) : res basis :=
    do g <- make_general true b;
    mapM_elems (map_shellsM (mapM opt_shell)) g.

End Manip.
