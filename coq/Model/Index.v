(* Model of curate/metadata.py:create_metadata_file and of the index queries of api.py. *)
From BSE Require Import Model.Val Model.Elements Model.Compose Gen.GenApi.

Definition ends_with (suf s : string) : bool := str_suffix suf s.
Definition is_special (b : string) : bool := orb (String.eqb b "METADATA.json") (String.eqb b "REFERENCES.json").

(* get_all_filelist: (metadata files, table files) among the paths of the directory *)
Definition meta_files (d : datadir) : list string :=
  filter (fun p => andb (negb (is_special (basename p))) (ends_with ".metadata.json" (basename p))) (map fst d).
Definition table_files (d : datadir) : list string :=
  filter (fun p => andb (negb (is_special (basename p)))
                        (andb (negb (ends_with ".metadata.json" (basename p))) (ends_with ".table.json" (basename p)))) (map fst d).

(* decimal int() of an element key, for sorted(keys, key=int) *)
Definition int_of_key (s : string) : res Z := if isdecimal s then ok (digits_val s 0) else fail EValue.
Fixpoint insert_by_int (x : Z * string) (l : list (Z * string)) : list (Z * string) :=
  match l with
  | [] => [x]
  | y :: t => if (fst y <=? fst x)%Z then y :: insert_by_int x t else x :: l
  end.
Definition sort_keys_int (ks : list string) : res (list string) :=
  do zs <- mapM (fun k => do z <- int_of_key k; ok (z, k)) ks;
  ok (map snd (fold_left (fun acc x => insert_by_int x acc) zs [])).

(* sorted(dict.items()) by key; max of keys (string order) *)
Fixpoint insert_kv {V} (x : string * V) (l : list (string * V)) : list (string * V) :=
  match l with
  | [] => [x]
  | y :: t => if str_ltb (fst x) (fst y) then x :: l else y :: insert_kv x t
  end.
Definition sort_items {V} (d : list (string * V)) : list (string * V) := fold_left (fun acc x => insert_kv x acc) d [].
Definition str_max (l : list string) : res string :=
  match l with
  | [] => fail EValue
  | x :: t => ok (fold_left (fun m y => if str_ltb m y then y else m) t x)
  end.

(* max(versions, key = (0, int(v)) if v.isdigit() else (1, v)): numeric versions by value, others after them by string *)
Definition ver_ltb (a b : string) : bool :=
  match isdecimal a, isdecimal b with
  | true, true => (digits_val a 0 <? digits_val b 0)%Z
  | true, false => true
  | false, true => false
  | false, false => str_ltb a b
  end.
Definition ver_max (l : list string) : res string :=
  match l with
  | [] => fail EValue
  | x :: t => ok (fold_left (fun m y => if ver_ltb m y then y else m) t x)
  end.

Definition val_eqb_strs (a b : val) : bool :=
  match a, b with
  | VList x, VList y =>
    (fix go (x y : list val) : bool :=
       match x, y with
       | [], [] => true
       | VStr p :: x', VStr q :: y' => andb (String.eqb p q) (go x' y')
       | _, _ => false
       end) x y
  | _, _ => false
  end.

Fixpoint remove_first (x : string) (l : list string) : list string :=
  match l with
  | [] => []
  | y :: t => if String.eqb x y then t else y :: remove_first x t
  end.

(* the per-metadata-file part: version_info, function types, common record *)
Definition one_meta (d : datadir) (meta_relpath : string) : res (list (string * val)) :=
  do bs_metadata <- read_json_basis d meta_relpath;
  let base_relpath := dirname meta_relpath in
  let base_filename := hd "" (split_on "." (basename meta_relpath)) +++ "." in
  let these := filter (fun x => andb (String.eqb (dirname x) base_relpath) (str_prefix base_filename (basename x)))
                      (table_files d) in
  do vers <- mapM (fun tf =>
      match split_on "." (basename tf) with
      | [_; ver; _; _] =>
        do bs <- compose_table_basis d tf;
        do els <- (do e <- vfield "elements" bs; vdict e);
        do defined <- sort_keys_int (map fst els);
        do ft <- vfield "function_types" bs;
        do rd <- vfield "revision_description" bs;
        do rdate <- vfield "revision_date" bs;
        ok (ver, ft, bs, VDict [("file_relpath", VStr tf); ("revdesc", rd); ("revdate", rdate); ("elements", VStrs defined)])
      | _ => fail EValue
      end) these;
  match vers with
  | [] => fail EValue                       (* max() of an empty sequence *)
  | (_, ft0, _, _) :: _ =>
    if forallb (fun v => val_eqb_strs (snd (fst (fst v))) ft0) vers then
      let version_info := sort_items (fold_left (fun acc v => assoc_set (fst (fst (fst v))) (snd v) acc) vers []) in
      do latest <- ver_max (map fst version_info);
      let bs := snd (fst (last vers (EmptyString, VNone, VNone, VNone))) in
      do description <- vfield "description" bs;
      do tags <- vfield "tags" bs;
      do family <- vfield "family" bs;
      do role <- vfield "role" bs;
      do aux <- vfield "auxiliaries" bs;
      do names <- (do n <- vfield "names" bs_metadata; do l <- vlist n; mapM vstr l);
      mapM (fun nm =>
              ok (transform_basis_name nm,
                  VDict [("display_name", VStr nm);
                         ("other_names", VStrs (remove_first nm names));
                         ("description", description); ("latest_version", VStr latest); ("tags", tags);
                         ("basename", VStr (hd "" (split_on "." (basename meta_relpath))));
                         ("relpath", VStr base_relpath); ("family", family); ("role", role);
                         ("function_types", ft0); ("auxiliaries", aux); ("versions", VDict version_info)])) names
    else fail ERuntime
  end.

(* create_metadata_file: all metadata files, duplicate transformed names refused, sorted by key *)
Fixpoint add_entries (acc : list (string * val)) (es : list (string * val)) : res (list (string * val)) :=
  match es with
  | [] => ok acc
  | (k, v) :: t => match assoc k acc with
                   | Some _ => fail ERuntime
                   | None => add_entries (acc ++ [(k, v)]) t
                   end
  end.
Fixpoint collect_meta (d : datadir) (files : list string) (acc : list (string * val)) : res (list (string * val)) :=
  match files with
  | [] => ok acc
  | f :: t => do es <- one_meta d f; do acc' <- add_entries acc es; collect_meta d t acc'
  end.
Definition create_metadata (d : datadir) : res val :=
  do m <- collect_meta d (meta_files d) []; ok (VDict (sort_items m)).

(* ---------------- queries over the index ---------------- *)
Definition index_of (d : datadir) : res (list (string * val)) :=
  match assoc "METADATA.json" d with Some (VDict m) => ok m | Some _ => fail EType | None => fail EOther end.

Definition entry_str (k : string) (e : val) : res string := do v <- vfield k e; vstr v.

Definition sort_strs (l : list string) : list string :=
  fold_left (fun acc x => (fix ins (l : list string) : list string :=
                             match l with
                             | [] => [x]
                             | y :: t => if str_ltb x y then x :: l else y :: ins t
                             end) acc) l [].

Definition get_all_basis_names (m : list (string * val)) : res (list string) :=
  do names <- mapM (fun kv => entry_str "display_name" (snd kv)) m; ok (sort_strs names).
Definition get_families (m : list (string * val)) : res (list string) :=
  do fs <- mapM (fun kv => entry_str "family" (snd kv)) m; ok (sorted_set fs).

Definition is_role (r : string) : bool := existsb (fun kv => String.eqb (fst kv) r) roles.

Definition lookup_basis_by_role (m : list (string * val)) (primary role : string) : res (list string) :=
  let role := lower role in
  if negb (is_role role) then fail ERuntime else
  do e <- match assoc (transform_basis_name primary) m with Some e => ok e | None => fail EKey end;
  do aux <- vfield "auxiliaries" e;
  do ad <- vdict aux;
  match assoc role ad with
  | None => fail ERuntime
  | Some (VStr s) => ok [s]
  | Some (VList l) => mapM vstr l
  | Some _ => fail EType
  end.

(* elements <= set(v['elements']) *)
Definition subset_strs (a b : list string) : bool := forallb (fun x => existsb (String.eqb x) b) a.

Definition filter_versions (want : list string) (e : val) : res val :=
  do ed <- vdict e;
  do vers <- (do v <- vfield "versions" e; vdict v);
  do kept <- mapM (fun kv => do els <- (do x <- vfield "elements" (snd kv); do l <- vlist x; mapM vstr l);
                             ok (if subset_strs want els then [kv] else [])) vers;
  ok (VDict (assoc_set "versions" (VDict (concat kept)) ed)).

Definition has_versions (e : val) : bool :=
  match e with VDict d => match assoc "versions" d with Some (VDict (_ :: _)) => true | _ => false end | _ => false end.

Definition filter_basis_sets (m : list (string * val)) (substr family role : option string) (elements : option elsel)
  : res (list (string * val)) :=
  do m1 <- match family with
           | None => ok m
           | Some f => let f := lower f in
                       do fams <- get_families m;
                       if existsb (String.eqb f) fams
                       then do keep <- mapM (fun kv => do x <- entry_str "family" (snd kv); ok (if String.eqb x f then [kv] else [])) m;
                            ok (concat keep)
                       else fail ERuntime
           end;
  do m2 <- match role with
           | None => ok m1
           | Some r => let r := lower r in
                       if is_role r
                       then do keep <- mapM (fun kv => do x <- entry_str "role" (snd kv); ok (if String.eqb x r then [kv] else [])) m1;
                            ok (concat keep)
                       else fail ERuntime
           end;
  do m3 <- match elements with
           | None => ok m2
           | Some sel => do zs <- expand_elements sel;
                         let want := map Z_to_string zs in
                         do m' <- mapM (fun kv => do e <- filter_versions want (snd kv); ok (fst kv, e)) m2;
                         ok (filter (fun kv => has_versions (snd kv)) m')
           end;
  match substr with
  | None => ok m3
  | Some "" => ok m3
  | Some s => let s := lower s in
              do keep <- mapM (fun kv => do dn <- entry_str "display_name" (snd kv);
                                         ok (if infix s (lower dn) then [kv] else [])) m3;
              ok (concat keep)
  end.
