(* Model of the PQS writer (there is NO reader for this format):
     writers/pqs.py        write_pqs, write_pqs_electron_basis
     writers/gamess_us.py  write_gamess_us_ecp_basis(basis, ecp_elements, ecp_block=False)   (the ECP part, without $ECP / $END)
     printing.py           write_matrix([exponents, *coefficients], point_places)
     lut.py                element_sym_from_Z(z, normalize=True), amint_to_char(am, hij=True, use_L=True)
   The ECP elements are printed by the very loop body of the GAMESS-US writer: Model/GamessUsEcp.v gus_write_ecp_element is
   reused.  `epot`, leftpad_check: Model/NwchemEcp.v.  Text is a string of bytes, as everywhere in Model/.
   Definitions only; statements in Proofs/PqsDefs.v, proofs in Proofs/PqsSpec.v. *)
From BSE Require Import Model.Val Model.Text Model.Num Model.Basis Model.Manip Model.Matrix Model.Lut Model.Elements
                        Model.Nwchem Model.NwchemEcp Model.G94 Model.GamessUs Model.GamessUsEcp.

(* ------------------------------------------------------------------ *)
(* write_pqs_electron_basis                                            *)
(* ------------------------------------------------------------------ *)
(* point_places = [4 + 8 * i + 15 * (i - 1) for i in range(1, ncol + 1)]   with ncol = len(coefficients) + 1 *)
Definition pqs_point_places (ncol : nat) : list Z :=
  map (fun i => (4 + 8 * i + 15 * (i - 1))%Z) (zrange 1 ncol).

(* [exponents, *coefficients] *)
Definition pqs_cols (s : sshell) : list (list cell) := map CStr (exps s) :: map (map CStr) (coefs s).

(* one iteration of `for shell in data['electron_shells']`:
     amchar = lut.amint_to_char(am, hij=True, use_L=True).upper()
     mat = printing.write_matrix([exponents, *coefficients], point_places)
     if mat[0] == ' ':  mat = amchar + mat[1:]        (the letter takes the place of the first blank)
     else:              mat = amchar + mat            (no blank in front of the first exponent: nothing is cut off)
   mat[0] of the empty string (a shell without primitives, or with an empty column) is an IndexError *)
Definition pqs_write_shell (s : sshell) : res string :=
  let ncol := (List.length (coefs s) + 1)%nat in
  do amchar <- amint_to_char (am s) true true;
  do _ <- leftpad_check (pqs_cols s) (pqs_point_places ncol);
  do mat <- write_matrix (pqs_cols s) (pqs_point_places ncol) false;
  match mat with
  | EmptyString => fail EIndex
  | String c r => ok (if Ascii.eqb c " " then upper amchar +++ r else upper amchar +++ mat)
  end.

(* one iteration of `for z in electron_elements`: el_sym = lut.element_sym_from_Z(z, normalize=True);
   s += 'FOR        ' + el_sym + "\n" *)
Definition pqs_write_element (zs : Z * list sshell) : res string :=
  let '(z, shs) := zs in
  do sym <- element_sym_from_Z z true;
  do body <- mapM pqs_write_shell shs;
  ok ("FOR        " +++ sym +++ nl1 +++ String.concat "" body).

(* write_pqs_electron_basis(basis, electron_elements); called only `if electron_elements:` - for no element the result
   is '' as well *)
Definition pqs_write_electron (els : list (Z * list sshell)) : res string :=
  do parts <- mapM pqs_write_element els;
  ok (String.concat "" parts).

(* ------------------------------------------------------------------ *)
(* the ECP part                                                        *)
(* ------------------------------------------------------------------ *)
(* if ecp_elements:  s += '\n\n';  s += 'Effective core Potentials\n';  s += '-------------------------\n'
                     s += write_gamess_us_ecp_basis(basis, ecp_elements, ecp_block=False) *)
Definition pqs_write_ecp (ecps : list (Z * (Z * list epot))) : res string :=
  match ecps with
  | [] => ok ""
  | _ =>
    do parts <- mapM gus_write_ecp_element ecps;
    ok (nl1 +++ nl1 +++ "Effective core Potentials" +++ nl1 +++ "-------------------------" +++ nl1 +++
        String.concat "" parts)
  end.

(* ------------------------------------------------------------------ *)
(* write_pqs                                                           *)
(* ------------------------------------------------------------------ *)
(* INPUT: the two views of basis['elements'] AFTER the two normalisation calls of write_pqs, in this order:
       basis = manip.make_general(basis, True)        (skip_spdf=True: all shells of one momentum of an element become ONE
                                                        shell with general contractions, zero-padded; fused sp.. shells are
                                                        left alone)
       basis = sort.sort_basis(basis, False)
     els  = [(z, data['electron_shells'])                       for the elements that have the key 'electron_shells']
     ecps = [(z, (data['ecp_electrons'], data['ecp_potentials'])) for the elements that have the key 'ecp_potentials']
   both in dictionary order.  Nothing else of the dictionary is printed.
   The text: per element `FOR        Sym`, per shell the matrix exponents | contraction 1 | contraction 2 ..., the LETTER in
   the first column of its first line; then, if there is an ECP, two newlines, the two title lines and the GAMESS-US ECP
   blocks (`SYM-ECP GEN    nelec    lmax`, per potential a title line and the terms coefficient | r exponent | gaussian
   exponent), highest momentum first.  Every line ends with a newline. *)
Definition pqs_write_all (els : list (Z * list sshell)) (ecps : list (Z * (Z * list epot))) : res string :=
  do a <- pqs_write_electron els;
  do b <- pqs_write_ecp ecps;
  ok (a +++ b).
