(* Model of the ECP part of the Turbomole writer / reader pair, and of the whole file ($basis section + $ecp section):
     writers/turbomole.py  write_turbomole      (the `$ecp` section: `sym name-ecp`, `*`, `ncore = N   lmax = L`, one block per
                                                 potential - a letter line `l` or `l-lmax` and the table coefficient / r exponent /
                                                 gaussian exponent - `*`; and the whole text `$basis * ... $ecp * ... $end`)
     readers/turbomole.py  read_turbomole, _parse_ecp_lines, _parse_ecp_potential_lines
                           (element_re, ecp_info_re, ecp_pot_am_re; _parse_electron_lines is Model/Turbomole.v)
     readers/helpers.py    prune_lines, partition_lines (also with before=1), parse_line_regex,
                           parse_ecp_table(order=['coeff', 'r_exp', 'g_exp'])
     printing.py           write_matrix([*coefficients, rexponents, gexponents], [9, 23, 32], convert_exp=True)
     lut.py                element_sym_from_Z(z) (lower case), element_Z_from_sym,
                           amint_to_char(am, hij=True) in the WRITER, amchar_to_int(c) (hij=False) in the READER
     manip.py              create_element_data (key_exist_ok=False)
   As in Model/Turbomole.v the writer is modelled AFTER its normalisation calls
     basis = manip.uncontract_general(basis, True); basis = manip.uncontract_spdf(basis, 0, False);
     basis = sort.sort_basis(basis, False)
   (sort_basis also sorts 'ecp_potentials' by angular momentum, the writer sorts them again itself), text is a string of
   bytes and the character classes (isalpha, \s, \d, [a-z]) are the ASCII ones.
   Pieces shared with the other models: the record epot, am_ltb / ecp_sorted / ecp_rotate / ecp_order / ecp_max_am / am_first /
   leftpad_check (Model/NwchemEcp.v: the two writers order the potentials with the same two statements), tm_write_element,
   tm_section_keyword, partition_lines_before, parse_element_line, span_digits, tm_parse_electron_lines (Model/Turbomole.v),
   strip_prefix_ci, add_keys, nw_el (Model/NwchemEcp.v), partition_lines, starts_alpha (Model/Nwchem.v).
   Definitions only; statements in Proofs/TurbomoleEcpDefs.v, proofs in Proofs/TurbomoleEcpSpec.v. *)
From BSE Require Import Model.Val Model.Text Model.Basis Model.Manip Model.Matrix Model.Lut Model.Elements Model.Nwchem
                        Model.NwchemEcp Model.Turbomole.

(* ------------------------------------------------------------------ *)
(* writer                                                              *)
(* ------------------------------------------------------------------ *)

(* point_places = [9, 23, 32];  the matrix is [*coefficients, rexponents, gexponents]: every coefficient column first *)
Definition tmecp_point_places : list Z := [9; 23; 32]%Z.
Definition tmecp_cols (p : epot) : list (list cell) :=
  map (map CStr) (p_coef p) ++ [map CInt (p_rexp p); map CStr (p_gexp p)].

(* the body of `for pot in ecp_list`:
     amchar = lut.amint_to_char(am, hij=True)
     s += '{}\n'.format(amchar)  if am[0] == max_ecp_am  else  '{}-{}\n'.format(amchar, max_ecp_amchar)
     s += printing.write_matrix([*coefficients, rexponents, gexponents], point_places, convert_exp=True)
   (leftpad_check: the first statement of write_matrix looks at point_place[i] for every column and at the decimal point of
   every cell before anything is printed) *)
Definition tmecp_write_pot (max_ecp_am : Z) (max_ecp_amchar : string) (p : epot) : res string :=
  do amchar <- amint_to_char (p_am p) true false;
  do a0 <- am_first p;
  let head := if Z.eqb a0 max_ecp_am then amchar +++ nl1 else amchar +++ "-" +++ max_ecp_amchar +++ nl1 in
  do _ <- leftpad_check (tmecp_cols p) tmecp_point_places;
  do m <- write_matrix (tmecp_cols p) tmecp_point_places true;
  ok (head +++ m).

(* one iteration of `for z in ecp_elements`: (Z, (data['ecp_electrons'], data['ecp_potentials'])).
     sym = lut.element_sym_from_Z(z);  '{} {}-ecp\n'.format(sym, basis['name']);  '*\n'
     max_ecp_am = max([x['angular_momentum'][0] for x in data['ecp_potentials']])
     max_ecp_amchar = lut.amint_to_char([max_ecp_am], hij=True)
     ecp_list = sorted(..., key=angular_momentum); ecp_list.insert(0, ecp_list.pop())
     '  ncore = {}   lmax = {}\n'.format(data['ecp_electrons'], max_ecp_am);  the potentials;  '*\n' *)
Definition tmecp_write_ecp_element (bsname : string) (e : Z * (Z * list epot)) : res string :=
  let '(z, (nelec, pots)) := e in
  do sym <- element_sym_from_Z z false;
  do mx <- ecp_max_am pots;
  do mxchar <- amint_to_char [mx] true false;
  do ecp_list <- ecp_order pots;
  do body <- mapM (tmecp_write_pot mx mxchar) ecp_list;
  ok (sym +++ " " +++ bsname +++ "-ecp" +++ nl1 +++ "*" +++ nl1 +++
      "  ncore = " +++ Z_to_string nelec +++ "   lmax = " +++ Z_to_string mx +++ nl1 +++
      String.concat "" body +++ "*" +++ nl1).

(* `if ecp_elements:` s += '$ecp\n' + '*\n' + the elements.  Nothing is written when no element has 'ecp_potentials'. *)
Definition tmecp_write_ecp (bsname : string) (ecps : list (Z * (Z * list epot))) : res string :=
  match ecps with
  | [] => ok ""
  | _ =>
    do parts <- mapM (tmecp_write_ecp_element bsname) ecps;
    ok ("$ecp" +++ nl1 +++ "*" +++ nl1 +++ String.concat "" parts)
  end.

(* write_turbomole after its three normalisation calls.
     role   = basis.get('role', 'orbital');  bsname = basis['name']
     els    = [(z, data['electron_shells'])]                          for the elements that have 'electron_shells',
     ecps   = [(z, (data['ecp_electrons'], data['ecp_potentials']))]  for the elements that have 'ecp_potentials',
   both in dictionary order (the two views of basis['elements']; an element may be in one of them or in both).
   The section keyword and the first `*` are written even when there is no electron element. *)
Definition tmecp_write (role bsname : string) (els : list (Z * list sshell)) (ecps : list (Z * (Z * list epot)))
  : res string :=
  do parts <- mapM (tm_write_element bsname) els;
  do e <- tmecp_write_ecp bsname ecps;
  ok (tm_section_keyword role +++ nl1 +++ "*" +++ nl1 +++ String.concat "" parts +++ e +++ "$end" +++ nl1).

(* ------------------------------------------------------------------ *)
(* reader: the regular expressions of the ECP section                  *)
(* ------------------------------------------------------------------ *)

(* ecp_info_re = ^ncore\s*=\s*(\d+)\s+lmax\s*=\s*(\d+)$ with re.IGNORECASE, against a whole (stripped) line.  Every
   starred group is followed by a character outside its class, so the match is deterministic: white space and digit runs
   are maximal. *)
Definition match_ecp_info (l : string) : option (string * string) :=
  match strip_prefix_ci "ncore" l with
  | None => None
  | Some r1 =>
    match lstrip_ws r1 with
    | String "=" r2 =>
      let '(d1, r3) := span_digits (lstrip_ws r2) in
      match d1, r3 with
      | String _ _, String c _ =>
        if is_space c then
          match strip_prefix_ci "lmax" (lstrip_ws r3) with
          | None => None
          | Some r4 =>
            match lstrip_ws r4 with
            | String "=" r5 =>
              let '(d2, r6) := span_digits (lstrip_ws r5) in
              match d2, r6 with
              | String _ _, EmptyString => Some (d1, d2)
              | _, _ => None
              end
            | _ => None
            end
          end
        else None
      | _, _ => None
      end
    | _ => None
    end
  end.

(* ecp_pot_am_re = ^([a-z])(-[a-z])?$ : one lower-case letter, or letter - letter (no IGNORECASE here) *)
Definition match_pot_am (l : string) : option (ascii * option ascii) :=
  match l with
  | String a EmptyString => if is_lower a then Some (a, None) else None
  | String a (String "-" (String b EmptyString)) => if andb (is_lower a) (is_lower b) then Some (a, Some b) else None
  | _ => None
  end.

(* helpers.parse_ecp_table(lines, order=['coeff', 'r_exp', 'g_exp']): Model.Matrix.parse_ecp_table with the three tokens of
   a line taken in the order coefficient, r exponent, gaussian exponent.  Result: (r_exp, g_exp, coeff). *)
Definition parse_ecp_table_crg (lines : list string) : res (list Z * list string * list (list string)) :=
  do rows <- mapM (fun l => match split_ws (replace_d (strip_ws l)) with
                            | [c; a; b] => ok (a, b, c)
                            | _ => fail ERuntime
                            end) lines;
  let r := map (fun x => fst (fst x)) rows in
  let g := map (fun x => snd (fst x)) rows in
  let c := map snd rows in
  if negb (forallb is_integer r) then fail ERuntime else
  if negb (forallb is_floating g) then fail ERuntime else
  if negb (forallb is_floating c) then fail ERuntime else
  ok (map (fun s => match skip_sign s, s with
                    | d, String "-" _ => (- digits_val d 0)%Z
                    | d, _ => digits_val d 0
                    end) r, g, [c]).

(* ------------------------------------------------------------------ *)
(* reader: the ECP section                                             *)
(* ------------------------------------------------------------------ *)

(* the ECP keys of bs_data: element -> ('ecp_electrons', 'ecp_potentials'), in insertion order.  This reader creates the
   two keys together, so an element either has both or none. *)
Definition tmecp_map := list (Z * (Z * list epot)).

(* `for pot_lines in ecp_potentials` of _parse_ecp_potential_lines; found_max is the flag of the same name, acc what has
   been appended to element_data['ecp_potentials'] so far *)
Fixpoint tmecp_parse_pots (max_am : Z) (blocks : list (list string)) (found_max : bool) (acc : list epot)
  : res (list epot) :=
  match blocks with
  | [] => ok acc
  | pot_lines :: t =>
    match pot_lines with
    | [] => fail EIndex
    | first :: rest =>
      match match_pot_am first with
      | None => fail ERuntime                                           (* parse_line_regex(ecp_pot_am_re, ...) *)
      | Some (a, base) =>
        do pot_am <- amchar_to_int (String a EmptyString) false;
        do found <-
           match base with
           | Some b =>
             do pot_base_am <- amchar_to_int (String b EmptyString) false;
             match pot_base_am with
             | [] => fail EIndex
             | b0 :: _ => if negb (Z.eqb b0 max_am) then fail ERuntime else ok found_max
             end
           | None =>
             if found_max then fail ERuntime else
             match pot_am with
             | [] => fail EIndex
             | a0 :: _ => if negb (Z.eqb a0 max_am) then fail ERuntime else ok true
             end
           end;
        do tab <- parse_ecp_table_crg rest;
        let '(r, g, c) := tab in
        tmecp_parse_pots max_am t found (acc ++ [mkEpot "scalar_ecp" pot_am r g c])
      end
    end
  end.

(* _parse_ecp_potential_lines(element_lines, bs_data): element line, `ncore = .. lmax = ..`, the potential blocks.
   create_element_data(bs_data, element_Z, 'ecp_potentials') has key_exist_ok=False: RuntimeError when the element already
   has ECP keys.  An exception discards everything, so the element is entered when its potentials are complete. *)
Definition tmecp_parse_ecp_potential_lines (element_lines : list string) (pm : tmecp_map) : res tmecp_map :=
  match element_lines with
  | [] => fail EIndex
  | l0 :: t =>
    do element_sym <- parse_element_line l0;
    do element_Z <- element_Z_from_sym element_sym;
    if existsb (Z.eqb element_Z) (map fst pm) then fail ERuntime else
    match t with
    | [] => fail EIndex                                                 (* element_lines[1] *)
    | l1 :: rest =>
      match match_ecp_info l1 with
      | None => fail ERuntime
      | Some (d1, d2) =>
        let n_elec := digits_val d1 0 in
        let max_am := digits_val d2 0 in
        do ecp_potentials <- partition_lines rest starts_alpha true 2 0 0;
        do pots <- tmecp_parse_pots max_am ecp_potentials false [];
        ok (pm ++ [(element_Z, (n_elec, pots))])
      end
    end
  end.

(* first loop over element_blocks of _parse_ecp_lines.  Unlike the electron section there is no min_size=4 in front of it,
   so a block may be shorter than three lines: element_lines[0] is tested first (RuntimeError), then element_lines[2]
   (IndexError) *)
Definition tmecp_check_element_block (element_lines : list string) : res unit :=
  match element_lines with
  | [] => fail EIndex
  | l0 :: t =>
    if negb (String.eqb l0 "*") then fail ERuntime else
    match t with
    | _ :: l2 :: rest =>
      if negb (String.eqb l2 "*") then fail ERuntime else
      if existsb (str_prefix "*") rest then fail ERuntime else ok tt
    | _ => fail EIndex
    end
  end.

(* second loop: element_lines = element_lines[1:2] + element_lines[3:] *)
Fixpoint tmecp_parse_ecp_element_blocks (blocks : list (list string)) (pm : tmecp_map) : res tmecp_map :=
  match blocks with
  | [] => ok pm
  | b :: t =>
    do pm' <- tmecp_parse_ecp_potential_lines (firstn 1 (skipn 1 b) ++ skipn 3 b) pm;
    tmecp_parse_ecp_element_blocks t pm'
  end.

(* readers/turbomole.py _parse_ecp_lines; partition_lines(basis_lines, element_re.match, before=1) with the default min_size=1 *)
Definition tmecp_parse_ecp_lines (basis_lines : list string) (pm : tmecp_map) : res tmecp_map :=
  let basis_lines := prune_lines basis_lines "$" true true in
  match rev basis_lines with
  | [] => fail EIndex                                                   (* basis_lines[-1] *)
  | last :: r =>
    if negb (String.eqb last "*") then fail ERuntime else
    let basis_lines := rev r in                                         (* basis_lines.pop() *)
    do element_blocks <- partition_lines_before basis_lines (fun x => ok (is_element_line x)) 1 1;
    do _ <- mapM tmecp_check_element_block element_blocks;
    tmecp_parse_ecp_element_blocks element_blocks pm
  end.

(* ------------------------------------------------------------------ *)
(* reader: the whole file                                              *)
(* ------------------------------------------------------------------ *)

(* bs_data as three components: the keys in insertion order, the 'electron_shells' of the elements that have some
   (Model/Turbomole.v), the ECP keys (above).  A section adds its new elements at the end, in the order it meets them. *)
Definition tmecp_state := (list Z * list (Z * list sshell) * tmecp_map)%type.

(* `for s in basis_sections` of read_turbomole *)
Fixpoint tmecp_sections (sections : list (list string)) (st : tmecp_state) : res tmecp_state :=
  match sections with
  | [] => ok st
  | s :: t =>
    if forallb (str_prefix "$") s then tmecp_sections t st else         (* all(x.startswith('$') for x in s), also len 0 *)
    match s with
    | [] => tmecp_sections t st
    | first :: _ =>
      let '(order, em, pm) := st in
      if String.eqb (lower first) "$ecp" then
        do pm' <- tmecp_parse_ecp_lines s pm; tmecp_sections t (add_keys order (map fst pm'), em, pm')
      else if existsb (String.eqb first) tm_section_names then
        do em' <- tm_parse_electron_lines s em; tmecp_sections t (add_keys order (map fst em'), em', pm)
      else fail ERuntime
    end
  end.

(* readers/turbomole.py read_turbomole up to the loop over the sections *)
Definition tmecp_read_parts (lines : list string) : res tmecp_state :=
  let basis_lines := prune_lines lines "#" true true in
  do _ <- match basis_lines with
          | [] => ok tt
          | first :: _ =>
            match first with
            | EmptyString => fail EIndex                               (* basis_lines[0][0]; lines are not blank here *)
            | String c _ =>
              if negb (Ascii.eqb c "$") then fail ERuntime else
              match rev basis_lines with
              | last :: _ => if negb (String.eqb last "$end") then fail ERuntime else ok tt
              | [] => ok tt
              end
            end
          end;
  do sections <- partition_lines basis_lines
                   (fun x => ok (andb (str_prefix "$" x) (negb (String.eqb x "$end")))) true 1 1 2;
  tmecp_sections sections ([], [], []).

(* one element of the result (the record of Model/NwchemEcp.v): e_shells = [] for an absent 'electron_shells' key (a section
   that is read without error gives every element at least one shell), e_nelec = None for absent ECP keys
   ('ecp_electrons' and 'ecp_potentials' come together; e_pots = [] with e_nelec = Some n is an empty list) *)
Definition tmecp_assemble (st : tmecp_state) : list (Z * nw_el) :=
  let '(order, em, pm) := st in
  map (fun z => (z, mkNwEl (match assocZ z em with Some shs => shs | None => [] end)
                           (match assocZ z pm with Some (ne, _) => Some ne | None => None end)
                           (match assocZ z pm with Some (_, ps) => ps | None => [] end))) order.

(* readers/turbomole.py read_turbomole: bs_data, element by element in insertion order *)
Definition tmecp_read (lines : list string) : res (list (Z * nw_el)) :=
  do st <- tmecp_read_parts lines; ok (tmecp_assemble st).

Definition tmecp_roundtrip (role bsname : string) (els : list (Z * list sshell)) (ecps : list (Z * (Z * list epot)))
  : res (list (Z * nw_el)) :=
  do t <- tmecp_write role bsname els ecps; tmecp_read (splitlines t).

(* the ECP keys alone *)
Definition tmecp_roundtrip_ecp (role bsname : string) (els : list (Z * list sshell)) (ecps : list (Z * (Z * list epot)))
  : res tmecp_map :=
  do t <- tmecp_write role bsname els ecps; do st <- tmecp_read_parts (splitlines t); ok (snd st).
