(* Shared prelude of the executable model: the exchange value type (mirrors JSON as
   Python sees it), the error enum shared with the harness, a result monad and a few
   list/string helpers.  Definitions only; lemmas live in Proofs/. *)
From Coq Require Export String Ascii.
From Coq Require Export List ZArith Bool Arith Lia.
Export ListNotations.
Open Scope string_scope.
Open Scope list_scope.
(* string append; `++` is kept for lists *)
Notation "a +++ b" := (String.append a b) (at level 60, right associativity).

Inductive val : Type :=
| VNone : val
| VBool : bool -> val
| VInt : Z -> val
| VStr : string -> val
| VList : list val -> val
| VDict : list (string * val) -> val.

(* Exception classes of the implementation, compared by class only (DESIGN 2.4). *)
Inductive err : Type :=
| EKey | ERuntime | EType | EIndex | ENotImpl | EValidation | EAssert | EValue | EDecode | EOther.

Definition res (A : Type) : Type := sum err A.
Definition ok {A} (a : A) : res A := inr a.
Definition fail {A} (e : err) : res A := inl e.
Definition bind {A B} (x : res A) (f : A -> res B) : res B :=
  match x with inl e => inl e | inr a => f a end.
Notation "'do' x <- e ; k" := (bind e (fun x => k)) (at level 200, x name, e at level 100, k at level 200).

Fixpoint mapM {A B} (f : A -> res B) (l : list A) : res (list B) :=
  match l with
  | [] => ok []
  | a :: t => do b <- f a; do bs <- mapM f t; ok (b :: bs)
  end.

Definition err_name (e : err) : string :=
  match e with
  | EKey => "KeyError" | ERuntime => "RuntimeError" | EType => "TypeError" | EIndex => "IndexError"
  | ENotImpl => "NotImplementedError" | EValidation => "Validation" | EAssert => "AssertionError"
  | EValue => "ValueError" | EDecode => "DecodeError" | EOther => "Other"
  end.

(* A model reply: either the error class or a value. *)
Definition reply (r : res val) : val :=
  match r with
  | inl e => VDict [("error", VStr (err_name e))]
  | inr v => VDict [("ok", v)]
  end.

(* ---------- association lists in insertion order (Python dict) ---------- *)
Fixpoint assoc {V} (k : string) (d : list (string * V)) : option V :=
  match d with
  | [] => None
  | (k', v) :: t => if String.eqb k k' then Some v else assoc k t
  end.

Fixpoint assoc_set {V} (k : string) (v : V) (d : list (string * V)) : list (string * V) :=
  match d with
  | [] => [(k, v)]
  | (k', v') :: t => if String.eqb k k' then (k, v) :: t else (k', v') :: assoc_set k v t
  end.

Definition keys {V} (d : list (string * V)) : list string := map fst d.

(* ---------- decoding helpers ---------- *)
Definition as_str (v : val) : res string := match v with VStr s => ok s | _ => fail EDecode end.
Definition as_int (v : val) : res Z := match v with VInt z => ok z | _ => fail EDecode end.
Definition as_bool (v : val) : res bool := match v with VBool b => ok b | _ => fail EDecode end.
Definition as_list (v : val) : res (list val) := match v with VList l => ok l | _ => fail EDecode end.
Definition as_dict (v : val) : res (list (string * val)) := match v with VDict d => ok d | _ => fail EDecode end.
Definition as_nat (v : val) : res nat :=
  match v with VInt z => if (z <? 0)%Z then fail EDecode else ok (Z.to_nat z) | _ => fail EDecode end.
Definition field (k : string) (d : list (string * val)) : res val :=
  match assoc k d with Some v => ok v | None => fail EDecode end.

Definition VNat (n : nat) : val := VInt (Z.of_nat n).
Definition VStrs (l : list string) : val := VList (map VStr l).

(* ---------- characters ---------- *)
Definition ascii_ltb (a b : ascii) : bool := Nat.ltb (nat_of_ascii a) (nat_of_ascii b).
Definition is_digit (c : ascii) : bool :=
  let n := nat_of_ascii c in andb (Nat.leb 48 n) (Nat.leb n 57).
Definition is_upper (c : ascii) : bool :=
  let n := nat_of_ascii c in andb (Nat.leb 65 n) (Nat.leb n 90).
Definition is_lower (c : ascii) : bool :=
  let n := nat_of_ascii c in andb (Nat.leb 97 n) (Nat.leb n 122).
Definition is_alpha (c : ascii) : bool := orb (is_upper c) (is_lower c).
(* Python's \w restricted to ASCII *)
Definition is_word (c : ascii) : bool :=
  orb (is_alpha c) (orb (is_digit c) (Ascii.eqb c "_")).
(* Python's str.isspace / \s restricted to ASCII: \t \n \v \f \r, FS GS RS US, space *)
Definition is_space (c : ascii) : bool :=
  let n := nat_of_ascii c in
  orb (andb (Nat.leb 9 n) (Nat.leb n 13)) (orb (andb (Nat.leb 28 n) (Nat.leb n 31)) (Nat.eqb n 32)).
Definition lower_char (c : ascii) : ascii :=
  if is_upper c then ascii_of_nat (nat_of_ascii c + 32) else c.
Definition upper_char (c : ascii) : ascii :=
  if is_lower c then ascii_of_nat (nat_of_ascii c - 32) else c.

Fixpoint smap (f : ascii -> ascii) (s : string) : string :=
  match s with EmptyString => EmptyString | String c t => String (f c) (smap f t) end.
Definition lower (s : string) : string := smap lower_char s.
Definition upper (s : string) : string := smap upper_char s.
(* str.capitalize on ASCII: first upper, rest lower *)
Definition capitalize (s : string) : string :=
  match s with EmptyString => EmptyString | String c t => String (upper_char c) (lower t) end.

Fixpoint sall (p : ascii -> bool) (s : string) : bool :=
  match s with EmptyString => true | String c t => andb (p c) (sall p t) end.
Fixpoint sany (p : ascii -> bool) (s : string) : bool :=
  match s with EmptyString => false | String c t => orb (p c) (sany p t) end.

Fixpoint sjoin (sep : string) (l : list string) : string :=
  match l with
  | [] => ""
  | [x] => x
  | x :: t => x +++ sep +++ sjoin sep t
  end.

(* split on a single character, like str.split(c): always at least one piece *)
Fixpoint split_on (c : ascii) (s : string) : list string :=
  match s with
  | EmptyString => [""]
  | String a t =>
      if Ascii.eqb a c then "" :: split_on c t
      else match split_on c t with
           | [] => [String a ""]   (* unreachable *)
           | h :: r => String a h :: r
           end
  end.

Fixpoint str_prefix (p s : string) : bool :=
  match p, s with
  | EmptyString, _ => true
  | String a p', String b s' => andb (Ascii.eqb a b) (str_prefix p' s')
  | _, _ => false
  end.
Fixpoint infix (p s : string) : bool :=
  if str_prefix p s then true else
  match s with EmptyString => false | String _ t => infix p t end.
Fixpoint srev_acc (s acc : string) : string :=
  match s with EmptyString => acc | String c t => srev_acc t (String c acc) end.
Definition srev (s : string) : string := srev_acc s "".
Definition str_suffix (p s : string) : bool := str_prefix (srev p) (srev s).

(* str.replace(old, new) for non-empty old, leftmost non-overlapping; fuel = length s + 1 *)
Fixpoint drop_chars (n : nat) (s : string) : string :=
  match n, s with O, _ => s | S k, String _ t => drop_chars k t | S _, EmptyString => EmptyString end.
Fixpoint replace_fuel (fuel : nat) (old new s : string) : string :=
  match fuel with
  | O => s
  | S f =>
    match s with
    | EmptyString => EmptyString
    | String c t =>
      if str_prefix old s then new +++ replace_fuel f old new (drop_chars (String.length old) s)
      else String c (replace_fuel f old new t)
    end
  end.
Definition replace (old new s : string) : string := replace_fuel (S (String.length s)) old new s.

(* decimal rendering of integers, as Python's str(int) *)
Definition digit_char (n : nat) : ascii := ascii_of_nat (48 + n).
Fixpoint pos_digits_fuel (fuel : nat) (n : N) (acc : string) : string :=
  match fuel with
  | O => acc
  | S f => let q := N.div n 10 in let r := N.modulo n 10 in
           let acc' := String (digit_char (N.to_nat r)) acc in
           if N.eqb q 0 then acc' else pos_digits_fuel f q acc'
  end.
Definition N_to_string (n : N) : string := pos_digits_fuel (S (N.to_nat (N.log2 n))) n "".
Definition Z_to_string (z : Z) : string :=
  match z with
  | Z0 => "0"
  | Zpos p => N_to_string (Npos p)
  | Zneg p => String "-" (N_to_string (Npos p))
  end.
(* int(s) for s.isdecimal() (ASCII digits, non-empty) *)
Fixpoint digits_val (s : string) (acc : Z) : Z :=
  match s with
  | EmptyString => acc
  | String c t => digits_val t (acc * 10 + Z.of_nat (nat_of_ascii c - 48))%Z
  end.
Definition isdecimal (s : string) : bool :=
  match s with EmptyString => false | _ => sall is_digit s end.

Fixpoint zrange (lo : Z) (n : nat) : list Z :=
  match n with O => [] | S k => lo :: zrange (lo + 1)%Z k end.
(* range(a, b+1) *)
Definition zrange_incl (a b : Z) : list Z := zrange a (Z.to_nat (b - a + 1)).
