(* Model of the logic of manip.autoaux_basis and manip.autoabs_basis over exact fractions.
   The float pipeline producing the per-momentum inputs (smallest / largest primitive exponent, largest effective exponent from
   gto_R_contr and gamma) is not modelled: these arrays are inputs.  The geometric mean of AutoABS is not computed: the model
   returns the group of candidate exponents that is averaged. *)
From BSE Require Import Model.Val Gen.GenConsts.

Definition frac := (Z * Z)%type.                    (* numerator, positive denominator *)
Definition fadd (a b : frac) : frac := (fst a * snd b + fst b * snd a, snd a * snd b)%Z.
Definition fmul (a b : frac) : frac := (fst a * fst b, snd a * snd b)%Z.
Definition fleb (a b : frac) : bool := (fst a * snd b <=? fst b * snd a)%Z.
Definition fltb (a b : frac) : bool := (fst a * snd b <? fst b * snd a)%Z.
Definition fmin (a b : frac) : frac := if fleb a b then a else b.
Definition fmax (a b : frac) : frac := if fleb a b then b else a.

(* `if Z > t1: v = a1` ... applied in order: the last satisfied threshold wins *)
Definition by_thresholds (init : Z) (steps : list (Z * Z)) (z : Z) : Z :=
  fold_left (fun v s => if (z >? fst s)%Z then snd s else v) steps init.

Definition upd_min (arr : list (option frac)) (i : nat) (v : frac) : list (option frac) :=
  (fix go (l : list (option frac)) (k : nat) : list (option frac) :=
     match l with
     | [] => []
     | x :: t => match k with
                 | O => Some (match x with None => v | Some y => fmin y v end) :: t
                 | S k' => x :: go t k'
                 end
     end) arr i.
Definition upd_max (arr : list (option frac)) (i : nat) (v : frac) : list (option frac) :=
  (fix go (l : list (option frac)) (k : nat) : list (option frac) :=
     match l with
     | [] => []
     | x :: t => match k with
                 | O => Some (match x with None => v | Some y => fmax y v end) :: t
                 | S k' => x :: go t k'
                 end
     end) arr i.

Definition get (arr : list (option frac)) (i : nat) : res frac :=
  match nth_error arr i with
  | Some (Some v) => ok v
  | Some None => fail EType            (* None + float *)
  | None => fail EIndex
  end.

(* the double loop over l <= lp and the inner loop over |l-lp| .. l+lp *)
Definition couple (lmax : nat) (amin aprim aeff : list (option frac))
  : res (list (option frac) * list (option frac) * list (option frac)) :=
  let n := (2 * lmax + 1)%nat in
  let pairs := flat_map (fun l => map (fun lp => (l, lp)) (seq l (S lmax - l))) (seq 0 (S lmax)) in
  fold_left (fun acc p =>
               do a <- acc;
               let '(mn, mp, me) := a in
               let '(l, lp) := p in
               do x1 <- get amin l; do x2 <- get amin lp;
               do p1 <- get aprim l; do p2 <- get aprim lp;
               do e1 <- get aeff l; do e2 <- get aeff lp;
               let lo := (lp - l)%nat in
               ok (fold_left (fun b laux => let '(mn, mp, me) := b in
                                            (upd_min mn laux (fadd x1 x2), upd_max mp laux (fadd p1 p2), upd_max me laux (fadd e1 e2)))
                             (seq lo (l + lp + 1 - lo)) (mn, mp, me)))
            pairs (ok (repeat None n, repeat None n, repeat None n)).

Definition nth_frac (l : list frac) (i : nat) : res frac := match nth_error l i with Some v => ok v | None => fail EIndex end.

(* exponents.append(cur); if cur >= bound: break; cur *= ratio   -- with explicit fuel; None = fuel exhausted *)
Fixpoint ladder (fuel : nat) (cur bound ratio : frac) : option (list frac) :=
  match fuel with
  | O => None
  | S f => if fleb bound cur then Some [cur]
           else match ladder f (fmul cur ratio) bound ratio with Some r => Some (cur :: r) | None => None end
  end.

Definition autoaux_element (fuel : nat) (z : Z) (lmax : nat) (amin aprim aeff : list (option frac)) : res (list (nat * list frac)) :=
  do c <- couple lmax amin aprim aeff;
  let '(a_min, a_prim, a_eff) := c in
  let lval := Z.to_nat (by_thresholds autoaux_lval_init autoaux_lval_steps z) in
  let linc := Z.to_nat (by_thresholds autoaux_linc_init autoaux_linc_steps z) in
  let lmax_aux := Nat.min (Nat.max (2 * lval) (lmax + linc)) (2 * lmax) in
  mapM (fun laux =>
          do amax <- (if Nat.leb laux (2 * lval)
                      then do f <- nth_frac autoaux_flaux laux; do e <- get a_eff laux; do p <- get a_prim laux; ok (fmin (fmul f e) p)
                      else get a_eff laux);
          do start <- get a_min laux;
          do ratio <- (if Nat.leb laux (2 * lval) then ok autoaux_b_small
                       else nth_frac autoaux_blaux_big (Nat.min laux (List.length autoaux_blaux_big - 1)));
          match ladder fuel start amax ratio with
          | Some l => ok (laux, l)
          | None => fail EOther                       (* fuel exhausted: excluded by the termination theorem *)
          end) (seq 0 (S lmax_aux)).

(* ---- AutoABS ---- *)
Definition cand := (frac * nat)%type.
Fixpoint insert_cand (c : cand) (l : list cand) : list cand :=
  match l with
  | [] => [c]
  | d :: t => if fleb (fst d) (fst c) then d :: insert_cand c t else c :: l
  end.
Definition sort_cands (l : list cand) : list cand := fold_left (fun acc c => insert_cand c acc) l [].

(* pop the largest, then keep popping while trial[0] / next < fsam *)
Fixpoint take_group (fsam first : frac) (desc : list cand) : list cand * list cand :=
  match desc with
  | [] => ([], [])
  | c :: t => if fltb first (fmul fsam (fst c)) then let '(g, r) := take_group fsam first t in (c :: g, r) else ([], desc)
  end.

(* returns, per fit group: the averaged candidates (largest first) and the highest fit momentum *)
Fixpoint abs_groups (fuel : nat) (fsam : frac) (lmax_aux : nat) (cands : list cand) (maxfit : nat) : list (list cand * nat) :=
  match fuel with
  | O => []
  | S f =>
    match rev (sort_cands cands) with
    | [] => []
    | c :: rest =>
      let '(g, remaining) := take_group fsam (fst c) rest in
      let trial := c :: g in
      let m := Nat.min (fold_left (fun a t => Nat.max a (snd t)) trial maxfit) lmax_aux in
      (* max_fit_am also looks at the fit functions created so far: their momenta are 0..previous maxima, so the running
         maximum before capping is what matters *)
      (trial, m) :: abs_groups f fsam lmax_aux (rev remaining) (Nat.max maxfit m)
    end
  end.

Definition autoabs_element (z : Z) (lmaxinc : Z) (fsam : frac) (prims : list (frac * nat)) : res (list (list cand * nat)) :=
  match prims with
  | [] => fail EValue
  | _ =>
    let cands := map (fun p => (fmul (2, 1)%Z (fst p), snd p)) prims in
    let lval := Z.to_nat (by_thresholds autoabs_lval_init autoabs_lval_steps z) in
    let lmax := fold_left (fun a c => Nat.max a (snd c)) cands 0 in
    let lmax_aux := Nat.min (Nat.max (2 * lval) (Z.to_nat (Z.of_nat lmax + lmaxinc))) (2 * lmax) in
    ok (abs_groups (S (List.length cands)) fsam lmax_aux cands 0)
  end.
