(* Model of memo.py: _make_key line by line, Python's own argument binding as the specification, and the cache as a
   state machine (sequential and with interleaved atomic steps of several threads). *)
From BSE Require Import Model.Val Gen.GenMemo.

(* ---------- values compared structurally (pickle.dumps of equal values are equal bytes for the values used) ---------- *)
Fixpoint val_eqb (a b : val) : bool :=
  match a, b with
  | VNone, VNone => true
  | VBool x, VBool y => Bool.eqb x y
  | VInt x, VInt y => Z.eqb x y
  | VStr x, VStr y => String.eqb x y
  | VList x, VList y =>
    (fix go (x y : list val) : bool :=
       match x, y with [], [] => true | p :: x', q :: y' => andb (val_eqb p q) (go x' y') | _, _ => false end) x y
  | VDict x, VDict y =>
    (fix go (x y : list (string * val)) : bool :=
       match x, y with
       | [], [] => true
       | (k, p) :: x', (k', q) :: y' => andb (String.eqb k k') (andb (val_eqb p q) (go x' y'))
       | _, _ => false
       end) x y
  | _, _ => false
  end.
Definition key_eqb (a b : list val) : bool :=
  (fix go (x y : list val) : bool :=
     match x, y with [], [] => true | p :: x', q :: y' => andb (val_eqb p q) (go x' y') | _, _ => false end) a b.

Definition mem_str (x : string) (l : list string) : bool := existsb (String.eqb x) l.

(* ---------- _make_key ---------- *)
Fixpoint drop {A} (n : nat) (l : list A) : list A :=
  match n, l with O, _ => l | S k, _ :: t => drop k t | S _, [] => [] end.
Fixpoint take {A} (n : nat) (l : list A) : list A :=
  match n, l with S k, x :: t => x :: take k t | _, _ => [] end.

(* args_spec.args[-num_defaults:]  (with -0 = 0: the whole list when there are no defaults) *)
Definition defaults_names (s : sig) : list string :=
  let nd := List.length (s_defaults s) in
  match nd with O => s_args s | _ => drop (List.length (s_args s) - nd) (s_args s) end.

(* set(left_args).symmetric_difference(kwargs).issubset(defaults_names) *)
Definition symdiff_ok (left : list string) (kw : list string) (dn : list string) : bool :=
  forallb (fun x => orb (mem_str x kw) (mem_str x dn)) left && forallb (fun x => orb (mem_str x left) (mem_str x dn)) kw.

(* the repair: too many positional arguments, or a positionally bound parameter named again by keyword *)
Definition overbound (s : sig) (nargs : nat) (kw : list string) : bool :=
  orb (Nat.ltb (List.length (s_args s)) nargs) (existsb (fun x => mem_str x kw) (take nargs (s_args s))).

(* for arg, arg_name in zip(args, args_spec.args): key.append(arg); if arg_name in defaults_names: start += 1 *)
Fixpoint positional (args : list val) (names : list string) (dn : list string) (start : nat) : list val * nat :=
  match args, names with
  | a :: args', n :: names' =>
    let '(k, st) := positional args' names' dn (if mem_str n dn then S start else start) in (a :: k, st)
  | _, _ => ([], start)
  end.

(* for left_arg in left_args: kwargs[left_arg] or args_spec.defaults[start] *)
Fixpoint leftovers (s : sig) (left : list string) (kw : list (string * val)) (dn : list string) (start : nat) : res (list val) :=
  match left with
  | [] => ok []
  | n :: t =>
    do v <- match assoc n kw with
            | Some v => ok v
            | None => match s_defaults s with
                      | [] => fail EType                       (* args_spec.defaults is None *)
                      | ds => match nth_error ds start with Some v => ok v | None => fail EIndex end
                      end
            end;
    do r <- leftovers s t kw dn (if mem_str n dn then S start else start);
    ok (v :: r)
  end.

(* inr None = "issue with the argument list": the wrapper calls the function itself *)
Definition make_key (s : sig) (args : list val) (kw : list (string * val)) : res (option (list val)) :=
  let left := drop (List.length args) (s_args s) in
  let dn := defaults_names s in
  if negb (symdiff_ok left (map fst kw) dn) then ok None else
  if overbound s (List.length args) (map fst kw) then ok None else
  let '(k1, start) := positional args (s_args s) dn 0 in
  do k2 <- leftovers s left kw dn start;
  ok (Some (k1 ++ k2)).

(* ---------- Python's binding rules (specification) ---------- *)
(* every parameter exactly once: positionals first, keywords only for the remaining parameters (each a parameter name,
   no repetition), the rest from the trailing defaults *)
Fixpoint fill (names : list string) (kw : list (string * val)) (defs : list (option val)) : option (list val) :=
  match names, defs with
  | [], [] => Some []
  | n :: t, d :: dt =>
    match (match assoc n kw with Some v => Some v | None => d end) with
    | Some v => match fill t kw dt with Some r => Some (v :: r) | None => None end
    | None => None
    end
  | _, _ => None
  end.
Definition param_defaults (s : sig) : list (option val) :=
  repeat None (List.length (s_args s) - List.length (s_defaults s)) ++ map Some (s_defaults s).
Fixpoint nodup_strs (l : list string) : bool :=
  match l with [] => true | x :: t => andb (negb (mem_str x t)) (nodup_strs t) end.
Definition bind_call (s : sig) (args : list val) (kw : list (string * val)) : option (list val) :=
  let n := List.length args in
  if Nat.ltb (List.length (s_args s)) n then None else
  let left := drop n (s_args s) in
  if negb (forallb (fun k => mem_str k left) (map fst kw)) then None else
  if negb (nodup_strs (map fst kw)) then None else
  match fill left kw (drop n (param_defaults s)) with
  | Some r => Some (args ++ r)
  | None => None
  end.

(* ---------- the cache as a state machine ---------- *)
Section Cache.
  (* the underlying deterministic functions on fully bound argument lists ("the data directory is not modified") *)
  Variable F : string -> list val -> res val.
  Variable sig_of : string -> sig.

  Record call := { c_fn : string; c_args : list val; c_kw : list (string * val) }.
  Definition uncached (c : call) : res val :=
    match bind_call (sig_of (c_fn c)) (c_args c) (c_kw c) with
    | Some vs => F (c_fn c) vs
    | None => fail EType
    end.

  Definition memo := list (string * list val * val).
  Definition lookup (m : memo) (f : string) (k : list val) : option val :=
    match find (fun e => andb (String.eqb (fst (fst e)) f) (key_eqb (snd (fst e)) k)) m with
    | Some e => Some (snd e)
    | None => None
    end.
  Record st := { enabled : bool; cache : memo }.

  Inductive op := Call (c : call) | Toggle (b : bool) | MutateResult (i : nat).

  (* results handed out are snapshots (pickle): mutating one changes nothing in the state *)
  Definition step (s : st) (o : op) : st * option (res val) :=
    match o with
    | Toggle b => ({| enabled := b; cache := cache s |}, None)
    | MutateResult _ => (s, None)
    | Call c =>
      if negb (enabled s) then (s, Some (uncached c)) else
      match make_key (sig_of (c_fn c)) (c_args c) (c_kw c) with
      | inl e => (s, Some (inl e))
      | inr None => (s, Some (uncached c))
      | inr (Some k) =>
        match lookup (cache s) (c_fn c) k with
        | Some v => (s, Some (inr v))
        | None => match uncached c with
                  | inr v => ({| enabled := enabled s; cache := (c_fn c, k, v) :: cache s |}, Some (inr v))
                  | inl e => (s, Some (inl e))
                  end
        end
      end
    end.

  Fixpoint run (s : st) (ops : list op) : list (op * option (res val)) :=
    match ops with
    | [] => []
    | o :: t => let '(s', out) := step s o in (o, out) :: run s' t
    end.

  (* ----- threads: each call is a sequence of atomic steps over the shared state ----- *)
  Inductive tstate :=
  | TStart (c : call)                       (* about to read memoize_enabled *)
  | TEnabled (c : call)                     (* flag read as True; about to build the key and look it up *)
  | TMiss (c : call) (k : list val)         (* not found; about to call the function *)
  | TComputed (c : call) (k : list val) (v : val)   (* computed; about to store *)
  | TDone (c : call) (r : res val).

  Definition tstep (s : st) (t : tstate) : st * tstate :=
    match t with
    | TStart c => if enabled s then (s, TEnabled c) else (s, TDone c (uncached c))
    | TEnabled c =>
      match make_key (sig_of (c_fn c)) (c_args c) (c_kw c) with
      | inl e => (s, TDone c (inl e))
      | inr None => (s, TDone c (uncached c))
      | inr (Some k) => match lookup (cache s) (c_fn c) k with
                        | Some v => (s, TDone c (inr v))
                        | None => (s, TMiss c k)
                        end
      end
    | TMiss c k => match uncached c with
                   | inr v => (s, TComputed c k v)
                   | inl e => (s, TDone c (inl e))
                   end
    | TComputed c k v => ({| enabled := enabled s; cache := (c_fn c, k, v) :: cache s |}, TDone c (inr v))
    | TDone c r => (s, TDone c r)
    end.

  (* a schedule picks a thread, or toggles the flag, at every step *)
  Inductive sched := Pick (i : nat) | Flip (b : bool).
  Fixpoint set_thread (ts : list tstate) (i : nat) (t : tstate) : list tstate :=
    match ts, i with
    | [], _ => []
    | _ :: r, O => t :: r
    | x :: r, S k => x :: set_thread r k t
    end.
  Definition sstep (p : st * list tstate) (a : sched) : st * list tstate :=
    match a with
    | Flip b => ({| enabled := b; cache := cache (fst p) |}, snd p)
    | Pick i => match nth_error (snd p) i with
                | Some t => let '(s', t') := tstep (fst p) t in (s', set_thread (snd p) i t')
                | None => p
                end
    end.
  Definition srun (p : st * list tstate) (sch : list sched) : st * list tstate := fold_left sstep sch p.
End Cache.

Definition sig_table (f : string) : sig :=
  match assoc f memoised with Some s => s | None => {| s_args := []; s_defaults := [] |} end.
