(* Numbers of the basis data are decimal strings; the library never rounds them, it only asks
   float(x) == 0.0, float(a) == float(b) and orders them.  The model decides these on the exact
   decimal value mant * 10^e10  (DESIGN 3.1: Python's float() is modelled, not verified). *)
From BSE Require Import Model.Val.

(* optional blanks, sign, digits [. digits] with at least one digit, optional e|E sign digits, optional blanks *)
Fixpoint skip_ws (s : string) : string :=
  match s with String c t => if is_space c then skip_ws t else s | EmptyString => s end.

Fixpoint take_ds (s : string) (acc : Z) (n : nat) : Z * nat * string :=
  match s with
  | String c t => if is_digit c then take_ds t (acc * 10 + Z.of_nat (nat_of_ascii c - 48))%Z (S n) else (acc, n, s)
  | EmptyString => (acc, n, s)
  end.

Definition take_sign (s : string) : bool * string :=
  match s with
  | String "-" t => (true, t)
  | String "+" t => (false, t)
  | _ => (false, s)
  end.

(* value = mant * 10^e10 *)
Definition parse_num (s : string) : option (Z * Z) :=
  let s := skip_ws s in
  let '(neg, s) := take_sign s in
  let '(ip, ni, s) := take_ds s 0 0 in
  let '(m, nfrac, nd, s) :=
    match s with
    | String "." t => let '(m, nf, r) := take_ds t ip 0 in (m, nf, (ni + nf)%nat, r)
    | _ => (ip, O, ni, s)
    end in
  match nd with
  | O => None
  | _ =>
    let '(ex, s, okexp) :=
      match s with
      | String c t =>
        if orb (Ascii.eqb c "e") (Ascii.eqb c "E") then
          let '(eneg, t) := take_sign t in
          let '(ev, ne, r) := take_ds t 0 0 in
          match ne with O => (0%Z, s, false) | _ => ((if eneg then - ev else ev)%Z, r, true) end
        else (0%Z, s, true)
      | EmptyString => (0%Z, s, true)
      end in
    match skip_ws s with
    | EmptyString => if okexp then Some ((if neg then - m else m)%Z, (ex - Z.of_nat nfrac)%Z) else None
    | _ => None
    end
  end.

Definition pow10 (n : Z) : Z := Z.pow 10 n.

(* compare m1*10^e1 with m2*10^e2 exactly *)
Definition dec_compare (a b : Z * Z) : comparison :=
  let '(m1, e1) := a in let '(m2, e2) := b in
  let e := Z.min e1 e2 in
  Z.compare (m1 * pow10 (e1 - e)) (m2 * pow10 (e2 - e)).

(* float(x) == 0.0 ; unparsable strings are outside the modelled domain (float() raises) *)
Definition is0_s (s : string) : bool :=
  match parse_num s with Some (m, _) => Z.eqb m 0 | None => false end.
(* float(a) == float(b) *)
Definition same_s (a b : string) : bool :=
  match parse_num a, parse_num b with
  | Some x, Some y => match dec_compare x y with Eq => true | _ => false end
  | _, _ => String.eqb a b
  end.
(* float(a) <= float(b) *)
Definition leb_s (a b : string) : bool :=
  match parse_num a, parse_num b with
  | Some x, Some y => match dec_compare x y with Gt => false | _ => true end
  | _, _ => true
  end.

(* the order used by the sorting model: total on all strings (an unparsable string, on which Python's
   float() raises, counts as 0) and equal to leb_s wherever both strings parse (Proofs/NumOrder.v) *)
Definition nval (s : string) : Z * Z :=
  match parse_num s with Some x => x | None => (0%Z, 0%Z) end.
Definition leb_v (a b : string) : bool :=
  match dec_compare (nval a) (nval b) with Gt => false | _ => true end.

(* canonical exact value: mantissa without trailing zeros; zero is (0,0) *)
Fixpoint strip10 (fuel : nat) (m e : Z) : Z * Z :=
  match fuel with
  | O => (m, e)
  | S f => if Z.eqb m 0 then (0, 0)%Z else
           if Z.eqb (Z.modulo m 10) 0 then strip10 f (Z.div m 10) (e + 1)%Z else (m, e)
  end.
Definition canon_num (s : string) : option (Z * Z) :=
  match parse_num s with
  | Some (m, e) => Some (strip10 (S (Z.to_nat (Z.log2 (Z.abs m)))) m e)
  | None => None
  end.
