(* Model of the ECP part of the GAMESS-US writer / reader pair, and of the whole file ($DATA ... $END, $ECP ... $END):
     writers/gamess_us.py  write_gamess_us_ecp_basis (ecp_block=True), write_gamess_us_common, write_gamess_us
     readers/gamess_us.py  _parse_ecp_lines (ecp_block_re, ecp_shell_re, ecp_entry_re), read_gamess_us
     readers/helpers.py    prune_lines, partition_lines, parse_line_regex
     printing.py           write_matrix([*coefficients, rexponents, gexponents], [8, 23, 32])
     lut.py                element_sym_from_Z, element_Z_from_sym, amint_to_char (hij=False for the potential's own letter,
                           hij=True for the letter of the highest one), amchar_to_int (hij=False)
     manip.py              create_element_data (key_exist_ok=False)
   The electron part is Model/GamessUs.v; the same conventions hold (bytes, ASCII classes, int(), float() = parse_num).
   `epot` (one entry of 'ecp_potentials'), ecp_order (sorted by angular momentum, the highest moved to the front),
   ecp_max_am, am_first, leftpad_check: Model/NwchemEcp.v - the two writers share this code word for word.
   Definitions only; statements in Proofs/GamessUsEcpDefs.v, proofs in Proofs/GamessUsEcpSpec.v. *)
From BSE Require Import Model.Val Model.Text Model.Num Model.Basis Model.Manip Model.Matrix Model.Lut Model.Elements
                        Model.Nwchem Model.NwchemEcp Model.G94 Model.GamessUs.

(* ------------------------------------------------------------------ *)
(* writer                                                              *)
(* ------------------------------------------------------------------ *)
(* '{:<5}'.format(nprim): left aligned in a field of 5, never truncated *)
Definition pad5 (s : string) : string := s +++ sp (5 - String.length s).

Definition gus_ecp_point_places : list Z := [8; 23; 32]%Z.
(* [*coefficients, rexponents, gexponents] *)
Definition gus_ecp_cols (p : epot) : list (list cell) :=
  map (map CStr) (p_coef p) ++ [map CInt (p_rexp p); map CStr (p_gexp p)].

(* the body of `for pot in ecp_list` *)
Definition gus_write_pot (max_ecp_am : Z) (max_ecp_amchar : string) (p : epot) : res string :=
  let nprim := List.length (p_rexp p) in
  do amchar <- amint_to_char (p_am p) false false;
  do a0 <- am_first p;
  let title :=
    if Z.eqb a0 max_ecp_am then pad5 (nat_str nprim) +++ " ----- " +++ amchar +++ "-ul potential -----" +++ nl1
    else pad5 (nat_str nprim) +++ " ----- " +++ amchar +++ "-" +++ max_ecp_amchar +++ " potential -----" +++ nl1 in
  do _ <- leftpad_check (gus_ecp_cols p) gus_ecp_point_places;
  do m <- write_matrix (gus_ecp_cols p) gus_ecp_point_places false;
  ok (title +++ m).

(* one iteration of `for z in ecp_elements`: (Z, (data['ecp_electrons'], data['ecp_potentials'])) *)
Definition gus_write_ecp_element (e : Z * (Z * list epot)) : res string :=
  let '(z, (nelec, pots)) := e in
  do sym <- element_sym_from_Z z false;
  do mx <- ecp_max_am pots;
  do mxchar <- amint_to_char [mx] true false;
  do ecp_list <- ecp_order pots;
  do body <- mapM (gus_write_pot mx mxchar) ecp_list;
  ok (upper sym +++ "-ECP GEN    " +++ Z_to_string nelec +++ "    " +++ Z_to_string mx +++ nl1 +++ String.concat "" body).

(* write_gamess_us_ecp_basis(basis, ecp_elements, ecp_block=True); called only `if ecp_elements:` *)
Definition gus_write_ecp (ecps : list (Z * (Z * list epot))) : res string :=
  match ecps with
  | [] => ok ""
  | _ =>
    do parts <- mapM gus_write_ecp_element ecps;
    ok (nl1 +++ nl1 +++ "$ECP" +++ nl1 +++ String.concat "" parts +++ "$END" +++ nl1)
  end.

(* write_gamess_us after its three normalisation calls (which do not touch the ECP data): els / ecps are the two views of
   basis['elements'] - the elements that have 'electron_shells', the elements that have 'ecp_potentials' *)
Definition gus_write_all (els : list (Z * list sshell)) (ecps : list (Z * (Z * list epot))) : res string :=
  do a <- gus_write_electron els;
  do b <- gus_write_ecp ecps;
  ok (a +++ b).

(* ------------------------------------------------------------------ *)
(* reader: the regular expressions                                     *)
(* ------------------------------------------------------------------ *)
(* ecp_shell_re = ^\s*(\d+)\s+-----\s+([a-zA-Z])-([a-zA-Z]+)\s+potential\s+-----\s*$ : five words separated by white space
   (no piece contains white space, every piece must be followed by white space or the end); gives nprim's digits and the
   letter (the third group is not used) *)
Definition match_ecp_shell (l : string) : option (string * ascii) :=
  match tokens_acc l "" with
  | [n; d1; String c (String "-" w); p; d2] =>
    if andb (isdecimal n) (andb (String.eqb d1 "-----") (andb (is_alpha c) (andb (negb (is_empty w)) (andb (sall is_alpha w)
            (andb (String.eqb p "potential") (String.eqb d2 "-----"))))))
    then Some (n, c) else None
  | _ => None
  end.

(* ecp_entry_re = ^\s*(F)\s+(\d)\s+(F)\s*$ : three words, the middle one a SINGLE digit *)
Definition match_ecp_entry (l : string) : option (string * string * string) :=
  match tokens_acc l "" with
  | [c; String d EmptyString as r; z] => if andb (is_floating c) (andb (is_digit d) (is_floating z)) then Some (c, r, z) else None
  | _ => None
  end.

(* ------------------------------------------------------------------ *)
(* reader: the ECP blocks                                              *)
(* ------------------------------------------------------------------ *)
(* the ECP keys of bs_data: element -> ('ecp_electrons', 'ecp_potentials'), in insertion order (this reader always sets the
   two together) *)
Definition gus_ecp_state := list (Z * (Z * list epot)).

(* `for iprim in range(nprim)`: the kept (coefficient, r exponent, gaussian exponent) triples and the lines left;
   `if float(c) != 0.0`: a term whose coefficient is zero is NOT kept *)
Fixpoint gus_read_terms (n : nat) (lines : list string) : res (list (string * Z * string) * list string) :=
  match n with
  | O => ok ([], lines)
  | S k =>
    match lines with
    | [] => fail EIndex
    | l :: t =>
      match match_ecp_entry l with
      | None => fail ERuntime
      | Some (c, r, z) =>
        match parse_num c with
        | None => fail EValue
        | Some v =>
          do rr <- gus_read_terms k t;
          ok ((if dec_nonzero v then [(c, digits_val r 0, z)] else []) ++ fst rr, snd rr)
        end
      end
    end
  end.

(* `while iline < len(basis_lines) and ecp_shell_re.match(basis_lines[iline])`: ends silently at the first line that is
   not a potential title; fuel as in gus_parse_shells *)
Fixpoint gus_parse_pots (fuel : nat) (lines : list string) : res (list epot) :=
  match fuel with
  | O => ok []
  | S f =>
    match lines with
    | [] => ok []
    | l :: rest =>
      match match_ecp_shell l with
      | None => ok []
      | Some (n, c) =>
        do am <- amchar_to_int (String c "") false;
        do tr <- gus_read_terms (Z.to_nat (digits_val n 0)) rest;
        do ps <- gus_parse_pots f (snd tr);
        let terms := fst tr in
        ok (mkEpot "scalar_ecp" am (map (fun t => snd (fst t)) terms) (map snd terms) [map (fun t => fst (fst t)) terms] :: ps)
      end
    end
  end.

(* readers/gamess_us.py _parse_ecp_lines on one block of the partition at the lines that match ecp_block_re.  Only the
   first line of such a block can match, so the outer `while` runs at most once: not at all for the block of lines in
   front of the first ECP header (the electron part), once for every other block - and what is left of the block after the
   potentials is never looked at.  create_element_data(..., 'ecp_potentials'): RuntimeError when the element has the key *)
Definition gus_parse_ecp_lines (block : list string) (d : gus_ecp_state) : res gus_ecp_state :=
  match block with
  | [] => ok d
  | first :: rest =>
    match match_ecp_block first with
    | None => ok d
    | Some (element_sym, ecp_electrons, _) =>
      do element_Z <- element_Z_from_sym element_sym;
      if existsb (Z.eqb element_Z) (map fst d) then fail ERuntime else
      do pots <- gus_parse_pots (List.length rest) rest;
      ok (d ++ [(element_Z, (digits_val ecp_electrons 0, pots))])
    end
  end.

Fixpoint gus_ecp_blocks (blocks : list (list string)) (d : gus_ecp_state) : res gus_ecp_state :=
  match blocks with
  | [] => ok d
  | b :: t => do d' <- gus_parse_ecp_lines b d; gus_ecp_blocks t d'
  end.

(* ------------------------------------------------------------------ *)
(* reader: the whole file                                              *)
(* ------------------------------------------------------------------ *)
(* read_gamess_us: BOTH partitions are made of ALL the pruned lines.  The electron blocks are parsed first: when the file
   has no element name at all, the single "element block" is the ECP part and _parse_electron_lines raises RuntimeError;
   otherwise the ECP lines are the tail of the last element block, where the shell loop stops at the ECP header. *)
Definition gus_read_all_parts (lines : list string) : res (list (Z * list sshell) * gus_ecp_state) :=
  let basis_lines := gus_prune lines in
  do em <- gus_read_electron_blocks basis_lines;
  do ecp_blocks <- partition_lines basis_lines (fun x => ok (is_ecp_block_line x)) true 1 0 0;
  do pm <- gus_ecp_blocks ecp_blocks [];
  ok (em, pm).

(* one element of the result: g_shells = None for an absent 'electron_shells' key, g_ecp = None when the element has
   neither 'ecp_electrons' nor 'ecp_potentials' *)
Record gus_el := mkGusEl { g_shells : option (list sshell); g_ecp : option (Z * list epot) }.

(* bs_data, element by element in insertion order: the elements of the electron part, then the new ones of the ECP part *)
Definition gus_assemble (em : list (Z * list sshell)) (pm : gus_ecp_state) : list (Z * gus_el) :=
  map (fun z => (z, mkGusEl (assocZ z em) (assocZ z pm))) (add_keys (map fst em) (map fst pm)).

Definition gus_read_all (lines : list string) : res (list (Z * gus_el)) :=
  do st <- gus_read_all_parts lines; ok (gus_assemble (fst st) (snd st)).

Definition gus_roundtrip_all (els : list (Z * list sshell)) (ecps : list (Z * (Z * list epot))) : res (list (Z * gus_el)) :=
  do t <- gus_write_all els ecps; gus_read_all (splitlines t).
