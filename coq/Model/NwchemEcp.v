(* Model of the ECP part of the NWChem writer / reader pair, and of the whole file (electron section + ECP section):
     writers/nwchem.py   write_nwchem      (the `ECP ... END` section; the electron section is Model/Nwchem.v)
     readers/nwchem.py   _parse_ecp_lines, read_nwchem (partition at the `end` lines, dispatch on `basis` / `ecp`)
     readers/helpers.py  partition_lines, parse_line_regex (nelec_re, am_line_re), parse_ecp_table
     printing.py         write_matrix([rexponents, gexponents, *coefficients], [0, 10, 33])
     manip.py            create_element_data
   As in Model/Nwchem.v the writer is modelled after its normalisation calls (uncontract_spdf, sort_basis), text is a
   string of bytes and the character classes (isalpha, \s, \d, [a-z] with IGNORECASE) are the ASCII ones.
   Definitions only; statements in Proofs/NwchemEcpDefs.v, proofs in Proofs/NwchemEcpSpec.v. *)
From BSE Require Import Model.Val Model.Text Model.Basis Model.Manip Model.Matrix Model.Lut Model.Elements Model.Nwchem.

(* one entry of 'ecp_potentials' (field for field the `pot` record of Model/Validator.v; r exponents are integers,
   the other numbers are strings; p_coef has one list per coefficient column) *)
Record epot := mkEpot { p_type : string; p_am : list Z; p_rexp : list Z; p_gexp : list string; p_coef : list (list string) }.

(* ------------------------------------------------------------------ *)
(* writer                                                              *)
(* ------------------------------------------------------------------ *)

(* Python's `<` on lists of integers (the sort key is x['angular_momentum']) *)
Fixpoint am_ltb (a b : list Z) : bool :=
  match a, b with
  | [], _ :: _ => true
  | _, [] => false
  | x :: a', y :: b' => if (x <? y)%Z then true else if (y <? x)%Z then false else am_ltb a' b'
  end.

(* sorted(data['ecp_potentials'], key=lambda x: x['angular_momentum']) : stable, lowest first *)
Fixpoint ecp_insert (p : epot) (l : list epot) : list epot :=
  match l with
  | [] => [p]
  | q :: t => if am_ltb (p_am q) (p_am p) then q :: ecp_insert p t else p :: l
  end.
Definition ecp_sorted (pots : list epot) : list epot := fold_right ecp_insert [] pots.

(* ecp_list.insert(0, ecp_list.pop()) : the last (highest) one goes to the front; pop from an empty list is an IndexError *)
Definition ecp_rotate (l : list epot) : res (list epot) :=
  match rev l with
  | [] => fail EIndex
  | x :: r => ok (x :: rev r)
  end.

(* the list in which the writer prints the potentials *)
Definition ecp_order (pots : list epot) : res (list epot) := ecp_rotate (ecp_sorted pots).

(* am[0] *)
Definition am_first (p : epot) : res Z := match p_am p with [] => fail EIndex | a :: _ => ok a end.

(* max([x['angular_momentum'][0] for x in data['ecp_potentials']]) : the comprehension is evaluated first (IndexError on an
   empty angular momentum list), max() of an empty list is a ValueError *)
Definition ecp_max_am (pots : list epot) : res Z :=
  do firsts <- mapM am_first pots;
  match firsts with [] => fail EValue | _ => ok (zmax firsts) end.

(* the first statement of printing.write_matrix, pad = [_determine_leftpad(c, point_place[i]) for i, c in enumerate(mat)]:
   column by column, point_place[i] (IndexError when there are more columns than point places) and then _find_point of every
   cell of the column (ValueError for a string without a point) - all of it before a single character is written *)
Fixpoint leftpad_check (cols : list (list cell)) (pps : list Z) : res unit :=
  match cols with
  | [] => ok tt
  | c :: t =>
    match pps with
    | [] => fail EIndex
    | _ :: ppt => do _ <- mapM find_point c; leftpad_check t ppt
    end
  end.

Definition ecp_point_places : list Z := [0; 10; 33]%Z.
Definition ecp_cols (p : epot) : list (list cell) := map CInt (p_rexp p) :: map CStr (p_gexp p) :: map (map CStr) (p_coef p).

(* the body of `for pot in ecp_list` *)
Definition nw_write_pot (sym : string) (max_ecp_am : Z) (p : epot) : res string :=
  do amchar <- amint_to_char (p_am p) false false;
  do a0 <- am_first p;
  let head := if Z.eqb a0 max_ecp_am then sym +++ " ul" +++ nl1 else sym +++ " " +++ upper amchar +++ nl1 in
  do _ <- leftpad_check (ecp_cols p) ecp_point_places;
  do m <- write_matrix (ecp_cols p) ecp_point_places false;
  ok (head +++ m).

(* one iteration of `for z in ecp_elements`: (Z, (data['ecp_electrons'], data['ecp_potentials'])) *)
Definition nw_write_ecp_element (e : Z * (Z * list epot)) : res string :=
  let '(z, (nelec, pots)) := e in
  do sym <- element_sym_from_Z z true;
  do mx <- ecp_max_am pots;
  do ecp_list <- ecp_order pots;
  do body <- mapM (nw_write_pot sym mx) ecp_list;
  ok (sym +++ " nelec " +++ Z_to_string nelec +++ nl1 +++ String.concat "" body).

(* `if ecp_elements:` ... ; els = the elements that have 'ecp_potentials', in dictionary order.  Nothing at all is written
   when there is none; otherwise two blank lines (the first '\n' ends nothing when the electron section is absent), `ECP`,
   the elements, `END` *)
Definition nw_write_ecp (els : list (Z * (Z * list epot))) : res string :=
  match els with
  | [] => ok ""
  | _ =>
    do parts <- mapM nw_write_ecp_element els;
    ok (nl1 +++ nl1 +++ "ECP" +++ nl1 +++ String.concat "" parts +++ "END" +++ nl1)
  end.

(* write_nwchem after its two normalisation calls: els / ecps are the two views of basis['elements'] *)
Definition nw_write_all (harm : string) (els : list (Z * list sshell)) (ecps : list (Z * (Z * list epot))) : res string :=
  do a <- nw_write_electron harm els;
  do b <- nw_write_ecp ecps;
  ok (a +++ b).

(* ------------------------------------------------------------------ *)
(* reader: the ECP section                                             *)
(* ------------------------------------------------------------------ *)

(* the ECP keys of bs_data: element -> ('ecp_electrons' if present, 'ecp_potentials'), in insertion order; [] stands for
   "no 'ecp_potentials' key" (the key is created only to be appended to at once) *)
Definition ecp_state := list (Z * (option Z * list epot)).

(* nelec_re = ^([a-z]+)\s+nelec\s+(\d+)$ with re.IGNORECASE, against a whole line.  As for am_line_re every group is forced
   to be maximal, so the match is deterministic. *)
Fixpoint strip_prefix_ci (p s : string) : option string :=
  match p with
  | EmptyString => Some s
  | String a p' =>
    match s with
    | String c s' => if Ascii.eqb (lower_char c) a then strip_prefix_ci p' s' else None
    | EmptyString => None
    end
  end.

Definition match_nelec_line (l : string) : option (string * string) :=
  let '(a, r) := span_alpha l in
  match a, r with
  | String _ _, String c _ =>
    if is_space c then
      match strip_prefix_ci "nelec" (lstrip_ws r) with
      | Some (String c2 r2) =>
        if is_space c2 then
          let ds := lstrip_ws r2 in
          if isdecimal ds then Some (a, ds) else None
        else None
      | _ => None
      end
    else None
  | _, _ => None
  end.

(* create_element_data(bs_data, element_Z, 'ecp_electrons', create=int) followed by element_data['ecp_electrons'] = n_elec;
   key_exist_ok is False: RuntimeError when the element already has the key *)
Fixpoint set_nelec (z n : Z) (d : ecp_state) : res ecp_state :=
  match d with
  | [] => ok [(z, (Some n, []))]
  | (z', (ne, ps)) :: t =>
    if Z.eqb z z' then match ne with Some _ => fail ERuntime | None => ok ((z', (Some n, ps)) :: t) end
    else do t' <- set_nelec z n t; ok ((z', (ne, ps)) :: t')
  end.

(* create_element_data(bs_data, element_Z, 'ecp_potentials', key_exist_ok=True) followed by .append(ecp_pot) *)
Fixpoint append_pot (z : Z) (p : epot) (d : ecp_state) : ecp_state :=
  match d with
  | [] => [(z, (None, [p]))]
  | (z', (ne, ps)) :: t => if Z.eqb z z' then (z', (ne, ps ++ [p])) :: t else (z', (ne, ps)) :: append_pot z p t
  end.

(* the body of `for pot_lines in ecp_blocks` *)
Definition nw_parse_ecp_block (pot_lines : list string) (d : ecp_state) : res ecp_state :=
  match pot_lines with
  | [] => fail EIndex
  | [l] =>
    (* if not nelec_re.match(pot_lines[0]): raise RuntimeError; then parse_line_regex(nelec_re, pot_lines[0].lower(), ...) *)
    match match_nelec_line l with
    | None => fail ERuntime
    | Some _ =>
      match match_nelec_line (lower l) with
      | None => fail ERuntime
      | Some (element_sym, digits) =>
        do element_Z <- element_Z_from_sym element_sym;
        set_nelec element_Z (digits_val digits 0) d
      end
    end
  | first :: rest =>
    do sa <- parse_am_line first;
    let '(element_sym, pot_am) := sa in
    do element_Z <- element_Z_from_sym element_sym;
    (* 'ul': placeholder [] - left for later *)
    do am <- (if String.eqb (lower pot_am) "ul" then ok [] else amchar_to_int pot_am false);
    do tab <- parse_ecp_table rest;
    let '(r, g, c) := tab in
    ok (append_pot element_Z (mkEpot "scalar_ecp" am r g c) d)
  end.

Fixpoint nw_parse_ecp_blocks (blocks : list (list string)) (d : ecp_state) : res ecp_state :=
  match blocks with
  | [] => ok d
  | b :: t => do d' <- nw_parse_ecp_block b d; nw_parse_ecp_blocks t d'
  end.

(* "Fix ecp angular momentum now that everything has been read": per element that has potentials,
   max_ecp_am = max(all_ecp_am) if all_ecp_am else -1  (all the momenta read; -1 when the 'ul' potential is the only one)
   and every potential with the placeholder gets [max_ecp_am + 1] *)
Definition set_am (p : epot) (a : list Z) : epot := mkEpot (p_type p) a (p_rexp p) (p_gexp p) (p_coef p).
Definition ecp_fix_element (e : Z * (option Z * list epot)) : Z * (option Z * list epot) :=
  let '(z, (ne, ps)) := e in
  let all_ecp_am := flat_map p_am ps in
  let max_ecp_am := match all_ecp_am with [] => (-1)%Z | _ => zmax all_ecp_am end in
  (z, (ne, map (fun p => match p_am p with [] => set_am p [(max_ecp_am + 1)%Z] | _ => p end) ps)).

(* "Make sure the number of electrons replaced by the ECP was specified for all elements" *)
Definition ecp_missing_nelec (e : Z * (option Z * list epot)) : bool :=
  match e with
  | (_, (None, _ :: _)) => true
  | _ => false
  end.

(* readers/nwchem.py _parse_ecp_lines(basis_lines, bs_data): the first line ('ECP' or something) is skipped unseen *)
Definition nw_read_ecp_section (basis_lines : list string) (d : ecp_state) : res ecp_state :=
  let basis_lines := filter (fun x => negb (is_end_line x)) basis_lines in
  do ecp_blocks <- partition_lines (tl basis_lines) starts_alpha true 1 0 0;
  do d1 <- nw_parse_ecp_blocks ecp_blocks d;
  let d2 := map ecp_fix_element d1 in
  if existsb ecp_missing_nelec d2 then fail ERuntime else ok d2.

(* ------------------------------------------------------------------ *)
(* reader: the whole file                                              *)
(* ------------------------------------------------------------------ *)

(* bs_data as three components: the keys in insertion order, the 'electron_shells' of the elements that have some
   (Model/Nwchem.v), the ECP keys (above).  A section adds its new elements at the end, in the order it meets them. *)
Definition nw_state := (list Z * list (Z * list sshell) * ecp_state)%type.
Definition add_keys (order ks : list Z) : list Z := order ++ filter (fun z => negb (existsb (Z.eqb z) order)) ks.

(* `for s in basis_sections` of read_nwchem *)
Fixpoint nw_sections_all (sections : list (list string)) (st : nw_state) : res nw_state :=
  match sections with
  | [] => ok st
  | s :: t =>
    match s with
    | [] => fail EIndex
    | first :: _ =>
      let '(order, em, pm) := st in
      if str_prefix "basis" (lower first) then
        do em' <- nw_parse_electron_lines s em; nw_sections_all t (add_keys order (map fst em'), em', pm)
      else if str_prefix "ecp" (lower first) then
        do pm' <- nw_read_ecp_section s pm; nw_sections_all t (add_keys order (map fst pm'), em, pm')
      else fail ERuntime
    end
  end.

Definition nw_read_all_parts (lines : list string) : res nw_state :=
  let basis_lines := prune_lines lines "#" true true in
  do sections <- partition_lines basis_lines (fun x => ok (is_end_line x)) false 1 1 2;
  nw_sections_all sections ([], [], []).

(* one element of the result: e_shells = [] / e_pots = [] for an absent 'electron_shells' / 'ecp_potentials' key,
   e_nelec = None for an absent 'ecp_electrons' key *)
Record nw_el := mkNwEl { e_shells : list sshell; e_nelec : option Z; e_pots : list epot }.

Definition nw_assemble (st : nw_state) : list (Z * nw_el) :=
  let '(order, em, pm) := st in
  map (fun z => (z, mkNwEl (match assocZ z em with Some shs => shs | None => [] end)
                           (match assocZ z pm with Some (ne, _) => ne | None => None end)
                           (match assocZ z pm with Some (_, ps) => ps | None => [] end))) order.

(* readers/nwchem.py read_nwchem: bs_data, element by element in insertion order *)
Definition nw_read_all (lines : list string) : res (list (Z * nw_el)) :=
  do st <- nw_read_all_parts lines; ok (nw_assemble st).

(* the ECP section alone, as read_nwchem sees it *)
Definition nw_read_ecp (lines : list string) : res ecp_state :=
  do st <- nw_read_all_parts lines; ok (snd st).

Definition nw_roundtrip_ecp (ecps : list (Z * (Z * list epot))) : res ecp_state :=
  do t <- nw_write_ecp ecps; nw_read_ecp (splitlines t).

Definition nw_roundtrip_all (harm : string) (els : list (Z * list sshell)) (ecps : list (Z * (Z * list epot)))
  : res (list (Z * nw_el)) :=
  do t <- nw_write_all harm els ecps; nw_read_all (splitlines t).
