(* Model of the Jaguar writer (there is no reader for this format):
     writers/jaguar.py   write_jaguar
     printing.py         write_matrix(..., convert_exp=True)   (Model/Matrix.v)
     lut.py              element_sym_from_Z(z, True), amint_to_char (hij=True for the shells, hij=False for the potentials)
   The model is the text write_jaguar returns (without the header write_formatted_basis_str may prepend) for the
   dictionary AFTER the writer's own normalisation calls, which are, in this order,
       basis = manip.uncontract_general(basis, True)     (a shell with ONE angular momentum and n > 1 general contractions
                                                          becomes n shells with one contraction each; then prune_basis)
       basis = manip.uncontract_spdf(basis, 1, False)    (sp shells stay fused, every momentum > 1 is split off)
       basis = sort.sort_basis(basis, False)
   None of them touches the ECP data except sort_basis, which puts the potentials in the order the writer establishes once
   more.  INPUT: name = basis['name'], types = basis['function_types'],
     els  = [(z, data['electron_shells'])] for the elements that have the key 'electron_shells', in dictionary order,
     ecps = [(z, (data['ecp_electrons'], data['ecp_potentials']))] for the elements that have the key 'ecp_potentials', in
            dictionary order
   (the two views of ONE dictionary basis['elements']).  `epot`, ecp_cols, ecp_order (sorted by angular momentum, the last
   one moved to the front), ecp_max_am, am_first, leftpad_check: Model/NwchemEcp.v - the code is the same word for word.
   QUIRK (finding): the ECP of an element is written inside the loop over electron_elements, so an element that has an ECP
   but no electron shells leaves no trace in the text (only the word ECP in the first line).
   Text is a string of bytes.  Definitions only; statements in Proofs/JaguarDefs.v, proofs in Proofs/JaguarSpec.v. *)
From BSE Require Import Model.Val Model.Text Model.Basis Model.Manip Model.Matrix Model.Lut Model.Elements Model.Nwchem
                        Model.NwchemEcp.

(* [exponents, *coefficients] *)
Definition jag_shell_cols (s : sshell) : list (list cell) := map CStr (exps s) :: map (map CStr) (coefs s).

(* one iteration of `for shell in data['electron_shells']`:  '{} 0 {}\n'.format(amchar, nprim) and the matrix;
   point_places = [8 * i + 15 * (i - 1) for i in range(1, ncol + 1)] is Model.Nwchem.nw_point_places.
   leftpad_check raises what the first statement of printing.write_matrix raises (column by column, before anything is
   printed); when it passes, write_matrix cannot fail *)
Definition jag_write_shell (s : sshell) : res string :=
  let ncol := S (List.length (coefs s)) in
  let nprim := List.length (exps s) in
  do amchar <- amint_to_char (am s) true false;
  do _ <- leftpad_check (jag_shell_cols s) (nw_point_places ncol);
  do m <- write_matrix (jag_shell_cols s) (nw_point_places ncol) true;
  ok (upper amchar +++ " 0 " +++ nat_str nprim +++ nl1 +++ m).

Definition jag_ecp_point_places : list Z := [0; 9; 32]%Z.

(* one iteration of `for pot in ecp_list` *)
Definition jag_write_pot (max_ecp_am : Z) (max_ecp_amchar : string) (p : epot) : res string :=
  do amchar <- amint_to_char (p_am p) false false;
  do a0 <- am_first p;
  let title := if Z.eqb a0 max_ecp_am then upper amchar +++ "_AND_UP" +++ nl1
               else upper amchar +++ "-" +++ upper max_ecp_amchar +++ nl1 in
  do _ <- leftpad_check (ecp_cols p) jag_ecp_point_places;
  do m <- write_matrix (ecp_cols p) jag_ecp_point_places true;
  ok (title +++ m).

(* the body of `if ecp_elements and z in ecp_elements:`; e = (data['ecp_electrons'], data['ecp_potentials']) *)
Definition jag_write_ecp (sym : string) (e : Z * list epot) : res string :=
  let '(nelec, pots) := e in
  do mx <- ecp_max_am pots;
  do mxchar <- amint_to_char [mx] false false;
  do ecp_list <- ecp_order pots;
  do body <- mapM (jag_write_pot mx mxchar) ecp_list;
  ok ("**" +++ nl1 +++ sym +++ " " +++ Z_to_string mx +++ " " +++ Z_to_string nelec +++ nl1 +++ String.concat "" body).

(* one iteration of `for z in electron_elements`; `z in ecp_elements` is the lookup in ecps *)
Definition jag_write_element (ecps : list (Z * (Z * list epot))) (zs : Z * list sshell) : res string :=
  let '(z, shs) := zs in
  do sym <- element_sym_from_Z z true;
  do body <- mapM jag_write_shell shs;
  do ecp <- match assocZ z ecps with Some e => jag_write_ecp sym e | None => ok "" end;
  ok (sym +++ nl1 +++ String.concat "" body +++ ecp +++ "****" +++ nl1).

(* harm_type = '6D' if 'gto_cartesian' in types else '5D' *)
Definition jag_harm_type (types : list string) : string :=
  if existsb (String.eqb "gto_cartesian") types then "6D" else "5D".

(* write_jaguar after its three normalisation calls *)
Definition jag_write_all (name : string) (types : list string)
                         (els : list (Z * list sshell)) (ecps : list (Z * (Z * list epot))) : res string :=
  let ecp_type := match ecps with [] => "" | _ => " ECP" end in
  do parts <- mapM (jag_write_element ecps) els;
  ok ("BASIS " +++ name +++ " " +++ jag_harm_type types +++ ecp_type +++ nl1 +++ String.concat "" parts).
