(* Model of the ORCA writer (there is NO reader for this format):
     writers/orca.py       write_orca, write_orca_ecp_basis
     writers/gamess_us.py  write_gamess_us_common (the driver: normalisation, electron part, then ecp_func),
                           write_gamess_us_electron_basis (the `$DATA ... $END` part - ORCA's `%basis` reads GAMESS-US input)
     printing.py           write_matrix([idx_column, gexponents, *coefficients, rexponents], [4, 12, 27, 36])
     lut.py                element_sym_from_Z, amint_to_char (hij=False for the potential's own letter, hij=True for lmax)
   The electron part is, word for word, the one of write_gamess_us: Model/GamessUs.v gus_write_electron is reused.
   `epot`, ecp_sorted (sorted(..., key=angular_momentum)), ecp_max_am, leftpad_check: Model/NwchemEcp.v.
   Text is a string of bytes, as everywhere in Model/.
   Definitions only; statements in Proofs/OrcaDefs.v, proofs in Proofs/OrcaSpec.v. *)
From BSE Require Import Model.Val Model.Text Model.Num Model.Basis Model.Manip Model.Matrix Model.Lut Model.Elements
                        Model.Nwchem Model.NwchemEcp Model.G94 Model.GamessUs.

(* ------------------------------------------------------------------ *)
(* write_orca_ecp_basis                                                *)
(* ------------------------------------------------------------------ *)
Definition orca_ecp_point_places : list Z := [4; 12; 27; 36]%Z.

(* [idx_column, gexponents, *coefficients, rexponents] with idx_column = list(range(1, nprim + 1)), nprim = len(rexponents) *)
Definition orca_ecp_cols (p : epot) : list (list cell) :=
  map CInt (zrange 1 (List.length (p_rexp p))) ::
  map CStr (p_gexp p) ::
  (map (map CStr) (p_coef p) ++ [map CInt (p_rexp p)]).

(* the body of `for pot in ecp_list`:
     amchar = lut.amint_to_char(am, hij=False)            (lower case, NOT upper-cased)
     s += '  {} {}\n'.format(amchar, nprim)
     s += printing.write_matrix([idx_column, gexponents, *coefficients, rexponents], point_places)
   leftpad_check (Model/NwchemEcp.v) is the first statement of write_matrix *)
Definition orca_write_pot (p : epot) : res string :=
  let nprim := List.length (p_rexp p) in
  do amchar <- amint_to_char (p_am p) false false;
  do _ <- leftpad_check (orca_ecp_cols p) orca_ecp_point_places;
  do m <- write_matrix (orca_ecp_cols p) orca_ecp_point_places false;
  ok ("  " +++ amchar +++ " " +++ nat_str nprim +++ nl1 +++ m).

(* one iteration of `for z in ecp_elements`: (Z, (data['ecp_electrons'], data['ecp_potentials'])).
     s += '\n\n'
     sym = lut.element_sym_from_Z(z).upper()
     max_ecp_am = max([x['angular_momentum'][0] for x in data['ecp_potentials']])
     max_ecp_amchar = lut.amint_to_char([max_ecp_am], hij=True)
     ecp_list = sorted(data['ecp_potentials'], key=lambda x: x['angular_momentum'])     (lowest first, NOT rotated)
     s += 'NewECP {}\n'  '  N_core {}\n'  '  lmax {}\n'
     ... potentials ...
     s += "end"                                                                          (no newline) *)
Definition orca_write_ecp_element (e : Z * (Z * list epot)) : res string :=
  let '(z, (nelec, pots)) := e in
  do sym <- element_sym_from_Z z false;
  do mx <- ecp_max_am pots;
  do mxchar <- amint_to_char [mx] true false;
  do body <- mapM orca_write_pot (ecp_sorted pots);
  ok (nl1 +++ nl1 +++ "NewECP " +++ upper sym +++ nl1 +++
      "  N_core " +++ Z_to_string nelec +++ nl1 +++
      "  lmax " +++ mxchar +++ nl1 +++
      String.concat "" body +++ "end").

(* write_orca_ecp_basis(basis, ecp_elements); write_gamess_us_common calls it only `if ecp_elements:` - for no element the
   loop body is never run and the result is '' as well *)
Definition orca_write_ecp (ecps : list (Z * (Z * list epot))) : res string :=
  do parts <- mapM orca_write_ecp_element ecps;
  ok (String.concat "" parts).

(* ------------------------------------------------------------------ *)
(* write_orca = write_gamess_us_common(basis, write_orca_ecp_basis)    *)
(* ------------------------------------------------------------------ *)
(* INPUT: the two views of basis['elements'] AFTER the three normalisation calls of write_gamess_us_common, in this order:
       basis = manip.uncontract_general(basis, True)
       basis = manip.uncontract_spdf(basis, 1, False)
       basis = sort.sort_basis(basis, False)
     els  = [(z, data['electron_shells'])                       for the elements that have the key 'electron_shells']
     ecps = [(z, (data['ecp_electrons'], data['ecp_potentials'])) for the elements that have the key 'ecp_potentials']
   both in dictionary order.  Nothing else of the dictionary is printed (no name, description, function types ...).
   The text: `$DATA`, per element an empty line and the upper-case English NAME, per shell `LETTER   nprim` and the numbered
   primitives, an empty line, `$END` WITHOUT a newline; then per ECP element two newlines, `NewECP SYM`, `  N_core n`,
   `  lmax letter`, per potential `  letter nprim` and the numbered terms (index, gaussian exponent, coefficient,
   r exponent), `end` WITHOUT a newline. *)
Definition orca_write_all (els : list (Z * list sshell)) (ecps : list (Z * (Z * list epot))) : res string :=
  do a <- gus_write_electron els;
  do b <- orca_write_ecp ecps;
  ok (a +++ b).
