(* Model of the ELECTRON-SHELL part of the two Molcas writers and of the one Molcas reader:
     writers/molcas.py          write_molcas          (format 'molcas', the INLINE form: `Basis set` ... `End of basis set`)
     writers/molcas_library.py  write_molcas_library  (format 'molcas_library', the basis_library form: `/Sym.name.author.cont.`)
     readers/molcas.py          read_molcas, _parse_electron_lines   (registered for BOTH formats in readers/read.py)
     readers/helpers.py         prune_lines(lines, '*#$'), partition_lines, remove_block, parse_line_regex (+ _convert_str_int),
                                read_n_floats, read_all_floats, chunk_list
     printing.py                write_matrix([exponents], [17]) and write_matrix(coefficients, point_places)  (no convert_exp)
     lut.py                     element_name_from_Z, element_sym_from_Z, element_Z_from_sym, amint_to_char, function_type_from_am
     misc.py                    contraction_string (both forms), max_am, transpose_matrix
     manip.py                   create_element_data (key_exist_ok=False)
   The ECP part (`PP, sym, nelec, lmax ;` ...) and the whole file are modelled in Model/MolcasEcp.v; the reader of this file
   answers ENotImpl where read_molcas would enter _parse_ecp_lines.

   Text is a string of bytes; white space (\s, str.strip, str.split), letters ([a-zA-Z]), digits (\d, str.isdecimal) and the
   case folding of re.IGNORECASE / str.lower are the ASCII ones, as everywhere in Model/.  int() of a run of digits is its value
   (Python's limit of 4300 digits is not modelled), float() of a string that matches helpers.floating_re_str is modelled by
   Model.Num.parse_num (the exact decimal value; None where float() raises: no digit in the mantissa or a Fortran marker d / D).
   Definitions only; statements in Proofs/MolcasDefs.v, proofs in Proofs/MolcasSpec.v. *)
From BSE Require Import Model.Val Model.Text Model.Num Model.Basis Model.Manip Model.Matrix Model.Lut Model.Elements
                        Model.Nwchem Model.NwchemEcp.

(* ------------------------------------------------------------------ *)
(* writers: the common pieces                                          *)
(* ------------------------------------------------------------------ *)

(* '{:>w}'.format(x) *)
Definition rjust (w : nat) (s : string) : string := sp (w - String.length s) +++ s.

(* misc.max_am(shells): all_am = [max(x['angular_momentum']) for x in shells]; max(all_am).  max() of an empty list is a
   ValueError, in the comprehension first *)
Definition mc_max_am (shs : list sshell) : res Z :=
  do ms <- mapM (fun s => match am s with [] => fail EValue | a => ok (zmax a) end) shs;
  match ms with [] => fail EValue | _ => ok (zmax ms) end.

(* one iteration of `for shell in data['electron_shells']` (the same statements in both writers, only .upper() / .lower()):
     amchar = lut.amint_to_char(shell['angular_momentum']).upper()
     s += '* {}-type functions\n'.format(amchar);  s += '{:>6}    {}\n'.format(nprim, ngen)
     s += printing.write_matrix([exponents], [17])
     point_places = [8 * i + 15 * (i - 1) for i in range(1, ngen + 1)];  s += printing.write_matrix(coefficients, point_places)
   leftpad_check (Model/NwchemEcp.v) is the first statement of write_matrix: _find_point of every cell of every column *)
Definition mc_write_shell (up : bool) (s : sshell) : res string :=
  let nprim := List.length (exps s) in
  let ngen := List.length (coefs s) in
  do amchar <- amint_to_char (am s) false false;
  do _ <- leftpad_check [map CStr (exps s)] [17%Z];
  do me <- write_matrix [map CStr (exps s)] [17%Z] false;
  do _ <- leftpad_check (map (map CStr) (coefs s)) (nw_point_places ngen);
  do mc <- write_matrix (map (map CStr) (coefs s)) (nw_point_places ngen) false;
  ok ("* " +++ (if up then upper amchar else lower amchar) +++ "-type functions" +++ nl1 +++
      rjust 6 (nat_str nprim) +++ "    " +++ nat_str ngen +++ nl1 +++ me +++ mc).

(* cartesian_shells = set(); for shell ...: if shell['function_type'] == 'gto_cartesian': for am ...: add(amint_to_char([am]))
   The result is a Python SET of strings; ' '.join(cartesian_shells) iterates it in an order that depends on the string hashes,
   i.e. on PYTHONHASHSEED: with two or more cartesian momenta the written text differs from one interpreter run to the next.
   The model takes the iteration order as a parameter: sord maps the distinct letters (in insertion order) to the list that
   the iteration yields. *)
Fixpoint dedup_str (l : list string) (seen : list string) : list string :=
  match l with
  | [] => []
  | x :: t => if existsb (String.eqb x) seen then dedup_str t seen else x :: dedup_str t (x :: seen)
  end.
Definition mc_cartesian (sord : list string -> list string) (shs : list sshell) : res (list string) :=
  do chars <- mapM (fun s => if String.eqb (ftype s) "gto_cartesian"
                             then mapM (fun a => amint_to_char [a] false false) (am s) else ok []) shs;
  ok (sord (dedup_str (concat chars) [])).

(* ------------------------------------------------------------------ *)
(* writer 1: write_molcas (inline form)                                *)
(* ------------------------------------------------------------------ *)
(* one iteration of `for z, data in basis['elements'].items()` for an element that has electron shells and no ECP *)
Definition mcas_write_element (sord : list string -> list string) (zs : Z * list sshell) : res string :=
  let '(z, shs) := zs in
  do name <- element_name_from_Z z false;
  do sym <- element_sym_from_Z z true;
  do cs <- contraction_string (Some (map nw_cshell shs)) false;
  do mx <- mc_max_am shs;
  do body <- mapM (mc_write_shell true) shs;
  do cart <- mc_cartesian sord shs;
  ok ("Basis set" +++ nl1 +++
      "* " +++ upper name +++ "  " +++ cs +++ nl1 +++
      " " +++ sym +++ "    / inline" +++ nl1 +++
      rjust 7 (Z_to_string z) +++ ".00   " +++ Z_to_string mx +++ nl1 +++
      String.concat "" body +++
      (match cart with [] => "" | _ => "cartesian " +++ sjoin " " cart +++ nl1 end) +++
      "End of basis set" +++ nl1 +++ nl1).

(* write_molcas for a basis without ECPs.
   INPUT: els = [(z, data['electron_shells'])] in dictionary order, taken from the basis AFTER the two normalisation calls
       basis = manip.make_general(basis, False, True)   (uncontract_spdf(0): every fused shell is split; then ONE shell per
                                                         angular momentum, holding all primitives of that momentum and one
                                                         general contraction per original contraction, padded with
                                                         '0.00000000'; region '' ; function type of the first merged shell;
                                                         then prune_basis)
       basis = sort.sort_basis(basis, False)            (elements by Z, shells by momentum, primitives by exponent)
   so every shell has ONE momentum and the momenta of an element are distinct and increasing.
   Nothing else of the dictionary is printed (no name, role, description ...).  The empty basis gives the empty text. *)
Definition mcas_write_electron (sord : list string -> list string) (els : list (Z * list sshell)) : res string :=
  do parts <- mapM (mcas_write_element sord) els; ok (String.concat "" parts).

(* ------------------------------------------------------------------ *)
(* writer 2: write_molcas_library (basis_library form)                 *)
(* ------------------------------------------------------------------ *)
(* what the library writer prints beside the numbers:
     bs_name  = (basis['names'][0] if 'names' in basis else basis['name']).replace(' ', '_')
     meta z   = (first_author(ref, ref_data), format_reference(ref, ref_data)) for the last reference key of element z
                (both go through unidecode; '' and 'Unknown reference' when the element has no reference); they are INPUTS of
                the model, api.get_reference_data / unidecode are not modelled *)
Definition mcasl_write_element (sord : list string -> list string) (bs_name : string) (meta : Z -> string * string)
                               (zs : Z * list sshell) : res string :=
  let '(z, shs) := zs in
  do name <- element_name_from_Z z false;
  do sym <- element_sym_from_Z z true;
  do cc <- contraction_string (Some (map nw_cshell shs)) true;
  do cs <- contraction_string (Some (map nw_cshell shs)) false;
  do cart <- mc_cartesian sord shs;
  do mx <- mc_max_am shs;
  do body <- mapM (mc_write_shell false) shs;
  ok ("/" +++ sym +++ "." +++ bs_name +++ "." +++ fst (meta z) +++ "." +++ cc +++ "." +++ nl1 +++
      snd (meta z) +++ nl1 +++
      upper name +++ " " +++ cs +++ nl1 +++
      (match cart with [] => "" | _ => "Options" +++ nl1 +++ "Cartesian " +++ sjoin " " cart +++ nl1 +++ "EndOptions" +++ nl1 end) +++
      rjust 7 (Z_to_string z) +++ ".0   " +++ Z_to_string mx +++ nl1 +++
      String.concat "" body +++ nl1).

(* write_molcas_library for a basis without ECPs; same normalisation calls, same input as mcas_write_electron *)
Definition mcasl_write_electron (sord : list string -> list string) (bs_name : string) (meta : Z -> string * string)
                                (els : list (Z * list sshell)) : res string :=
  do parts <- mapM (mcasl_write_element sord bs_name meta) els; ok (String.concat "" parts).

(* ------------------------------------------------------------------ *)
(* reader: regular expressions                                         *)
(* (all of them are matched against a line that prune_lines has stripped; a line that is not stripped is answered
    `no match`, which differs from Python only in that `$` would also accept one final \n)                            *)
(* ------------------------------------------------------------------ *)
Fixpoint span_nondot (s : string) : string * string :=
  match s with
  | String c t => if Ascii.eqb c "." then (EmptyString, s) else let '(a, r) := span_nondot t in (String c a, r)
  | EmptyString => (EmptyString, EmptyString)
  end.

(* `([^.]+)\..*$` at the head of r: gives the group *)
Definition head_name (r : string) : option string :=
  let '(n, r') := span_nondot r in
  match n, r' with
  | String _ _, String _ _ => Some n     (* r' begins with the point span_nondot stopped at *)
  | _, _ => None
  end.

(* element_head_re = ^/([a-zA-Z]{1,3})\.(?:ECP\.)?([^.]+)\..*$
   the run of letters after '/' must be followed by a point, so it is matched as a whole and must have 1..3 letters;
   the optional group is tried first (greedy), the regex falls back to `no ECP.` when the rest does not match *)
Definition match_element_head (l : string) : option (string * string) :=
  match l with
  | String "/" r0 =>
    let '(a, r) := span_alpha r0 in
    if andb (Nat.leb 1 (String.length a)) (Nat.leb (String.length a) 3) then
      match r with
      | String "." r1 =>
        match (if str_prefix "ECP." r1 then head_name (drop_chars 4 r1) else None) with
        | Some n => Some (a, n)
        | None => match head_name r1 with Some n => Some (a, n) | None => None end
        end
      | _ => None
      end
    else None
  | _ => None
  end.

(* int(s) succeeds for a str s (helpers._convert_str_int): optional white space, sign, digits with single underscores
   between them.  (Digits beyond ASCII, which int() accepts too, are not modelled.) *)
Fixpoint int_dfa (need : bool) (s : string) : bool :=
  match s with
  | EmptyString => negb need
  | String c t => if is_digit c then int_dfa false t
                  else if andb (Ascii.eqb c "_") (negb need) then int_dfa true t else false
  end.
Definition py_int_like (s : string) : bool := int_dfa true (skip_sign (strip_ws s)).

(* electron_z_max_am_re = ^(\d+|F)(?:\s+(\d+))?$   with F = helpers.floating_re_str
   shell_nprim_ngen_re  = ^(\d+)(?:\s+(\d+))?$
   neither \d+ nor F contains white space and the whole (stripped) line is consumed, so the groups are the one or two
   white-space delimited words of the line *)
Definition match_one_two (first_ok : string -> bool) (l : string) : option (string * option string) :=
  if negb (String.eqb (strip_ws l) l) then None else
  match tokens_acc l "" with
  | [a] => if first_ok a then Some (a, None) else None
  | [a; b] => if andb (first_ok a) (isdecimal b) then Some (a, Some b) else None
  | _ => None
  end.
Definition match_z_max_am : string -> option (string * option string) :=
  match_one_two (fun a => orb (isdecimal a) (is_floating a)).
Definition match_nprim_ngen : string -> option (string * option string) := match_one_two isdecimal.

(* m * 10^e is an integer: its value *)
Definition dec_int_value (v : Z * Z) : option Z :=
  let '(m, e) := v in
  if (0 <=? e)%Z then Some (m * pow10 e)%Z
  else if Z.eqb (Z.modulo m (pow10 (- e))) 0 then Some (Z.div m (pow10 (- e))) else None.

(* nuc_charge = float(nuc_charge); if float(int(nuc_charge)) != nuc_charge: raise RuntimeError("..." + nuc_charge)
   - the group was turned into an int by _convert_str_int when it is a run of digits
   - float() of a word that matches F raises ValueError for '.' , '-.e1' ... and for a Fortran marker (this line is not
     passed through replace_d)
   - the RuntimeError is never raised: building its message adds a str and a float, which is a TypeError
   (float rounding is not modelled: the test is made on the exact decimal value; inf raises OverflowError in int()) *)
Definition nuc_charge_value (a : string) : res Z :=
  if isdecimal a then ok (digits_val a 0) else
  match parse_num a with
  | None => fail EValue
  | Some v => match dec_int_value v with Some n => ok n | None => fail EType end
  end.

(* ------------------------------------------------------------------ *)
(* reader: helpers                                                     *)
(* ------------------------------------------------------------------ *)
(* the lines before the first one that satisfies p, and the rest (beginning with that line) *)
Fixpoint break_at (p : string -> bool) (l : list string) : list string * list string :=
  match l with
  | [] => ([], [])
  | x :: t => if p x then ([], l) else let '(a, b) := break_at p t in (x :: a, b)
  end.

(* helpers.remove_block(lines, start_re, end_re): the lines between the first start line and the next end line (both
   excluded) and the lines without that block; RuntimeError when the block is not closed *)
Definition remove_block (is_start is_end : string -> bool) (lines : list string) : res (list string * list string) :=
  match break_at is_start lines with
  | (_, []) => ok ([], lines)
  | (before, _ :: after) =>
    match break_at is_end after with
    | (_, []) => fail ERuntime
    | (blk, _ :: rest) => ok (blk, before ++ rest)
    end
  end.

(* re.compile('Options', IGNORECASE).match / 'EndOptions' / block_option = OrbitalEnergies|FockOperator (IGNORECASE) *)
Definition is_options (l : string) : bool := str_prefix "options" (lower l).
Definition is_endoptions (l : string) : bool := str_prefix "endoptions" (lower l).
Definition is_block_option (l : string) : bool :=
  orb (str_prefix "orbitalenergies" (lower l)) (str_prefix "fockoperator" (lower l)).

(* lambda x: x.split()[0].isdecimal()   (IndexError on a line without a word) *)
Definition starts_decimal (x : string) : res bool :=
  match tokens_acc x "" with [] => fail EIndex | w :: _ => ok (isdecimal w) end.

(* lst[::step] *)
Fixpoint every_nth (step : nat) (k : nat) (l : list (list string)) : list (list string) :=
  match l with
  | [] => []
  | x :: t => match k with O => x :: every_nth step (step - 1) t | S k' => every_nth step k' t end
  end.

(* helpers.read_n_floats(lines, n): words of line after line (replace_d, strip, re.split(\s+)) until there are at least n *)
Fixpoint read_n_floats_go (n : nat) (lines : list string) (found : list string) : res (list string * list string) :=
  if Nat.leb n (List.length found) then ok (found, lines) else
  match lines with
  | [] => fail ERuntime
  | l :: t => match l with
              | EmptyString => fail ERuntime
              | _ => read_n_floats_go n t (found ++ split_ws (replace_d (strip_ws l)))
              end
  end.
Definition read_n_floats (lines : list string) (n : nat) : res (list string * list string) :=
  do fr <- read_n_floats_go n lines [];
  if negb (Nat.eqb (List.length (fst fr)) n) then fail ERuntime else
  if negb (forallb is_floating (fst fr)) then fail ERuntime else ok fr.

(* helpers.read_all_floats(lines) *)
Definition read_all_floats (lines : list string) : res (list string) :=
  let found := flat_map (fun l => split_ws (replace_d (strip_ws l))) lines in
  if negb (forallb is_floating found) then fail ERuntime else ok found.

(* helpers.chunk_list(lst, rows, cols) once len(lst) == rows * cols is known *)
Fixpoint chunk (rows cols : nat) (l : list string) : list (list string) :=
  match rows with
  | O => []
  | S r => firstn cols l :: chunk r cols (skipn cols l)
  end.

(* ['1.0' if j == i else '0.0' for j in range(nprim)] for i in range(nprim), flattened *)
Definition unit_matrix (n : nat) : list string :=
  flat_map (fun i => map (fun j => if Nat.eqb j i then "1.0" else "0.0") (seq 0 n)) (seq 0 n).

(* ------------------------------------------------------------------ *)
(* reader: _parse_electron_lines                                       *)
(* ------------------------------------------------------------------ *)
(* the body of `for shell_lines in shell_blocks` *)
Definition mc_parse_shell (shell_am : Z) (shell_lines : list string) : res sshell :=
  match shell_lines with
  | [] => fail EIndex
  | first :: rest =>
    match match_nprim_ngen first with
    | None => fail ERuntime
    | Some (a, ob) =>
      let nprim := Z.to_nat (digits_val a 0) in
      let ngen := option_map (fun b => Z.to_nat (digits_val b 0)) ob in
      if Nat.eqb nprim 0 then fail ERuntime else
      if match ngen with Some O => true | _ => false end then fail ERuntime else
      do er <- read_n_floats rest nprim;
      let '(exponents, rest') := er in
      do cf0 <- read_all_floats rest';
      let cf := match cf0 with [] => unit_matrix nprim | _ => cf0 end in
      let n_coefs := List.length cf in
      if negb (Nat.eqb (Nat.modulo n_coefs nprim) 0) then fail ERuntime else
      if match ngen with Some g => negb (Nat.eqb g (Nat.div n_coefs nprim)) | None => false end then fail ERuntime else
      let ngen' := Nat.div n_coefs nprim in
      do func_type <- function_type_from_am [shell_am] "gto" "spherical";
      ok (mkShell func_type "" [shell_am] exponents (@transpose string (chunk nprim ngen' cf)))
    end
  end.

(* shell_am = 0; for shell_lines in shell_blocks: ...; shell_am += 1 *)
Fixpoint mc_parse_shells (shell_am : Z) (blocks : list (list string)) : res (list sshell) :=
  match blocks with
  | [] => ok []
  | b :: t => do s <- mc_parse_shell shell_am b; do r <- mc_parse_shells (shell_am + 1)%Z t; ok (s :: r)
  end.

(* _parse_electron_lines after create_element_data: gives the nuclear charge of the second line and the shells.
   `check` stands for the statements between the nuclear charge and the partition into shells:
       ecp_electrons = int(element_Z) - int(nuc_charge)
       if 'ecp_electrons' in element_data and element_data['ecp_electrons'] != ecp_electrons: raise RuntimeError
   (nothing to check in the electron-only model; Model/MolcasEcp.v passes the test against the stored count) *)
Definition mc_parse_electron_block (check : Z -> res unit) (basis_lines : list string) : res (Z * list sshell) :=
  do ol <- remove_block is_options is_endoptions basis_lines;
  let '(options_lines, basis_lines) := ol in
  let n_option_blocks := List.length (filter is_block_option options_lines) in
  match basis_lines with
  | [] => fail EIndex
  | first :: rest =>
    match match_z_max_am first with
    | None => fail ERuntime
    | Some (a, ob) =>
      do nuc <- nuc_charge_value a;
      do _ <- check nuc;
      do shell_blocks <- partition_lines rest starts_decimal true 1 0 0;
      if match ob with
         | Some b => negb (Z.eqb (Z.of_nat (List.length shell_blocks))
                                 ((digits_val b 0 + 1) * (Z.of_nat n_option_blocks + 1)))
         | None => false
         end then fail ERuntime else
      let shell_blocks := match n_option_blocks with O => shell_blocks | _ => every_nth (S n_option_blocks) 0 shell_blocks end in
      do shells <- mc_parse_shells 0 shell_blocks;
      ok (nuc, shells)
    end
  end.

(* ------------------------------------------------------------------ *)
(* reader: read_molcas                                                 *)
(* ------------------------------------------------------------------ *)
(* lambda x: x.lower().startswith('pp,') or x.lower().startswith('m1') *)
Definition is_pp_or_m1 (x : string) : bool := orb (str_prefix "pp," (lower x)) (str_prefix "m1" (lower x)).

(* the state of the loop: bs_data (element -> 'electron_shells', insertion order; the Python key is str(Z)) and
   basis_names_found (a set; only its size is used) *)
Definition mc_state := (list (Z * list sshell) * list string)%type.

Definition add_name (n : string) (names : list string) : list string :=
  if existsb (String.eqb n) names then names else names ++ [n].

(* `for block_lines in element_split` of the electron-only model.  An ECP block is outside the modelled fragment (ENotImpl);
   element_data['ecp_electrons'] = Z - charge, which _parse_electron_lines stores when it is positive, is not part of the
   result of this model (it is in Model/MolcasEcp.v) *)
Fixpoint mc_element_split (element_Z : Z) (blocks : list (list string)) (bs_data : list (Z * list sshell))
  : res (list (Z * list sshell)) :=
  match blocks with
  | [] => ok bs_data
  | b :: t =>
    match b with
    | [] => fail EIndex
    | first :: _ =>
      if str_prefix "pp" (lower first) then fail ENotImpl else
      if str_prefix "m1" (lower first) then fail ERuntime else
      (* manip.create_element_data(bs_data, element_Z, 'electron_shells'): RuntimeError when the key exists *)
      if existsb (Z.eqb element_Z) (map fst bs_data) then fail ERuntime else
      do cs <- mc_parse_electron_block (fun _ => ok tt) b;
      mc_element_split element_Z t (bs_data ++ [(element_Z, snd cs)])
    end
  end.

(* one iteration of `for element_lines in element_blocks` *)
Definition mc_parse_element (element_lines : list string) (st : mc_state) : res mc_state :=
  let '(bs_data, names) := st in
  match element_lines with
  | [] => fail EIndex
  | first :: _ =>
    match match_element_head first with
    | None => fail ERuntime
    | Some (element_sym, basis_name) =>
      do element_Z <- element_Z_from_sym element_sym;
      (* basis_names_found.add(basis_name.lower()): the group is an int when int() accepts it - AttributeError *)
      if py_int_like basis_name then fail EOther else
      let names := add_name (lower basis_name) names in
      do element_split <- partition_lines (skipn 3 element_lines) (fun x => ok (is_pp_or_m1 x)) true 1 1 2;
      do d <- mc_element_split element_Z element_split bs_data;
      ok (d, names)
    end
  end.

Fixpoint mc_elements (blocks : list (list string)) (st : mc_state) : res mc_state :=
  match blocks with
  | [] => ok st
  | b :: t => do st' <- mc_parse_element b st; mc_elements t st'
  end.

(* readers/molcas.py read_molcas: bs_data (electron shells) and other_data['name'].
   `next(iter(basis_names_found))` on the empty set is a StopIteration (EOther) *)
Definition mcas_read (lines : list string) : res (list (Z * list sshell) * string) :=
  let basis_lines := prune_lines lines "*#$" true true in
  do element_blocks <- partition_lines basis_lines (fun x => ok (str_prefix "/" x)) true 4 0 0;
  do st <- mc_elements element_blocks ([], []);
  let '(bs_data, names) := st in
  match names with
  | [] => fail EOther
  | [n] => ok (bs_data, n)
  | _ => fail ERuntime
  end.

Definition mcas_read_electron (lines : list string) : res (list (Z * list sshell)) :=
  do r <- mcas_read lines; ok (fst r).

(* write, then read back: format 'molcas' and format 'molcas_library' *)
Definition mcas_roundtrip (sord : list string -> list string) (els : list (Z * list sshell)) : res (list (Z * list sshell)) :=
  do t <- mcas_write_electron sord els; mcas_read_electron (splitlines t).
Definition mcasl_roundtrip (sord : list string -> list string) (bs_name : string) (meta : Z -> string * string)
                           (els : list (Z * list sshell)) : res (list (Z * list sshell)) :=
  do t <- mcasl_write_electron sord bs_name meta els; mcas_read_electron (splitlines t).
