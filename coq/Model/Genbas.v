(* Model of the ELECTRON-SHELL part of the CFOUR / GENBAS writer / reader pair:
     writers/genbas.py   write_cfour = _write_genbas_internal(basis, _cfour_exp, _cfour_coef), the `if electron_elements:` part
                         (_print_columns, _cfour_exp, _cfour_coef; write_aces2, the rounding variant, is NOT modelled)
     readers/genbas.py   read_genbas, _parse_electron_lines (element_block_re, ecp_block_re only to recognise an ECP block)
     readers/helpers.py  prune_lines(lines, '!#', prune_blank=False), partition_lines(min_after=1, min_size=4),
                         parse_line_regex, remove_expected_line, read_n_integers, read_n_floats, parse_fixed_matrix
     misc.py             transpose_matrix
     lut.py              element_sym_from_Z(z) (+ .upper()), element_Z_from_sym, function_type_from_am
     manip.py            create_element_data (key_exist_ok=False)
   The ECP part (`! Effective core Potentials` ...) is modelled in Model/GenbasEcp.v; the reader of this file answers ENotImpl
   where read_genbas would hand an ECP block to the Turbomole potential parser (after the first statement of _parse_ecp_lines).
   Text is a string of bytes, white space is ASCII white space (\s, str.strip), letters / digits are ASCII ([a-zA-Z], \d), as
   everywhere in Model/.  int() of a run of digits is its value (Python's limit of 4300 digits is not modelled).
   Pieces shared with the other models: span_alpha, function_type_from_am, append_shell (Model/Nwchem.v), span_digits,
   tm_create_electron_shells (Model/Turbomole.v), strip_prefix_ci (Model/NwchemEcp.v).
   Definitions only; statements in Proofs/GenbasDefs.v, proofs in Proofs/GenbasSpec.v. *)
From BSE Require Import Model.Val Model.Text Model.Basis Model.Manip Model.Matrix Model.Lut Model.Elements Model.Nwchem
                        Model.NwchemEcp Model.Turbomole.

(* ------------------------------------------------------------------ *)
(* writer                                                              *)
(* ------------------------------------------------------------------ *)

(* _cfour_exp(e) = _cfour_coef(e) = e.replace('E', 'D') + ' '   (only the upper-case marker is converted) *)
Definition c4_dconv (e : string) : string := smap (fun c => if Ascii.eqb c "E" then "D"%char else c) e.
Definition c4_num (e : string) : string := c4_dconv e +++ " ".

(* [data[i:i + ncol] for i in range(0, len(data), ncol)]; fuel = len(data) is enough for ncol >= 1 (ncol is 5 or 7) *)
Fixpoint chunks_fuel (fuel ncol : nat) (data : list string) : list (list string) :=
  match fuel with
  | O => []
  | S f => match data with [] => [] | _ => firstn ncol data :: chunks_fuel f ncol (skipn ncol data) end
  end.
Definition chunks (ncol : nat) (data : list string) : list (list string) := chunks_fuel (List.length data) ncol data.

(* _print_columns(data, ncol): s += ''.join(data[i:i + ncol]) + '\n' *)
Definition print_columns (data : list string) (ncol : nat) : string :=
  String.concat "" (map (fun ch => String.concat "" ch +++ nl1) (chunks ncol data)).

(* '{:>w}'.format(x) for the string x = str(int) *)
Definition rjust (w : nat) (s : string) : string := sp (w - String.length s) +++ s.

(* the body of the second `for shell in data['electron_shells']`:
     exponents = [exp_formatter(x) ...]; coefficients = transpose([[coef_formatter(x) ...] ...])   (zip: shortest row wins)
     s += _print_columns(exponents, 5) + '\n';  for c in coefficients: s += _print_columns(c, 7);  s += '\n' *)
Definition c4_write_shell (s : sshell) : string :=
  let exponents := map c4_num (exps s) in
  let coefficients := @transpose string (map (map c4_num) (coefs s)) in
  print_columns exponents 5 +++ nl1 +++
  String.concat "" (map (fun c => print_columns c 7) coefficients) +++ nl1.

(* sh['angular_momentum'][0] *)
Definition c4_am0 (s : sshell) : res Z := match am s with [] => fail EIndex | a :: _ => ok a end.

(* one iteration of `for z in electron_elements`:
     sym = lut.element_sym_from_Z(z).upper(); nshell = len(data['electron_shells'])
     '{}:{}\n'.format(sym, basis['name']);  basis['description'] + '\n';  '\n';  '{:>3}\n'.format(nshell)
     the three lines of '{:>5}' fields (am[0], number of general contractions, number of primitives);  '\n';  the shells *)
Definition c4_write_element (name desc : string) (zs : Z * list sshell) : res string :=
  let '(z, shs) := zs in
  do sym <- element_sym_from_Z z false;
  do ams <- mapM c4_am0 shs;
  let s_am := String.concat "" (map (fun a => rjust 5 (Z_to_string a)) ams) in
  let s_ngen := String.concat "" (map (fun s => rjust 5 (nat_str (List.length (coefs s)))) shs) in
  let s_nprim := String.concat "" (map (fun s => rjust 5 (nat_str (List.length (exps s)))) shs) in
  ok (upper sym +++ ":" +++ name +++ nl1 +++ desc +++ nl1 +++ nl1 +++ rjust 3 (nat_str (List.length shs)) +++ nl1 +++
      s_am +++ nl1 +++ s_ngen +++ nl1 +++ s_nprim +++ nl1 +++ nl1 +++
      String.concat "" (map c4_write_shell shs)).

(* name = basis['name'], desc = basis['description'],
   els  = [(z, data['electron_shells'])] for the elements that have the key 'electron_shells', in dictionary order, AFTER
            basis = manip.make_general(basis, False, True)   (skip_spdf=False: uncontract_spdf(basis, 0) first, then ONE shell
                                                              per angular momentum holding every contraction of that momentum as a
                                                              general contraction padded with the literal '0.00000000', region '',
                                                              shells in increasing momentum; ends with prune_basis)
            basis = sort.sort_basis(basis, False)            (primitives, contractions and shells sorted)
   The text when no element has an ECP (with ECPs, '\n\n! Effective core Potentials\n...' follows, see Model/GenbasEcp.v).
   s = '\n' comes first; `if electron_elements:` only guards a loop that is empty anyway. *)
Definition c4_write_electron (name desc : string) (els : list (Z * list sshell)) : res string :=
  do parts <- mapM (c4_write_element name desc) els;
  ok (nl1 +++ String.concat "" parts).

(* ------------------------------------------------------------------ *)
(* reader: helpers                                                     *)
(* ------------------------------------------------------------------ *)

(* helpers.partition_lines with min_after (before=0, include_match=True): the while loop.  k = number of lines that still go
   into the current block without being tested (cur_block.extend(lines[i + 1:i + 1 + min_after]); i += min_after) *)
Fixpoint part_go_after (cond : string -> res bool) (min_after : nat) (lines : list string) (k : nat)
                       (cur : list string) (all : list (list string)) : res (list (list string)) :=
  match lines with
  | [] => ok (match cur with [] => all | _ => all ++ [cur] end)
  | l :: t =>
    match k with
    | S k' => part_go_after cond min_after t k' (cur ++ [l]) all
    | O =>
      do b <- cond l;
      if b then
        let all' := match cur with [] => all | _ => all ++ [cur] end in
        part_go_after cond min_after t min_after [l] all'
      else part_go_after cond min_after t 0 (cur ++ [l]) all
    end
  end.

(* partition_lines(lines, condition, min_after=min_after, min_size=min_size)  (min_blocks = max_blocks = None) *)
Definition partition_lines_after (lines : list string) (cond : string -> res bool) (min_after min_size : nat)
  : res (list (list string)) :=
  do blocks <- part_go_after cond min_after lines 0 [] [];
  if existsb (fun b => Nat.ltb (List.length b) min_size) blocks then fail ERuntime else ok blocks.

(* element_block_re = ^([a-zA-Z]{1,3}):(.* )$  [group 2 is `.` star]: the run of letters at the start of the line has 1..3 letters and
   is followed by a colon.  Returns group 1. *)
Definition match_c4_element_line (l : string) : option string :=
  let '(a, r) := span_alpha l in
  match a, r with
  | String _ _, String c _ => if andb (Nat.leb (String.length a) 3) (Ascii.eqb c ":") then Some a else None
  | _, _ => None
  end.
Definition is_c4_element_line (l : string) : bool := match match_c4_element_line l with Some _ => true | None => false end.
Definition parse_c4_element_line (l : string) : res string :=
  match match_c4_element_line l with Some a => ok a | None => fail ERuntime end.

(* ecp_block_re = ncore\s*=\s*(\d+)\s+lmax\s*=\s*(\d+)\s*$ with re.IGNORECASE, used with .match (anchored at the start of the
   line).  As ecp_info_re of the Turbomole reader (Model.TurbomoleEcp.match_ecp_info) but white space may follow. *)
Definition match_ecp_block (l : string) : option (string * string) :=
  match strip_prefix_ci "ncore" l with
  | None => None
  | Some r1 =>
    match lstrip_ws r1 with
    | String "=" r2 =>
      let '(d1, r3) := span_digits (lstrip_ws r2) in
      match d1, r3 with
      | String _ _, String c _ =>
        if is_space c then
          match strip_prefix_ci "lmax" (lstrip_ws r3) with
          | None => None
          | Some r4 =>
            match lstrip_ws r4 with
            | String "=" r5 =>
              let '(d2, r6) := span_digits (lstrip_ws r5) in
              match d2, lstrip_ws r6 with
              | String _ _, EmptyString => Some (d1, d2)
              | _, _ => None
              end
            | _ => None
            end
          end
        else None
      | _, _ => None
      end
    | _ => None
    end
  end.
Definition is_ecp_block_line (l : string) : bool := match match_ecp_block l with Some _ => true | None => false end.

(* helpers.remove_expected_line(lines, expected, position) for position >= 0: every failure is a RuntimeError *)
Definition remove_expected_line (lines : list string) (expected : string) (position : nat) : res (list string) :=
  match nth_error lines position with
  | None => fail ERuntime
  | Some l => if String.eqb l expected then ok (firstn position lines ++ skipn (S position) lines) else fail ERuntime
  end.

(* int(x) for x matching [-+]?\d+ *)
Definition int_of_token (s : string) : Z :=
  match s with
  | String "-" d => (- digits_val d 0)%Z
  | _ => digits_val (skip_sign s) 0
  end.

(* helpers.read_n_integers(lines, n_ints, True): lines[0] on an empty list is an IndexError *)
Fixpoint read_int_tokens (lines : list string) (n : Z) (found : list string) : res (list string * list string) :=
  if (Z.of_nat (List.length found) <? n)%Z then
    match lines with
    | [] => fail EIndex
    | l :: t => read_int_tokens t n (found ++ split_ws (strip_ws l))
    end
  else ok (found, lines).
Definition read_n_integers (lines : list string) (n : Z) : res (list Z * list string) :=
  do fl <- read_int_tokens lines n [];
  let '(found, rest) := fl in
  if negb (Z.eqb (Z.of_nat (List.length found)) n) then fail ERuntime else
  if negb (forallb is_integer found) then fail ERuntime else
  ok (map int_of_token found, rest).

(* helpers.read_n_floats(lines, n_numbers) *)
Fixpoint read_float_tokens (lines : list string) (n : Z) (found : list string) : res (list string * list string) :=
  if (Z.of_nat (List.length found) <? n)%Z then
    match lines with
    | [] => fail ERuntime                                               (* ran out of lines *)
    | l :: t => if is_empty l then fail ERuntime                        (* found empty line *)
                else read_float_tokens t n (found ++ split_ws (strip_ws (replace_d l)))
    end
  else ok (found, lines).
Definition read_n_floats (lines : list string) (n : Z) : res (list string * list string) :=
  do fl <- read_float_tokens lines n [];
  let '(found, rest) := fl in
  if negb (Z.eqb (Z.of_nat (List.length found)) n) then fail ERuntime else
  if negb (forallb is_floating found) then fail ERuntime else
  ok (found, rest).

(* helpers.parse_fixed_matrix(lines, rows, cols): `for i in range(rows)` *)
Fixpoint parse_fixed_matrix_go (rows : nat) (cols : Z) (lines : list string) : res (list (list string) * list string) :=
  match rows with
  | O => ok ([], lines)
  | S r =>
    do rl <- read_n_floats lines cols;
    let '(row_data, lines') := rl in
    do ml <- parse_fixed_matrix_go r cols lines';
    let '(mat, lines'') := ml in
    ok (row_data :: mat, lines'')
  end.
Definition parse_fixed_matrix (lines : list string) (rows cols : Z) : res (list (list string) * list string) :=
  parse_fixed_matrix_go (Z.to_nat rows) cols lines.

(* parse_line_regex(r'^(\d+)$', line, "Nshell integer") with convert_int *)
Definition parse_nshell (l : string) : res Z :=
  if isdecimal l then ok (digits_val l 0) else fail ERuntime.

(* ------------------------------------------------------------------ *)
(* reader                                                              *)
(* ------------------------------------------------------------------ *)

(* the body of `for shell_idx in range(nshell)`: returns the shell and the lines that are left *)
Definition c4_parse_shell (shell_am0 ngen nprim : Z) (basis_lines : list string) : res (sshell * list string) :=
  let shell_am := [shell_am0] in
  do func_type <- function_type_from_am shell_am "gto" "spherical";
  do basis_lines <- remove_expected_line basis_lines "" 0;
  do el <- read_n_floats basis_lines nprim;
  let '(exponents, basis_lines) := el in
  do basis_lines <- remove_expected_line basis_lines "" 0;
  do cl <- parse_fixed_matrix basis_lines nprim ngen;
  let '(coefficients, basis_lines) := cl in
  ok (mkShell func_type "" shell_am exponents (@transpose string coefficients), basis_lines).

(* the loop; element_data['electron_shells'].append(shell).  idx = the three integer lists zipped (they have nshell entries each) *)
Fixpoint c4_parse_shells (z : Z) (idx : list (Z * Z * Z)) (basis_lines : list string) (bs_data : list (Z * list sshell))
  : res (list string * list (Z * list sshell)) :=
  match idx with
  | [] => ok (basis_lines, bs_data)
  | (a, g, p) :: t =>
    do sl <- c4_parse_shell a g p basis_lines;
    let '(sh, basis_lines') := sl in
    c4_parse_shells z t basis_lines' (append_shell z sh bs_data)
  end.

(* readers/genbas.py _parse_electron_lines.  Blocks have at least four lines (min_size=4), so basis_lines[0] exists. *)
Definition c4_parse_electron_lines (basis_lines : list string) (bs_data : list (Z * list sshell))
  : res (list (Z * list sshell)) :=
  match basis_lines with
  | [] => fail EIndex
  | l0 :: _ =>
    do element_sym <- parse_c4_element_line l0;
    do element_Z <- element_Z_from_sym element_sym;
    do d <- tm_create_electron_shells element_Z bs_data;
    let basis_lines := skipn 2 basis_lines in
    do basis_lines <- remove_expected_line basis_lines "" 0;
    match basis_lines with
    | [] => fail EIndex                                                 (* basis_lines[0] *)
    | l :: rest =>
      do nshell <- parse_nshell l;
      do r1 <- read_n_integers rest nshell;
      let '(shell_ams, basis_lines) := r1 in
      do r2 <- read_n_integers basis_lines nshell;
      let '(shell_ngens, basis_lines) := r2 in
      do r3 <- read_n_integers basis_lines nshell;
      let '(shell_nprims, basis_lines) := r3 in
      do ld <- c4_parse_shells element_Z (combine (combine shell_ams shell_ngens) shell_nprims) basis_lines d;
      let '(basis_lines, d') := ld in
      match prune_lines basis_lines "*" true true with
      | [] => ok d'
      | _ :: _ => fail ERuntime                                         (* Found extra lines after element block *)
      end
    end
  end.

(* `for element_lines in element_blocks` of read_genbas.  An ECP block goes to _parse_ecp_lines, whose first statement is
   remove_expected_line(basis_lines, '*', 1); what follows is outside the modelled fragment: ENotImpl *)
Fixpoint c4_blocks (blocks : list (list string)) (bs_data : list (Z * list sshell)) : res (list (Z * list sshell)) :=
  match blocks with
  | [] => ok bs_data
  | b :: t =>
    if existsb is_ecp_block_line b then
      do _ <- remove_expected_line b "*" 1; fail ENotImpl
    else
      do d <- c4_parse_electron_lines b bs_data; c4_blocks t d
  end.

(* readers/genbas.py read_genbas, electron part of the result (bs_data; the key str(Z) is kept as Z) *)
Definition c4_read_electron (lines : list string) : res (list (Z * list sshell)) :=
  let basis_lines := prune_lines lines "!#" false true in
  do element_blocks <- partition_lines_after basis_lines (fun l => ok (is_c4_element_line l)) 1 4;
  c4_blocks element_blocks [].

Definition c4_roundtrip (name desc : string) (els : list (Z * list sshell)) : res (list (Z * list sshell)) :=
  do t <- c4_write_electron name desc els; c4_read_electron (splitlines t).
