(* Model of the ECP part of the CFOUR / GENBAS writer / reader pair, and of the whole file (electron blocks + ECP blocks):
     writers/genbas.py   write_cfour = _write_genbas_internal(basis, _cfour_exp, _cfour_coef): the `if ecp_elements:` part
                         ('\n\n! Effective core Potentials\n', then per element `*`, `SYM:name`, `# description`, `*`,
                         `    NCORE = N    LMAX = L`, one block per potential - a letter line `l` or `l-lmax` and the table
                         coefficient / r exponent / gaussian exponent - and `*`), and the whole text
     readers/genbas.py   read_genbas, _parse_ecp_lines (_parse_electron_lines is Model/Genbas.v)
     readers/turbomole.py  _parse_ecp_potential_lines (Model.TurbomoleEcp.tmecp_parse_ecp_potential_lines)
     readers/helpers.py  prune_lines, partition_lines(min_after=1, min_size=4), remove_expected_line
     printing.py         write_matrix([*coefficients, rexponents, gexponents], [6, 18, 25])   (no convert_exp)
     lut.py              element_sym_from_Z(z).upper(), amint_to_char(am).lower() (hij=False, as the reader's amchar_to_int)
   As in Model/Genbas.v the writer is modelled AFTER its normalisation calls
     basis = manip.make_general(basis, False, True); basis = sort.sort_basis(basis, False)
   (sort_basis also sorts 'ecp_potentials' by angular momentum, the writer sorts them again itself), text is a string of
   bytes and the character classes are the ASCII ones.
   Pieces shared with the other models: the record epot, ecp_order / ecp_max_am / am_first / leftpad_check, add_keys, nw_el
   (Model/NwchemEcp.v), tmecp_cols, tmecp_map, tmecp_state, tmecp_assemble, tmecp_parse_ecp_potential_lines
   (Model/TurbomoleEcp.v), everything of Model/Genbas.v.
   Definitions only; statements in Proofs/GenbasEcpDefs.v, proofs in Proofs/GenbasEcpSpec.v. *)
From BSE Require Import Model.Val Model.Text Model.Basis Model.Manip Model.Matrix Model.Lut Model.Elements Model.Nwchem
                        Model.NwchemEcp Model.Turbomole Model.TurbomoleEcp Model.Genbas.

(* ------------------------------------------------------------------ *)
(* writer                                                              *)
(* ------------------------------------------------------------------ *)

(* point_places = [6, 18, 25]; the matrix is [*coefficients, rexponents, gexponents] (Model.TurbomoleEcp.tmecp_cols) *)
Definition c4ecp_point_places : list Z := [6; 18; 25]%Z.

(* the body of `for pot in ecp_list`:
     amchar = lut.amint_to_char(am).lower()
     s += '{}\n'.format(amchar)  if am[0] == max_ecp_am  else  '{}-{}\n'.format(amchar, max_ecp_amchar)
     s += printing.write_matrix([*coefficients, rexponents, gexponents], point_places) *)
Definition c4ecp_write_pot (max_ecp_am : Z) (max_ecp_amchar : string) (p : epot) : res string :=
  do amchar0 <- amint_to_char (p_am p) false false;
  let amchar := lower amchar0 in
  do a0 <- am_first p;
  let head := if Z.eqb a0 max_ecp_am then amchar +++ nl1 else amchar +++ "-" +++ max_ecp_amchar +++ nl1 in
  do _ <- leftpad_check (tmecp_cols p) c4ecp_point_places;
  do m <- write_matrix (tmecp_cols p) c4ecp_point_places false;
  ok (head +++ m).

(* one iteration of `for z in ecp_elements`: (Z, (data['ecp_electrons'], data['ecp_potentials'])) *)
Definition c4ecp_write_ecp_element (name desc : string) (e : Z * (Z * list epot)) : res string :=
  let '(z, (nelec, pots)) := e in
  do sym <- element_sym_from_Z z false;
  do mx <- ecp_max_am pots;
  do mxchar0 <- amint_to_char [mx] false false;
  let mxchar := lower mxchar0 in
  do ecp_list <- ecp_order pots;
  do body <- mapM (c4ecp_write_pot mx mxchar) ecp_list;
  ok ("*" +++ nl1 +++ upper sym +++ ":" +++ name +++ nl1 +++ "# " +++ desc +++ nl1 +++ "*" +++ nl1 +++
      "    NCORE = " +++ Z_to_string nelec +++ "    LMAX = " +++ Z_to_string mx +++ nl1 +++
      String.concat "" body +++ "*" +++ nl1).

(* `if ecp_elements:` s += '\n\n! Effective core Potentials\n' + the elements *)
Definition c4ecp_write_ecp (name desc : string) (ecps : list (Z * (Z * list epot))) : res string :=
  match ecps with
  | [] => ok ""
  | _ =>
    do parts <- mapM (c4ecp_write_ecp_element name desc) ecps;
    ok (nl1 +++ nl1 +++ "! Effective core Potentials" +++ nl1 +++ String.concat "" parts)
  end.

(* write_cfour after its two normalisation calls.
     els    = [(z, data['electron_shells'])]                          for the elements that have 'electron_shells',
     ecps   = [(z, (data['ecp_electrons'], data['ecp_potentials']))]  for the elements that have 'ecp_potentials',
   both in dictionary order (the two views of basis['elements']; an element may be in one of them or in both). *)
Definition c4ecp_write (name desc : string) (els : list (Z * list sshell)) (ecps : list (Z * (Z * list epot))) : res string :=
  do a <- c4_write_electron name desc els;
  do e <- c4ecp_write_ecp name desc ecps;
  ok (a +++ e).

(* ------------------------------------------------------------------ *)
(* reader                                                              *)
(* ------------------------------------------------------------------ *)

(* basis_lines[0] = basis_lines[0].replace(':', ' ', 1) *)
Fixpoint replace_colon (s : string) : string :=
  match s with
  | EmptyString => EmptyString
  | String c t => if Ascii.eqb c ":" then String " " t else String c (replace_colon t)
  end.

(* readers/genbas.py _parse_ecp_lines: remove the `*` line after the element line, then every other line that starts with
   `*` (and blank lines), put a blank for the colon of the element line, and hand over to the Turbomole parser.
   (basis_lines[0] on an empty list would be an IndexError; the list still has the element line.) *)
Definition c4ecp_parse_ecp_lines (basis_lines : list string) (pm : tmecp_map) : res tmecp_map :=
  do basis_lines <- remove_expected_line basis_lines "*" 1;
  let basis_lines := prune_lines basis_lines "*" true true in
  match basis_lines with
  | [] => fail EIndex
  | l0 :: t => tmecp_parse_ecp_potential_lines (replace_colon l0 :: t) pm
  end.

(* _parse_electron_lines on the electron component of bs_data.  manip.create_element_data(bs_data, Z, 'electron_shells') only
   looks at the key 'electron_shells', so an element that has ECP keys already is fine. *)

(* `for element_lines in element_blocks` of read_genbas; the state is the one of Model/TurbomoleEcp.v: key order, electron
   shells, ECP keys *)
Fixpoint c4ecp_blocks (blocks : list (list string)) (st : tmecp_state) : res tmecp_state :=
  match blocks with
  | [] => ok st
  | b :: t =>
    let '(order, em, pm) := st in
    if existsb is_ecp_block_line b then
      do pm' <- c4ecp_parse_ecp_lines b pm; c4ecp_blocks t (add_keys order (map fst pm'), em, pm')
    else
      do em' <- c4_parse_electron_lines b em; c4ecp_blocks t (add_keys order (map fst em'), em', pm)
  end.

(* readers/genbas.py read_genbas up to the result *)
Definition c4ecp_read_parts (lines : list string) : res tmecp_state :=
  let basis_lines := prune_lines lines "!#" false true in
  do element_blocks <- partition_lines_after basis_lines (fun l => ok (is_c4_element_line l)) 1 4;
  c4ecp_blocks element_blocks ([], [], []).

(* bs_data, element by element in insertion order (the record of Model/NwchemEcp.v, see tmecp_assemble) *)
Definition c4ecp_read (lines : list string) : res (list (Z * nw_el)) :=
  do st <- c4ecp_read_parts lines; ok (tmecp_assemble st).

Definition c4ecp_roundtrip (name desc : string) (els : list (Z * list sshell)) (ecps : list (Z * (Z * list epot)))
  : res (list (Z * nw_el)) :=
  do t <- c4ecp_write name desc els ecps; c4ecp_read (splitlines t).
