(* Text as UTF-8 bytes: Python's str.splitlines / strip, and readers.helpers.prune_lines. *)
From BSE Require Import Model.Val.

Definition byte (n : nat) : ascii := ascii_of_nat n.
Definition beq (c : ascii) (n : nat) : bool := Nat.eqb (nat_of_ascii c) n.

(* length in bytes of the line boundary at the head of s (0 = none):
   \n \r \r\n \v \f \x1c \x1d \x1e, U+0085 = C2 85, U+2028 / U+2029 = E2 80 A8 / A9 *)
Definition boundary_len (s : string) : nat :=
  match s with
  | String c t =>
    if beq c 13 then match t with String d _ => if beq d 10 then 2 else 1 | EmptyString => 1 end else
    if orb (beq c 10) (orb (beq c 11) (orb (beq c 12) (orb (beq c 28) (orb (beq c 29) (beq c 30))))) then 1 else
    if beq c 194 then match t with String d _ => if beq d 133 then 2 else 0 | EmptyString => 0 end else
    if beq c 226 then match t with
                      | String d (String e _) => if andb (beq d 128) (orb (beq e 168) (beq e 169)) then 3 else 0
                      | _ => 0 end
    else 0
  | EmptyString => 0
  end.

(* cur: the current line reversed; k: bytes of a multi-byte boundary still to be consumed *)
Fixpoint spl (keep : bool) (s : string) (cur : string) (k : nat) (body : string) : list string :=
  match s with
  | EmptyString => match cur with EmptyString => [] | _ => [srev cur] end
  | String c t =>
    match k with
    | S k' =>
      let cur' := String c cur in
      match k' with
      | O => (if keep then srev cur' else srev body) :: spl keep t "" 0 ""
      | _ => spl keep t cur' k' body
      end
    | O =>
      match boundary_len s with
      | O => spl keep t (String c cur) 0 ""
      | 1 => (if keep then srev (String c cur) else srev cur) :: spl keep t "" 0 ""
      | S (S m) => spl keep t (String c cur) (S m) cur
      end
    end
  end.
Definition splitlines_keepends (s : string) : list string := spl true s "" 0 "".
Definition splitlines (s : string) : list string := spl false s "" 0 "".

(* str.strip() on ASCII whitespace *)
Fixpoint lstrip_ws (s : string) : string :=
  match s with String c t => if is_space c then lstrip_ws t else s | EmptyString => EmptyString end.
Definition strip_ws (s : string) : string := srev (lstrip_ws (srev (lstrip_ws s))).

Definition first_in (chars : string) (l : string) : bool :=
  match l with String c _ => sany (Ascii.eqb c) chars | EmptyString => false end.
Definition is_empty (s : string) : bool := match s with EmptyString => true | _ => false end.

Fixpoint drop_while_empty (l : list string) : list string :=
  match l with x :: t => if is_empty x then drop_while_empty t else l | [] => [] end.

Definition prune_lines (lines : list string) (skipchars : string) (prune_blank strip_end_blanks : bool) : list string :=
  let l1 := map strip_ws lines in
  let l2 := if is_empty skipchars then l1 else filter (fun l => orb (is_empty l) (negb (first_in skipchars l))) l1 in
  let l3 := if prune_blank then filter (fun l => negb (is_empty l)) l2 else l2 in
  if andb strip_end_blanks (negb prune_blank) then rev (drop_while_empty (rev (drop_while_empty l3))) else l3.
